#!/bin/bash
# Runs the repository's own test suite with the verification guard OFF and checks that the
# 36 stable tests of /root/.vp/BASELINE.json pass.
set -u
cd /repo || exit 2
export CARGO_NET_OFFLINE=true
tmp=$(mktemp)
trap 'rm -f "$tmp"' EXIT
# the integration tests of this repository bind fixed ports (9128...) in every test process, so a
# parallel run can hit 'Address already in use': same thread count as the recorded baseline, plus retries
cargo nextest run --workspace --no-fail-fast --offline --test-threads 8 --retries 2 >"$tmp" 2>&1 || true
if ! grep -q "Summary" "$tmp"; then
  cargo test --workspace --no-fail-fast --offline >"$tmp" 2>&1 || true
fi
python3 - "$tmp" <<'PY'
import json, re, sys
out = open(sys.argv[1], encoding="utf-8", errors="replace").read()
base = json.load(open('/root/.vp/BASELINE.json'))
passed = set()
for m in re.finditer(r"PASS \[[^\]]*\]\s*(?:\(\s*\d+/\d+\)\s*)?(\S+)[ \t]+(\S+)", out):
    passed.add(m.group(1) + "::" + m.group(2))
for m in re.finditer(r"^test (\S+) \.\.\. ok", out, re.M):
    passed.add(m.group(1))
missing = []
for t in base["stable_pass"]:
    short = t.split("::", 1)[1] if "::" in t else t
    if not any(p == t or p.endswith("::" + short) or p.endswith(short) for p in passed):
        missing.append(t)
print("baseline: %d stable tests expected, %d not passing (%d PASS lines seen)" % (len(base["stable_pass"]), len(missing), len(passed)))
for t in missing:
    print("  NOT PASSING: " + t)
sys.exit(1 if missing else 0)
PY
