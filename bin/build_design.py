#!/usr/bin/env python3
"""Assembles DESIGN.md: doc/DESIGN.head.md + generated per-property section + doc/DESIGN.tail.md
with the findings table (known_findings.json) and the seeded-change table (seeded/*/)."""
import glob, json, os, re, subprocess, sys
V = os.path.dirname(os.path.dirname(os.path.abspath(__file__)))
head = open(os.path.join(V, "doc", "DESIGN.head.md")).read()
tail = open(os.path.join(V, "doc", "DESIGN.tail.md")).read()
sec5 = subprocess.run([sys.executable, os.path.join(V, "bin", "gen_design_props.py")], capture_output=True, text=True).stdout
nthm = sum(len(re.findall(r"^theorem\s", open(f).read(), flags=re.M)) for f in glob.glob(os.path.join(V, "lean/TT/Props/*.lean")))
head = head.replace("@NTHM@", str(nthm))

kf = json.load(open(os.path.join(V, "known_findings.json")))["findings"]
rows = ["| Prop | Status | Commit | What failed |", "|---|---|---|---|"]
for f in kf:
    what = re.sub(r"^fixed: property=\S+ \S+ ", "", f["what"]).replace("|", "\\|")
    rows.append("| %s | %s | %s | %s |" % (f["property"], f["status"], f.get("commit", "-"), what))
tail = tail.replace("@FINDINGS@", "\n".join(rows))

srows = ["| Seeded change | Property | What was changed (trigger) | Caught by | First failing input reported |", "|---|---|---|---|---|"]
missed = []
for d in sorted(glob.glob(os.path.join(V, "seeded", "*"))):
    name = os.path.basename(d)
    try:
        meta = json.load(open(os.path.join(d, "meta.json")))
    except Exception:
        continue
    res = {}
    if os.path.exists(os.path.join(d, "result.json")):
        res = json.load(open(os.path.join(d, "result.json")))
    det = res.get("detected_by", [])
    first = ""
    for c in det:
        first = (res["checks"][c].get("first_failing") or "")
        nf = res["checks"][c].get("no_failing_input")
        if nf:
            first = "(no-failing-input-found) " + first
        break
    if not det:
        missed.append(name)
    summ = (meta.get("summary", "") + " Trigger: " + meta.get("trigger", "")).replace("|", "\\|").replace("\n", " ")
    srows.append("| %s | %s | %s | %s | %s |" % (name, meta.get("property"), summ[:700], ", ".join(det) or "**not caught**", first[:300].replace("|", "\\|").replace("\n", " ")))
note = ""
extra = os.path.join(V, "doc", "DESIGN.seeded_notes.md")
if os.path.exists(extra):
    note = "\n" + open(extra).read()
tail = tail.replace("@SEEDED@", "\n".join(srows) + "\n" + note)
open(os.path.join(V, "DESIGN.md"), "w").write(head + "## 5. Per property, as built\n\n" + sec5 + tail)
print("DESIGN.md: %d lines, %d theorems, %d seeded changes (%d not caught)" % (len((head + sec5 + tail).splitlines()), nthm, len(srows) - 2, len(missed)))
