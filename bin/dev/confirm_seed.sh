#!/bin/bash
# usage: confirm_seed.sh <WT>   (worktree /tmp/wt_<WT> with both diffs applied)
wt=$1; cd /tmp/wt_$wt || exit 2
export CARGO_NET_OFFLINE=true CARGO_TARGET_DIR=/tmp/wt_$wt/target
cmd=$(python3 -c "import json;print(json.load(open('SEEDED/meta.json'))['demo_command'].split('   (')[0])")
echo "== $wt: $cmd"
bash -c "$cmd" > /tmp/confirm_$wt.with.log 2>&1; w=$?
git apply -R SEEDED/patch.diff || { echo "cannot revert patch"; exit 2; }
bash -c "$cmd" > /tmp/confirm_$wt.without.log 2>&1; wo=$?
git apply SEEDED/patch.diff
echo "$wt with-change exit=$w  without-change exit=$wo"
grep -E "^test result|FAILED|panicked" /tmp/confirm_$wt.with.log | head -4
grep -E "^test result" /tmp/confirm_$wt.without.log | head -2
