#!/usr/bin/env python3
"""gen_seed_prompts.py <suffix> <ID>...  - writes /tmp/seedprompts/<ID><suffix>.prompt (and a copy under
/verif/seeded/prompts) for a new round of seeded-change sub-agents, listing the changes already kept for the property,
and creates the scratch worktrees /tmp/wt_<ID><suffix> of /repo."""
import glob, json, os, subprocess, sys
suffix, ids = sys.argv[1], sys.argv[2:]
tpl = open("/tmp/seedprompts/TEMPLATE.txt").read() if os.path.exists("/tmp/seedprompts/TEMPLATE.txt") else open("/verif/seeded/prompts/TEMPLATE.txt").read()
props = {json.loads(l)["id"]: json.loads(l) for l in open("/verif/properties.jsonl")}
os.makedirs("/tmp/seedprompts", exist_ok=True)
for pid in ids:
    text = tpl.replace("@ID@", pid).replace("@PROP@", json.dumps(props[pid], indent=1))
    prev = []
    for d in sorted(glob.glob("/verif/seeded/%s-*" % pid)):
        try:
            m = json.load(open(os.path.join(d, "meta.json")))
        except Exception:
            continue
        prev.append("- %s (files: %s)" % (m.get("summary", "")[:420], ", ".join(m.get("files", []))))
    wt = "/tmp/wt_%s%s" % (pid, suffix)
    text += ("\n\nADDITIONAL INSTRUCTION FOR THIS ROUND: other engineers have already seeded the following bugs for this property:\n"
             + "\n".join(prev) +
             "\nYour bug MUST be of a different kind and in a different function or mechanism than all of these. Read the property's "
             "statement clause by clause, pick a clause (or a protocol / transport / address family / configuration for which a clause "
             "must hold) that none of the bugs above touches, and break that. Prefer a bug that only shows under a particular combination "
             "of inputs, configuration or order of events, in code that a black-box test of the happy path would not reach. A bug that makes "
             "the endpoint wedge, spin, leak or stop answering under a specific input is as welcome as one that gives a wrong answer. If you need "
             "an HTTP/3 client for a demonstration, lib/tests/common/mod.rs has Http3Session and run_endpoint_with_settings (bind port 0 first "
             "to get a free port; never use the fixed ports of the existing tests); the binary is built with `cargo build --offline -p "
             "trusttunnel_endpoint`. Your worktree directory is %s and your results go to %s/SEEDED/ (wherever the text above says "
             "/tmp/wt_%s, read %s).\n" % (wt, wt, pid, wt))
    for path in ("/tmp/seedprompts/%s%s.prompt" % (pid, suffix), "/verif/seeded/prompts/%s%s.prompt" % (pid, suffix)):
        open(path, "w").write(text)
    if not os.path.exists(wt):
        subprocess.run(["git", "-C", "/repo", "worktree", "add", "--detach", wt, "HEAD"], check=True,
                       stdout=subprocess.DEVNULL, stderr=subprocess.DEVNULL)
    print(pid, len(prev), "previous")
