#!/bin/bash
# keep_seed.sh <WT> <ID> <suffix>
wt=$1; id=${2:-$1}; suf=${3:-1}
/tmp/confirm_seed.sh $wt 2>&1 | grep -E "exit=|FAILED|test result"
d=/verif/seeded/$id-$suf; mkdir -p $d
cp /tmp/wt_$wt/SEEDED/patch.diff $d/patch.diff
[ -f /tmp/wt_$wt/SEEDED/demo.diff ] && cp /tmp/wt_$wt/SEEDED/demo.diff $d/demonstration.diff
[ -f /tmp/wt_$wt/SEEDED/demonstration.md ] && cp /tmp/wt_$wt/SEEDED/demonstration.md $d/demonstration.md
cp /tmp/wt_$wt/SEEDED/meta.json $d/meta.json
(echo "Confirmed by re-running the demonstration in a scratch worktree:"; grep -E "^test |^test result|panicked" /tmp/confirm_$wt.with.log | head -8 | sed 's/^/  with the change:    /'; grep -E "^test result" /tmp/confirm_$wt.without.log | head -2 | sed 's/^/  without the change: /') > $d/confirmation.txt
git -C /repo worktree remove --force /tmp/wt_$wt
cd /verif && bin/seeded_run.py $id-$suf
