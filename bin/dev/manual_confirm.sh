#!/bin/bash
# manual_confirm.sh <ID-n> [file to touch after applying/reverting]
k=$1; t=$2
git -C /repo worktree add --detach /tmp/wt_mc HEAD >/dev/null 2>&1
cd /tmp/wt_mc || exit 2
git apply /verif/seeded/$k/patch.diff && git apply /verif/seeded/$k/demonstration.diff || { echo "cannot apply"; }
export CARGO_NET_OFFLINE=true CARGO_TARGET_DIR=/tmp/wt_mc/target
cmd=$(python3 -c "import json;print(json.load(open('/verif/seeded/$k/meta.json'))['demo_command'].split('   (')[0])" | sed 's#/tmp/wt_[A-Za-z0-9]*#/tmp/wt_mc#g')
[ -n "$t" ] && touch $t
bash -c "$cmd" > /tmp/mc.with.log 2>&1; w=$?
git apply -R /verif/seeded/$k/patch.diff
[ -n "$t" ] && touch $t
bash -c "$cmd" > /tmp/mc.without.log 2>&1; wo=$?
echo "$k with-change exit=$w without-change exit=$wo"
(echo "Confirmed by re-running the demonstration in a scratch worktree (by hand: the delivered demo_command carried a parenthetical note):"; grep -E "^test |^test result" /tmp/mc.with.log | head -8 | sed 's/^/  with the change:    /'; grep -E "^test result" /tmp/mc.without.log | head -2 | sed 's/^/  without the change: /') > /verif/seeded/$k/confirmation.txt
cat /verif/seeded/$k/confirmation.txt
cd /tmp; git -C /repo worktree remove --force /tmp/wt_mc
