#!/usr/bin/env python3
"""Prints the per-property 'as built' section of DESIGN.md from the same tables the checks use
(bin/propcfg.py, bin/manifest_data.py) and the theorem names found in lean/TT/Props."""
import os, re, sys, json
sys.path.insert(0, os.path.dirname(os.path.abspath(__file__)))
import propcfg, manifest_data
V = os.path.dirname(os.path.dirname(os.path.abspath(__file__)))
props = [json.loads(l) for l in open(os.path.join(V, "properties.jsonl"))]

def imports(mod, seen):
    p = os.path.join(V, "lean", mod.replace(".", "/") + ".lean")
    if mod in seen or not os.path.exists(p):
        return
    seen.add(mod)
    for m in re.findall(r"^import (TT\.[\w.]+)", open(p).read(), flags=re.M):
        imports(m, seen)

for p in props:
    pid = p["id"]
    print("### %s %s\n" % (pid, p["title"]))
    cfg = propcfg.PROPS.get(pid)
    if not cfg:
        print("Not claimed: %s\n" % manifest_data.NOT_CLAIMED.get(pid, "?"))
        continue
    seen = set()
    imports("TT.Props." + pid, seen)
    models = sorted(m for m in seen if ".Model." in m or ".Gen." in m)
    lem = sorted(m for m in seen if ".Lemmas." in m)
    src = open(os.path.join(V, "lean", "TT", "Props", pid + ".lean")).read()
    thms = re.findall(r"^theorem\s+(\w+)", src, flags=re.M)
    nex = len(re.findall(r"^example", src, flags=re.M))
    print("* **Model**: %s%s" % (", ".join("`%s`" % m.replace("TT.", "") for m in models), "; lemmas " + ", ".join("`%s`" % m.replace("TT.", "") for m in lem) if lem else ""))
    print("* **Theorems** (`TT/Props/%s.lean`, %d, plus %d non-vacuity examples): %s" % (pid, len(thms), nex, ", ".join("`%s`" % t for t in thms)))
    print("* **What they say**: %s" % manifest_data.CLAIMED[pid]["text"])
    print("* **Tie to the code** (suite%s `%s`%s): %s" % ("s" if len(cfg["suites"]) > 1 else "", ", ".join(cfg["suites"] + ["%s (borrowed)" % b for b in sorted(cfg.get("borrowed_suites", {}))]), ", exhaustive" if cfg.get("exhaustive") else "", cfg["rule"]))
    print("* **Trusted / modelled, not verified**: " + "; ".join(cfg.get("trusted", [])))
    if cfg.get("assumptions"):
        print("* **Not asserted**: " + "; ".join(cfg["assumptions"]))
    print()
