#!/usr/bin/env python3
"""Writes MANIFEST.json from bin/manifest_data.py (kept in one place so it stays valid)."""
import json, os, sys
sys.path.insert(0, os.path.dirname(os.path.abspath(__file__)))
import manifest_data as md
V = os.path.dirname(os.path.dirname(os.path.abspath(__file__)))
checks = []
for pid in sorted(md.CLAIMED):
    c = md.CLAIMED[pid]
    checks.append(dict(
        property_id=pid,
        quick_cmd="bin/check %s --tier quick" % pid,
        thorough_cmd="bin/check %s --tier thorough" % pid,
        evidence_file="/verif/evidence/%s.json" % pid,
        replay_cmd_template="bin/check %s --replay {path}" % pid,
        engine="lean4-proof+correspondence",
        level_claimed=dict(category=c.get("category", "proof"), text=c["text"], design_ref=c.get("design_ref", "DESIGN.md section 5 " + pid)),
        level_note=c["note"],
        technique=c.get("technique", "Lean 4 theorem about an executable model + differential correspondence with the Rust code"),
    ))
m = dict(
    version=1,
    setup_cmd="bin/setup.sh",
    hooks=dict(
        guard="verif",
        enable="cargo feature `verif` of crate trusttunnel (harness/Cargo.toml: trusttunnel = { path = \"/repo/lib\", features = [\"verif\"] })",
        baseline_off_cmd="bin/baseline.sh",
        source_commits=md.HOOK_COMMITS,
        add_only=True,
    ),
    engines=[dict(name="lean4-proof+correspondence", path="/verif/bin/check",
                  serves_properties=sorted(md.CLAIMED),
                  kind_free_text="Lean 4.33 theorems (lean/TT/Props) about executable models (lean/TT/Model), tied to /repo by "
                                 "tools/extract.py (regenerated tables) and by a Rust differential harness (harness/) driving the real code "
                                 "through the feature-gated door lib/src/verif.rs and the native Lean driver tt_driver")],
    checks=checks,
    notes=md.NOTES,
    not_applicable=[dict(property_id=p, reason=r) for p, r in sorted(md.NOT_CLAIMED.items())],
)
json.dump(m, open(os.path.join(V, "MANIFEST.json"), "w"), indent=1)
print("MANIFEST.json: %d checks, %d not claimed" % (len(checks), len(md.NOT_CLAIMED)))
