HOOK_COMMITS = ["cbf034a"]
NOTES = ("Every check = Lean proofs (lake build + #print axioms audit) + correspondence run of the real code against the model. "
         "Properties not yet claimed are listed under not_applicable with reason 'not yet built' - that is a statement about this "
         "framework's progress, not about the technique.")
CLAIMED = {
    "C03": dict(
        text="Unbounded Lean theorems: the IPv4 classifier refuses exactly the listed IANA blocks for all 2^32 addresses (v4_exact), "
             "non-mapped unicast IPv6 is refused exactly for ::1, ::, fe80::/10, fc00::/7, 2001:db8::/32 (v6_unicast_exact), "
             "::ffff:a.b.c.d is classified as a.b.c.d (v6_mapped_exact), and connect() under the restrictive policy only ever "
             "connects to a global address that is the first admissible resolver answer (connect_only_global), never refuses a global "
             "one (global_*_never_refused). The model is tied to the code by evaluating the real classifier on all 2^32 IPv4 and all "
             "2^32 mapped addresses plus IPv6 hextet sweeps, and the real TcpForwarder::connect with scripted resolver answers.",
        note="Trusted: Lean kernel (+propext, Classical.choice, Quot.sound), the harness and door, std's Ipv4Addr/Ipv6Addr predicates as "
             "transcribed (tied by the exhaustive sweep), resolver answers are model inputs, kernel connect semantics. Textual authority "
             "spellings are parsed by the http/std crates (covered by C10's destination suite, not proved).",
    ),
}
NOT_CLAIMED = {p: "not yet built in this framework (planned, see DESIGN.md section 5)" for p in
               ["C01", "C02", "C04", "C05", "C06", "C07", "C08", "C09", "C10", "C11", "C12", "C13", "C14", "C15", "C16", "C17", "C18", "C19", "C20"]}
