import subprocess as _sp
HOOK_COMMITS = _sp.run("git -C /repo log --grep '^verif:' --format=%h --reverse", shell=True, capture_output=True, text=True).stdout.split()
NOTES = ("Every check = Lean proofs (lake build + #print axioms audit) + correspondence run of the real code against the model. "
         "Properties not yet claimed are listed under not_applicable with reason 'not yet built' - that is a statement about this "
         "framework's progress, not about the technique.")
CLAIMED = {
    "C03": dict(
        text="Unbounded Lean theorems: the IPv4 classifier refuses exactly the listed IANA blocks for all 2^32 addresses (v4_exact), "
             "non-mapped unicast IPv6 is refused exactly for ::1, ::, fe80::/10, fc00::/7, 2001:db8::/32 (v6_unicast_exact), "
             "::ffff:a.b.c.d is classified as a.b.c.d (v6_mapped_exact), and connect() under the restrictive policy only ever "
             "connects to a global address that is the first admissible resolver answer (connect_only_global), never refuses a global "
             "one (global_*_never_refused). The model is tied to the code by evaluating the real classifier on all 2^32 IPv4 and all "
             "2^32 mapped addresses plus IPv6 hextet sweeps, and the real TcpForwarder::connect with scripted resolver answers.",
        note="Trusted: Lean kernel (+propext, Classical.choice, Quot.sound), the harness and door, std's Ipv4Addr/Ipv6Addr predicates as "
             "transcribed (tied by the exhaustive sweep), resolver answers are model inputs, kernel connect semantics. Textual authority "
             "spellings are parsed by the http/std crates (covered by C10's destination suite, not proved).",
    ),
}
CLAIMED["C04"] = dict(
    text="Unbounded Lean theorems about the rule engine model: first match wins, default allow, fail closed without client random, "
         "prefix and bitwise mask semantics, malformed fields never match, an IPv4-mapped peer gets the verdict of its IPv4 address, "
         "and in the accept-path model a deny precedes the TLS answer / any QUIC codec. Tied to rules.rs / core.rs by ~100k differential "
         "evaluations per run through RulesEngine::evaluate and Core::evaluate_connection_rules, rules files through the real "
         "deserialiser, and live listeners (suite c04live: rule lists on the real TCP and QUIC accept paths, 127.0.0.1 and dual-stack, TCP "
         "ClientHellos with chosen randoms, QUIC handshakes whose random the client reads back; admitted / dropped compared with the model).",
    note="Trusted: Lean kernel, harness/door, ipnet's CIDR parser (parsed CIDRs are model inputs), TOML parsing (toml_edit), "
         "the accept-path step list is a transcription tied by the live suites (samples).",
)
CLAIMED["C11"] = dict(
    text="Unbounded Lean theorems: the serialised echo verifies under RFC 1071 for every payload up to 65535 bytes, including "
         "sums that carry twice (checksum_verifies; sum32_exact shows the u32 accumulation of the code never wraps there); the 7.3 "
         "decoder behind the re-queueing glue yields exactly the 23-byte records of the concatenated stream for every chunking "
         "(request_decode_segmentation) with all fields faithful (request_fields_faithful); deserialisation, IP-header skipping and "
         "responded_echo_request never panic; a quoting ICMPv4 error designates the request (v4_error_designates); 7.4 format; "
         "waiter-table invariants (only the requester is told, swept waiters are forgotten, table bounded by sends). Tied to the code by "
         "~100k differential cases per run, an independent RFC 1071 check of what the real encoder emits, and 60 (400) histories "
         "through the real IcmpForwarder on raw loopback sockets (kernel echo replies, injected replies and errors, timeouts, full "
         "queues) compared with the waiter-table model.",
    note="Trusted: Lean kernel, harness/door; the kernel computes ICMPv6 checksums; random echo data (ring) is an input. The waiter-table "
         "model is tied to icmp_forwarder.rs by the raw-socket history suite (IPv4, loopback; skipped with a note where raw sockets "
         "are not permitted); delivery theorems "
         "are per matching waiter (clients sharing identifier+sequence with prefix-equal data share a key: recorded limitation).",
)
CLAIMED["C06"] = dict(
    text="Unbounded Lean theorem decode_segmentation: for every list of chunks (every segmentation, empty chunks included) the model of "
         "the real decoder loop behind the re-queueing glue never panics and emits exactly what an independent PROTOCOL.md 6.3 reader "
         "emits from the concatenated stream (accepted records in order; too-short, too-large and non-UTF-8 records skipped in "
         "their entirety); spec_decode_encode / decode_encode: the client's encoding round-trips for all well-formed datagrams; "
         "inv_step / inv_buffer_bounded: bounded buffering; 6.4 format and framing (encode_out_length, encode_out_framed, encode_out_concat). Tied to http_udp_codec.rs + DatagramDecoder::read by "
         "thousands of segmentations per run (every 1-cut, byte-at-a-time, multi-cuts) of mixed valid/invalid record streams.",
    note="Trusted: Lean kernel, harness/door, UTF-8 validity as transcribed (Model/Utf8.lean). IPv6 addresses whose first 96 bits are "
         "zero are indistinguishable from IPv4 on the 6.3 wire and excluded from the round-trip theorem by an explicit predicate.",
)
CLAIMED["C12"] = dict(
    text="Unbounded Lean theorems: for every well-formed single-record ClientHello (any session id, suites, compression list and "
         "extensions that fit a record) and any trailing bytes the extractor returns exactly the 32-byte random (extract_exact); every "
         "strict prefix asks for more (prefix_needs_more); whatever the input, a reported value is bytes 11..43 of a ClientHello "
         "record starting the stream (found_is_the_field); for every arrival schedule the read loop reports the random "
         "(loop_segmentation_invariant), never another value (loop_absent_never_wrong), and prebuffer ++ unread = stream "
         "(loop_conserves), an answer once given is unchanged by later bytes (answer_stable), the prebuffer never exceeds 16 KiB (loop_prebuffer_bounded); the replay returns prebuffer then socket bytes for all read sizes (replay_transparent/complete). Tied to "
         "tls_listener.rs + tls-parser by ~10k extraction cases per run (the tie already corrected the model's record-length limit) and "
         "the real loop over loopback TCP; live (suite c12live): the random the real listener hands to its connection rules equals "
         "bytes 11..43 of segmented rustls ClientHellos on TCP and the client's own SSL_get_client_random on QUIC.",
    note="Trusted: Lean kernel, harness/door, tls-parser internals beyond the modelled walk, rustls on the replayed bytes, BoringSSL's "
         "client random on QUIC (compared between client and endpoint, not parsed). Records whose first handshake message is not a ClientHello are outside the model.",
)
CLAIMED["C15"] = dict(
    text="Unbounded Lean theorems about the SOCKS5 client model: every message the client can write is the image of an encoder that "
         "an independent RFC 1928/1929 (and extended-auth TLV) reader parses back to the same fields, or nothing is written (names > 255, "
         "user/password > 255); offered methods reflect the credentials; Basic credentials are split at the first colon; the dialogue "
         "proceeds only if the server selected an offered method and reported success; every non-zero reply fails the request with the "
         "documented mapping (03/04 unreachable, 06 timed out); every strict prefix of a reply is an I/O error; UDP header wrap/unwrap "
         "round-trips and never panics. Tied to socks5_client.rs / socks5_forwarder.rs by ~4k scripted dialogues per run over an "
         "in-memory pipe (bytes sent and outcome compared), the forwarder over loopback TCP, and a real UDP association. The reply reader takes exactly the reply (reply_v4_consumes_exactly, reply_v6_consumes_exactly); what an established connection then delivers is compared with the bytes the scripted proxy sent behind its reply (afterDialogue).",
    note="Trusted: Lean kernel, harness/door, base64 (decoded credentials are model inputs), tokio's read_exact/duplex, the kernel's UDP "
         "connect (an IPv6 relay address fails on the IPv4-bound socket: model follows the observed behaviour).",
)
CLAIMED["C05"] = dict(
    text="Unbounded Lean theorems about the demultiplexer model: an accepted connection is served by the entry its SNI designates "
         "(exact name of its own class under uniqueness, configured alternative SNI, <credentials>.<main host>) with that entry's "
         "channel and certificate identity; an SNI designating nothing is refused; the protocol is the best of offered, enabled and "
         "channel-permitted ones, HTTP/1.1 only for an empty offer; unknown ALPNs are ignored; TCP never yields HTTP/3; a failed reload "
         "keeps the old configuration and every selection in a history is answered from exactly one configuration. Tied to "
         "tls_demultiplexer.rs / core.rs by ~24k differential selections per run, reload histories, a concurrent reload/select suite, and "
         "live TCP and QUIC clients (suite c05live) that observe the certificate presented, the protocol negotiated and the channel that "
         "answers, before and after a hot reload; on QUIC (quic_always_h3, quic_designated_host) the designated entry is served over HTTP/3.",
    note="Trusted: Lean kernel, harness/door, rustls/BoringSSL certificate presentation, RwLock atomicity (exercised). On TCP an offer "
         "containing h3 next to http/1.1 selects h3 and is then refused by the acceptor rather than served over http/1.1 - consistent "
         "with 'HTTP/3 is never selected on TCP'; TCP clients do not offer h3.",
)
CLAIMED["C13"] = dict(
    text="Unbounded Lean theorems: every string survives the round trip through an escaped basic-string lexeme as the endpoint reads "
         "it (decode_encode_basic, all Unicode scalar values and control characters); literal and plain basic strings are taken "
         "verbatim (quotes, backslashes, surrounding spaces preserved); empty or non-string values are refused; the registry accepts a "
         "token iff it is base64(user:password) of a listed pair and base64 is injective, so nothing else is accepted; Settings "
         "validation refuses exactly the documented start-up situations. Tied to settings.rs / registry_based.rs / client_config.rs / "
         "the setup wizard by ~2.5k differential cases per run through the real deserialiser, authenticator, exporter and Core::new. The keys the settings deserialiser accepts for every field (names, renames, aliases) are a regenerated table: no key is accepted for two fields and every key names its field (keys_unambiguous, keys_name_their_fields); every integer and boolean key is set in a file under each spelling and the read-back settings compared.",
    note="Trusted: Lean kernel, harness/door, toml_edit (multi-line strings, its own encoder used by the wizard and the exporter - "
         "their round trips are run, not proved), certificate loading (rustls-pki-types) for the TLS-host refusals.",
)
CLAIMED["C02"] = dict(
    text="Unbounded Lean theorems about the copy-loop machine, for every sequence of endpoint answers (all chunkings, all partial-write "
         "quotas incl. 0, all error positions, all timer cancellations/restarts): delivered ++ held = read (no loss, duplication, "
         "reordering), delivered is always a prefix of what was read, credit (consume) and metrics never exceed and at each loop head "
         "equal the bytes forwarded, EOF is passed on only when drained and Finished means everything was delivered and credited, "
         "restarts lose nothing, nothing is issued after a failure; duplex: Ok iff both directions finished, an error stops both. Tied "
         "to pipe.rs by replaying the call log of the real DuplexPipe (scripted endpoints, paused clock) through the machine, which "
         "must predict every call, plus a direct byte/credit/order oracle on the log; and by live CONNECT tunnels with patterned data "
         "through the real HTTP/1.1, HTTP/2 (suite c02live) and HTTP/3 (suite c02h3, real QUIC listener) codecs and the real forwarder; the "
         "HTTP/3 codec's stream table has its own model (TT.H3Streams: the two directions of a stream end independently, streams do not "
         "disturb each other) replayed against the operations the real codecs performed during those runs.",
    note="Trusted: Lean kernel, harness/door (scripted Source/Sink implement the crate-private traits inside lib/src/verif.rs), "
         "cancel-safety of real sources, h2/quiche flow-control internals (consume(n) -> WINDOW_UPDATE n), kernel TCP. Cancellation of a "
         "pending flush() is not modelled (scripts use instantaneous flushes).",
)
CLAIMED["C14"] = dict(
    text="Unbounded Lean theorems about the idle-timer model (per-direction last activity, per-iteration timers, both-idle test): "
         "idle_not_early - a tunnel closed at c had no transfer in [c - T, c], so traffic at least every T (even exactly at the deadline) "
         "never closes it; idle_bound_2T - after the last transfer at a the tunnel is closed at some c with a + T < c <= a + 2T. Tied to "
         "pipe.rs by comparing, for thousands of scripted activity patterns on delays {0, T/4, .., T-1, T, T+1, .., 2T+1, 3T}, the virtual "
         "time at which the real exchange() returns TimedOut with the model fed with the logged transfer times. Establishment timeout: "
         "establishment_timeout_reported / _in_time_connected / _destination_independent about the request-path model, tied by suite c14est "
         "(scripted connector completing before / at / after the timeout or never, literal and host-name destinations, HTTP/1.1 and "
         "HTTP/2; response and drop of the attempt). TLS-handshake timeout and the reverse-proxy session timer: observed on the live listener "
         "(suite c14live, wall clock). QUIC connection timers: closest_not_after_any_deadline, tick_recomputes, tick_handles_expired, "
         "wake_up_makes_progress, one_deadline_per_connection, arm_replaces, removed_has_no_deadline, tick_without_rearm_drops_expired about the multiplexer's deadline bookkeeping (TT/Model/QuicTimers.lean), tied by replaying the operations "
         "the real multiplexer performed under live HTTP/3 sessions (suite c14qt).",
    note="Trusted: Lean kernel, harness/door, tokio's paused clock and timer wheel; with a real clock timers fire late by scheduling "
         "latency (not modelled). Release of sockets/tasks on timeout = drop of the futures (Rust ownership), observed only as "
         "'no call after the exchange ended' in the logs.",
)
CLAIMED["C08"] = dict(
    text="Unbounded Lean theorems about the request-accumulation loop over an abstract prefix-consistent head parser: for every split "
         "of head ++ payload into reads the same head is recognised and the bytes handed to the upload side are exactly the payload "
         "(head_segmentation_invariant, payload_exact); a strict prefix of a head makes the codec wait, never err or answer early; every "
         "non-returning iteration awaits the transport (no_spin); the buffered head never exceeds the limit by more than one read and an "
         "incomplete head at the limit is rejected; encode_response output is parsed back line by line. Tied to http1_codec.rs by ~2.4k "
         "real sessions per run (head length and upload payload compared with the model, request fields and response checked by an "
         "oracle, watchdog for busy loops). The relaying phase has a model of its own (TT/Model/H1Relay.lean, one event per loop iteration): payload goes both ways until the first close, which ends the call at once - gracefully for the client's end of stream and the relay's orderly end, with an error when the relay side goes away without one (relaying_goes_on, relayed_until_close, session_ends_with_either_side, abort_is_not_graceful); compared with 200 (1500) scripted sessions per run.",
    note="Trusted: Lean kernel, harness/door, httparse (PrefixConsistent is a hypothesis, exercised), tokio channels/select. MAX_RAW_HEADERS_SIZE "
         "is re-extracted from the source into TT/Gen/Consts.lean on every run.",
)
CLAIMED["C09"] = dict(
    text="One unbounded Lean theorem per modelled parser of untrusted bytes, in models whose primitives return `panic` exactly where "
         "the Rust ones panic: the UDP stream decoder (no panic for every chunking, bounded buffer), the ICMP request decoder, IPv4/IPv6 "
         "header skipping incl. extension-header chains, ICMP v4/v6 deserialisation and request extraction, the ClientHello prebuffer "
         "(capped at 16 KiB), HTTP/1.1 head accumulation (bounded, one read per iteration), SOCKS5 replies (truncation = error) and "
         "relayed datagrams, rule matching on malformed fields. Tied to the code by an exhaustive sweep of short strings over a reduced "
         "alphabet appended to valid prefixes (~420k cases per quick run, compared with the models and run under catch_unwind).",
    note="Trusted: Lean kernel, harness/door; third-party parsers (httparse, tls-parser, toml_edit, ipnet, hex, base64) are only "
         "exercised as black boxes; origin HTTP responses are C17's subject; the QUIC listener's handling of malformed datagrams and the TCP listener's of garbage first bytes are exercised live (suite c09live: survival only, no model). 'Loop without consuming input' is settled by structural "
         "recursion / explicit fuel lemmas in the models (C06 chunk_ok, C08 no_spin, C11 skipIpv6Ext).",
)
CLAIMED["C01"] = dict(
    text="Unbounded Lean theorems about the gate and dispatch model: with an authenticator configured a request passes only with an "
         "accepted Basic token or (no header and accepted SNI credentials); the registry accepts exactly base64(user:password) of listed "
         "pairs (injective, via C13) and never an SNI source; every rejected request yields exactly 407 + Basic challenge and no egress; "
         "every egress and every 200 (health check included) belongs to a passed request; each request of a session is decided on its "
         "own. Tied to tunnel.rs / http_codec.rs / core.rs by ~1.5k real HTTP/1.1 and multiplexed HTTP/2 sessions per run over in-memory "
         "transports with a scripted forwarder recording every outbound call.",
    note="Trusted: Lean kernel, harness/door (forwarder injection hook in Core::make_forwarder), httparse/h2/http header handling, "
         "quiche. HTTP/3 sessions go through the real QUIC listener (suite c01h3, a sample under the wall clock) and answer the same model.",
)
CLAIMED["C10"] = dict(
    text="Unbounded Lean theorems: every CONNECT gets exactly one final response; it is 200, 407+challenge or 502 with 300/301/302 or "
         "310/311 + host name, per outcome of the connection attempt (tables regenerated from the match arms of http_downstream.rs on "
         "every run, so a changed arm re-checks the theorems); reserved authorities are never connected to and other methods on them get "
         "502; look-alike names are ordinary hosts; CONNECT without a port is refused 502/300 with no attempt; completion within the "
         "establishment timeout gives 200, later gives 502/302. Tied to the code by the same real-session suite as C01. The OS errors of the outbound connect are classified as the regenerated lists say: no route 301, timed out 302, anything else 300 (os_error_codes).",
    note="Trusted: Lean kernel, harness/door, tools/extract.py (regex translation of the two match tables), http crate authority parsing "
         "(parsed view is a model input); HTTP/3 is driven live (suite c10h3) with immediate connect outcomes only.",
)
CLAIMED["C07"] = dict(
    text="Unbounded Lean theorems about the UDP multiplexer model (the pipe's flow table coupled to the forwarder's socket table, in a "
         "world of servers that answer to the socket a flow last spoke from), for every history of client datagrams, replies, clock "
         "advances and close over any flow set and any mix of live, port-53, dead and unconnectable destinations: a datagram reaches "
         "exactly its destination; a reply is delivered labelled with the flow of the socket it arrived on, which is the flow the server "
         "answered; both tables hold the same flows once each, so sockets = gauge = live flows; a flow untouched for more than timeout + "
         "timeout/4 is gone from both tables wherever the ticks fell, and none is released early; a port-53 flow is released by the reply "
         "that answers its last query; a later datagram starts a fresh socket; operations on one flow leave every other flow's entry and "
         "socket untouched; only the client going away ends the multiplexer. Tied to the code by ~160 (1500) histories per run through "
         "the real udp_pipe::DuplexPipe + direct forwarder over loopback sockets under a paused clock, observed after every operation. The receive buffers of both multiplexers are read from the source by the translator; every IPv4 datagram fits them (direct_reply_received_whole, socks_relay_datagram_received_whole).",
    note="Trusted: Lean kernel, harness/door, Linux loopback UDP and tokio timer semantics as listed in the evidence. Operations are atomic "
         "in the model; a tick landing inside one datagram's processing is a runtime interleaving the suite cannot exhibit (partial there). "
         "The SOCKS5 multiplexer has its own model (TT/Model/UdpSocks.lean: one association per client source, released with its last "
         "flow), theorems and suite (c07socks, a SOCKS5 proxy of the harness).",
)
CLAIMED["C16"] = dict(
    text="Unbounded Lean theorems about a model that keeps the live objects (sessions holding a session guard, tunnels holding a TCP "
         "socket guard while connecting or relaying, the UDP sockets of every multiplexer - the C07 model embedded) and, separately, "
         "the five metric cells, touched only where the code creates or drops a guard or calls update_metrics: after every history "
         "of session opens/closes, connects (established, refused, hanging until the timeout), client end / reset, origin close, data, "
         "UDP datagrams/replies/expiry and clock advances the gauges equal the object counts and are never negative; with all clients "
         "gone sessions and UDP sockets read zero at once and TCP sockets after the timeouts; refused and timed-out connects are "
         "balanced; byte counters only grow and grow by exactly the bytes relayed on relaying tunnels; METRICS.md (re-read every run) "
         "documents exactly these five series, types and label names. Tied to the code by ~140 (1200) histories per run through real "
         "HTTP/1.1, HTTP/2 and (live) HTTP/3 tunnel sessions with the real forwarder against loopback TCP/UDP servers, reading Metrics::collect "
         "after every event and the real metrics listener (GET /metrics, /health-check, another path) over TCP.",
    note="Trusted: Lean kernel, harness/door, prometheus text encoding, loopback socket behaviour. The byte-direction-to-series mapping "
         "is calibrated per run, not fixed (code and METRICS.md disagree on it, see DESIGN.md). TCP idle expiry only with generous "
         "advances (C14 covers its timing). HTTP/3 sessions are in the model (Proto.h3, own cells) and tied by histories on the live "
         "QUIC listener (suite c16h3, wall clock, no clock advances); ICMP multiplexer traffic where raw sockets are permitted; the SOCKS5 "
         "TCP path and the non-tunnel channels are not driven.",
)
CLAIMED["C17"] = dict(
    text="Unbounded Lean theorems about the forwarded-response sink under the pipe's write / wait / write-again loop, with a client-side "
         "sink that takes a scripted number of bytes per write: for EVERY segmentation of the origin's byte stream and EVERY acceptance "
         "script (zeros included) the client observes exactly what the whole stream in one segment through an unthrottled sink gives "
         "(interim responses, head, body bytes, where end of stream falls) - malformed streams included; that single run delivers, for "
         "any chunk sizes / extensions, exactly the concatenated chunk payloads then end of stream (HTTP/2, HTTP/3), exactly the "
         "Content-Length body ended when complete, a close-delimited body ended when the origin closes, nothing for HEAD / 204 / 304; a "
         "1xx head in front changes nothing of what follows and is passed to HTTP/1.x clients only; hop-by-hop headers never reach the "
         "client, every end-to-end header does, in order; the forwarded request keeps method, path, headers minus proxy-*, Host = URI "
         "authority, and a Content-Length body is forwarded up to exactly that length. Tied to http_forwarded_stream.rs by ~2.5k (20k) "
         "exchanges per run through the real into_forwarded source/sink under the real DuplexPipe, mutated streams for panics, and live "
         "non-CONNECT requests through real HTTP/1.1 and HTTP/2 sessions to a loopback origin. The flow-control credit of the request body under every acceptance schedule of the origin is exactly what was accepted beyond the serialised head (request_credit_exact).",
    note="Trusted: Lean kernel, harness/door, httparse as re-written for the generated grammar, http crate URI parsing, the real codecs "
         "behind the responder only in the live runs (HTTP/1.1, HTTP/2 in process; HTTP/3 through the real QUIC listener, suite c17h3). "
         "One open known finding (HTTP/2-3 request body without "
         "Content-Length is forwarded unframed), printed as KNOWN-FINDING on every run.",
)
CLAIMED["C19"] = dict(
    text="Unbounded Lean theorems about the shutdown model, for every operation history: a participant registered before a submission "
         "gets Ok from its next (or pending) wait whatever else is interleaved (repeated submits, other participants, completion polls); "
         "nobody is notified without a submission; completion answers done iff no guard is outstanding and stays enabled; a registration "
         "after completion started gets no guard. Tied to shutdown.rs by executing every operation sequence up to length 6 (7) over 3 "
         "participants plus random longer histories on the real Shutdown with hand-polled futures, and by live HTTP/1.1 / HTTP/2 sessions "
         "that must wind down on submit before completion() returns, and by the live listener with HTTP/3 sessions (suite c19live): every "
         "QUIC connection must be closed by the endpoint after the submission and completion() must return.",
    note="Trusted: Lean kernel, harness/door, tokio broadcast/mpsc semantics (the model's reading of them is what the exhaustive "
         "sequences compare). Process exit and lock-across-await effects in main.rs are outside the model.",
)
CLAIMED["C18"] = dict(
    text="Unbounded Lean theorems about the service-channel model: demultiplexer precedence; GET /<N>mb.bin (N in plain decimal) is "
         "accepted iff 1 <= N <= 100 and announces exactly N * 2^20 bytes; for every client acceptance script bytes handed over + bytes "
         "owed = announced and a script that keeps accepting drains it; POST /upload.html with Content-Length L is accepted iff "
         "1 <= L <= 120 * 2^20 and is answered after L bytes or end of stream; everything else is 400; the reverse-proxy request keeps "
         "path and headers and carries X-Original-Protocol. Tied to the code by ~2.9k differential cases per run (demux table, real "
         "HTTP/1.1 and HTTP/2 speedtest/ping sessions counted under a paused clock, a real loopback origin for the reverse proxy under "
         "both egress policies, with an authenticator configured and no credentials sent).",
    note="Trusted: Lean kernel, harness/door, Rust's integer parser as modelled, http crate URI handling. HTTP/3 is driven live (suite c18h3). The reverse "
         "proxy's fixed destination is a code-reading fact exercised by the run, not a theorem about client influence.",
)
CLAIMED["C20"] = dict(
    category="proof",
    text="Two machine-checked parts and one search. Proved for all inputs: the printed form of a scrubbed request does not depend on "
         "the values of Authorization / Proxy-Authorization / Cookie (non-interference), other headers are untouched, the scrubbed SNI "
         "and the debug form of the connection meta do not depend on the credentials label. Decided by the kernel on every run: none "
         "of the ~310 logging / error-string sites re-extracted from lib/src prints a secret-bearing expression outside a scrubber "
         "(all_log_sites_clean over the regenerated table; an unscrubbed site breaks the theorem and is named). Searched: ~435 trace-"
         "level scenarios over every channel and error path with 13 canaries planted in credentials, cookies, SNI labels and the "
         "configured password. This is the property where proof covers least: absence of leaks in the whole program rests on the "
         "extractor's taint rules and the canary search. The filter of the endpoint's loggers is modelled (the TLS library's trace records, which dump the ClientHello, are never written: tls_library_traces_never_logged) and compared with what both real loggers write.",
    note="Trusted: Lean kernel, tools/extract.py taint rules and per-file exceptions, harness/door, http crate Debug output. The repair of "
         "the leaks found (raw requests in six modules, credentials in TcpConnectionMeta and ConnectionMeta debug output) is in /repo.",
    technique="Lean 4 non-interference theorems for the scrubbers + kernel-decided generated log-site table + dynamic canary search",
)
NOT_CLAIMED = {}
