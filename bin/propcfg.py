"""Per-property configuration of bin/check: harness suites, property oracle (judge) for
disagreements, evidence texts."""
import re


def parse_intervals(s):
    if s == "-" or not s:
        return []
    out = []
    for part in s.split(","):
        a, b = part.split("-")
        out.append((int(a), int(b)))
    return out


def first_diff(a, b):
    """smallest n contained in exactly one of two interval lists"""
    pts = sorted({x for (lo, hi) in a + b for x in (lo, hi, hi + 1)})

    def inside(l, n):
        return any(lo <= n <= hi for lo, hi in l)

    for n in pts:
        if inside(a, n) != inside(b, n):
            return n
    return None


def judge_c03(d):
    """Is the implementation's answer a violation of C03 (not merely different from the model)?"""
    q, impl, model = d["query"], d["impl"], d["model"]
    if q.startswith("c10 real "):
        # how the refusal is reported to the client (suite c10real)
        return judge_c10(d)
    t = q.split()
    try:
        if t[1] in ("v4table", "v6mappedtable"):
            # the property fixes the blocked set of IPv4 (and IPv4-mapped) addresses completely
            n = first_diff(parse_intervals(impl), parse_intervals(model))
            if n is not None:
                kind = "IPv4" if t[1] == "v4table" else "IPv4-mapped ::ffff:"
                return "%s address %d.%d.%d.%d is classified %s by the implementation" % (
                    kind, n >> 24, (n >> 16) & 255, (n >> 8) & 255, n & 255,
                    "non-global (refused)" if any(lo <= n <= hi for lo, hi in parse_intervals(impl)) else "global (connectable)")
        if t[1] in ("v6sweep0", "v6sweep1"):
            a, b = parse_intervals(impl), parse_intervals(model)
            pts = sorted({x for (lo, hi) in a + b for x in (lo, hi, hi + 1) if x < 65536})
            for n in pts:
                ia = any(lo <= n <= hi for lo, hi in a)
                ib = any(lo <= n <= hi for lo, hi in b)
                if ia != ib:
                    rest = [int(x) for x in t[2:]]
                    s0 = n if t[1] == "v6sweep0" else rest[0]
                    if (s0 & 0xff00) == 0xff00:
                        continue  # multicast: outside the property (unicast destinations)
                    segs = [n] + rest if t[1] == "v6sweep0" else [rest[0], n] + rest[1:]
                    return "IPv6 unicast address %s classified %s by the implementation" % (
                        ":".join("%x" % s for s in segs), "non-global" if ia else "global")
            return None
        if t[1] == "connect":
            allow = t[2] == "1"
            if impl.startswith("connect") and model in ("loopback", "nonroutable") and not allow:
                return "connection attempt to a destination the policy must refuse: " + impl
            if impl.startswith("connect") and not allow:
                # whatever the model would have done: is the address connected to one the policy refuses?
                cls = ask_driver(["c03 connect 0 1 addr " + impl[len("connect "):]])[0].strip()
                if cls in ("loopback", "nonroutable"):
                    return ("connection attempt to %s, an address the policy classifies %s, with private-network connections "
                            "not allowed (the model answers %s)" % (impl, cls, model))
            if model.startswith("connect") and impl in ("loopback", "nonroutable"):
                return "a routable destination (or any destination with the policy off) was refused: model " + model
            if impl.startswith("connect") and model.startswith("connect") and impl != model and not allow:
                return "connected to %s, not to the first suitable answer %s" % (impl, model)
            if impl in ("loopback", "nonroutable") and model not in ("loopback", "nonroutable"):
                return ("the request was refused by the private-network policy (%s) although no resolver answer is an address the "
                        "policy refuses (skipped answers are global IPv6 with IPv6 unavailable): the model gives %s" % (impl, model))
            if impl.startswith("attempts="):
                return "number of connection attempts != 1: " + impl
    except Exception as e:  # malformed answer: undecided
        return None
    return None


import os, subprocess

_DRIVER = os.path.join(os.path.dirname(os.path.dirname(os.path.abspath(__file__))), "lean", ".lake", "build", "bin", "tt_driver")


def ask_driver(queries):
    p = subprocess.run([_DRIVER], input=("\n".join(queries) + "\n").encode(), stdout=subprocess.PIPE, timeout=600)
    return p.stdout.decode().split("\n")[:len(queries)]


def unhex(h):
    return b"" if h == "-" else bytes.fromhex(h)


def judge_c06(d):
    q, impl, model = d["query"], d["impl"], d["model"]
    t = q.split()
    if impl == "panic":
        return "decoder panicked on client input"
    if t[1] == "decode":
        stream = b"".join(unhex(x) for x in t[2:])
        spec = ask_driver(["c06 spec " + (stream.hex() or "-")])[0]
        if impl != spec:
            return "decoded datagrams differ from the PROTOCOL.md 6.3 reading of the concatenated stream (independent decoder says %s)" % spec[:300]
        return None
    if t[1] == "encode":
        return "6.4 encoding differs from the prescribed format (expected %s)" % model[:120]
    return None


def rfc1071_ok(pkt):
    s = 0
    for i in range(0, len(pkt), 2):
        s += (pkt[i] << 8) | (pkt[i + 1] if i + 1 < len(pkt) else 0)
    while s >> 16:
        s = (s >> 16) + (s & 0xffff)
    return s == 0xffff


def judge_c11(d):
    q, impl, model = d["query"], d["impl"], d["model"]
    t = q.split()
    if impl == "panic":
        return "parser panicked on network/client input"
    if t[1] == "checksum":
        data = unhex(t[2])
        if len(data) % 2 == 1:
            data += b"\0"
        if not rfc1071_ok(data + int(impl).to_bytes(2, "big")):
            return "checksum %s does not verify for this byte string" % impl
        return None
    if t[1] in ("serialize", "serializehdr"):
        return "serialised echo differs from type|0|checksum|id|seq|data with a verifying checksum (expected %s)" % model[:40]
    if t[1] == "decode":
        return "decoded requests differ from the 7.3 records of the concatenated stream (expected %s)" % model[:200]
    if t[1] in ("responded", "encreply"):
        return "reply/error matching or 7.4 encoding differs: expected %s" % model[:200]
    if t[1] == "wire":
        rec = unhex(t[2])
        return ("7.3 record id=%d dest=%s seq=%d ttl=%d size=%d: the echo request seen on the wire by an independent raw socket is [%s], "
                "the record asks for [%s] (TTL / hop limit, type, identifier, sequence number, data length)"
                % (int.from_bytes(rec[0:2], "big"), rec[2:18].hex(), int.from_bytes(rec[18:20], "big"), rec[20],
                   int.from_bytes(rec[21:23], "big"), impl, model))
    if t[1] == "table":
        ops = q.split("ops=")[1].split(";")
        io, mo = impl.split(" | "), model.split(" | ")
        for k, (a, b) in enumerate(zip(io, mo)):
            if a != b:
                short = [o if len(o) < 40 else o[:36] + ".." for o in ops[:k + 1]]
                return ("live IcmpForwarder, request timeout 3000 ms, queue capacity 3, history %s: client %s was handed [%s] "
                        "(type/code/id/seq), the waiter table (requester only, not after the timeout, not unrelated packets) gives [%s]"
                        % (";".join(short), ops[k].split(".")[-1], a, b))
        return "live IcmpForwarder history: %d observations, model %d" % (len(io), len(mo))
    return None


def judge_c04(d):
    """independent reading of the property: first matching rule, fail closed, default allow;
    undecided (None) when the verdict hinges on behaviour the property does not fix
    (mask and prefix of unequal length)"""
    q, impl = d["query"], d["impl"]
    t = q.split()
    try:
        conn = t[2] == "1"
        i = 3
        if t[i] == "none":
            ip = None; i += 1
        else:
            fam, n = t[i], int(t[i + 1]); i += 2
            ip = (fam, n)
            if conn and fam == "6" and (n >> 32) == 0xffff:
                ip = ("4", n & 0xffffffff)
        rnd = None if t[i] == "none" else unhex(t[i]); i += 1
        n_rules = int(t[i]); i += 1
        rules = []
        for _ in range(n_rules):
            if t[i] in ("a", "i"):
                c = t[i]; i += 1
            else:
                c = (t[i], int(t[i + 1]), int(t[i + 2])); i += 3
            pat = None if t[i] == "-" else bytes.fromhex(t[i][1:]).decode("latin1"); i += 1
            act = t[i]; i += 1
            rules.append((c, pat, act))
        if ip is None:
            want = "allow"
        elif rnd is None and any(p is not None for _, p, _ in rules):
            want = "deny"
        else:
            want = "allow"
            for c, pat, act in rules:
                m = True
                if c == "i":
                    m = False
                elif c != "a":
                    fam, a, ln = c
                    bits = 32 if fam == "n4" else 128
                    m = (fam[1] == ip[0]) and (a >> (bits - ln)) == (ip[1] >> (bits - ln))
                if m and pat is not None:
                    def dec(x):
                        try:
                            if len(x) % 2: return None
                            return bytes.fromhex(x) if all(ch in "0123456789abcdefABCDEF" for ch in x) else None
                        except ValueError:
                            return None
                    if "/" in pat:
                        pre, mask = pat.split("/", 1)
                        pb, mb = dec(pre), dec(mask)
                        if pb is None or mb is None:
                            m = False
                        elif len(pb) != len(mb) or len(pb) > len(rnd):
                            return None  # not fixed by the property
                        else:
                            m = len(pb) > 0 and all((rnd[k] & mb[k]) == (pb[k] & mb[k]) for k in range(len(pb)))
                    else:
                        pb = dec(pat)
                        m = pb is not None and rnd[:len(pb)] == pb
                if m:
                    want = "allow" if act == "a" else "deny"
                    break
        if impl != want:
            return "verdict %s, but the first-match / fail-closed / default-allow reading of the rules gives %s" % (impl, want)
    except Exception as e:
        return None
    return None


def judge_c12(d):
    q, impl, model = d["query"], d["impl"], d["model"]
    t = q.split()
    if impl == "panic":
        return "extract_client_random panicked on client bytes"
    data = unhex(t[2])
    if t[1] == "extract" and impl.startswith("found"):
        r = impl.split()[1]
        if len(data) < 43 or data[11:43].hex() != r or data[0] != 22 or data[5] != 1:
            return "reported client random %s is not the random field of a ClientHello starting the stream" % r
    if t[1] == "loop" and impl.startswith("some"):
        r = impl.split()[1]
        if data[11:43].hex() != r:
            return "read loop reported %s, the ClientHello's random is %s" % (r, data[11:43].hex())
    if model.startswith("found") or model.startswith("some"):
        if t[1] == "loop" or len(data) < 15000:
            return "a complete single-record ClientHello was not recognised (answer %s, expected %s)" % (impl, model[:80])
    return None


def judge_c15(d):
    q, impl, model = d["query"], d["impl"], d["model"]
    t = q.split()
    if "panic" in impl:
        return "SOCKS5 code panicked"
    if t[1] == "fwd" and " | connected" in impl and " | connected" in model:
        di, dm = impl.rsplit(" ", 1)[1], model.rsplit(" ", 1)[1]
        if di != dm:
            return ("a connection through the SOCKS5 forwarder whose proxy answered the CONNECT with success then delivers %r; behind its reply "
                    "the proxy sent %r (the reply reader must take exactly the reply: nothing of it is payload, nothing behind it is lost)" % (
                        (b"" if di == "-" else unhex(di))[:80], (b"" if dm == "-" else unhex(dm))[:80]))
    if t[1] == "dialogue":
        try:
            ib, io = [x.strip() for x in impl.split("|")]
            mb, mo = [x.strip() for x in model.split("|")]
        except ValueError:
            return None
        if ib != mb:
            return "bytes sent to the SOCKS5 server differ from the well-formed RFC 1928/1929 messages (expected %s...)" % mb[:80]
        succ = lambda o: o == "tcp" or o.startswith("udp")
        if succ(io) != succ(mo):
            return "dialogue outcome %s, expected %s (proceeds iff offered method selected and success reported)" % (io, mo)
        if io.startswith("failure") != mo.startswith("failure") or (io.startswith("failure") and io != mo):
            return "failure reply reported as %s, expected %s" % (io, mo)
        return None
    if t[1] == "fwd":
        try:
            ib, io = [x.strip() for x in impl.split("|")]
            mb, mo = [x.strip() for x in model.split("|")]
        except ValueError:
            return None
        if ib != mb:
            return ("the upstream SOCKS5 server received %s from the forwarder; the request for this destination and these credentials is %s "
                    "(destinations keep their address type and port)" % (ib[:160], mb[:160]))
        if (io == "connected") != (mo == "connected") or mo in ("hostunreachable", "timeout") and io != mo:
            return "forwarder mapped the SOCKS5 outcome to %s, expected %s" % (io, mo)
        return None
    if t[1] in ("udpwrap", "udpunwrap"):
        return "RFC 1928 section 7 header handling differs: got %s expected %s" % (impl[:80], model[:80])
    return None


def judge_c05(d):
    q, impl, model = d["query"], d["impl"], d["model"]
    t = q.split()
    if t[1] == "select":
        im, mo = impl.split(), model.split()
        if (impl == "refused") != (model == "refused"):
            return "connection %s, but the designated entry / common protocol rule gives %s" % (impl, model)
        if impl != "refused" and im != mo:
            what = []
            if im[0] != mo[0]: what.append("protocol %s instead of %s" % (im[0], mo[0]))
            if im[1] != mo[1]: what.append("channel %s instead of %s" % (im[1], mo[1]))
            if im[2] != mo[2]: what.append("certificate of %s instead of %s" % (im[2], mo[2]))
            if im[3] != mo[3]: what.append("SNI credentials %s instead of %s" % (im[3], mo[3]))
            return "; ".join(what) or "meta differs"
        return None
    if t[1] in ("tcplive", "quiclive"):
        how = "TLS over TCP" if t[1] == "tcplive" else "QUIC"
        sni = t[-1]
        if t[1] == "quiclive":
            # the property fixes QUIC connections only through the entry the SNI designates
            sel = ask_driver(["c05 select " + " ".join(t[2:-1]) + " 1 3 " + sni])[0].strip() if sni != "-" else "refused"
            if sel == "refused":
                return None
        im, mo = impl.split(), model.split()
        if (impl == "refused") != (model == "refused"):
            return "live %s connection with SNI %s was %s; the designated entry / common protocol rule gives %s" % (
                how, sni, "refused" if impl == "refused" else "accepted (" + impl + ")", model)
        what = []
        if im[0] != mo[0]: what.append("protocol %s negotiated instead of %s" % (im[0], mo[0]))
        if im[1] != mo[1]: what.append("the probe request was answered by the %s channel instead of %s" % (im[1], mo[1]))
        if im[2] != mo[2]: what.append("the certificate presented is that of %s instead of %s" % (im[2], mo[2]))
        return "live %s connection with SNI %s: %s" % (how, sni, "; ".join(what) or "observation differs")
    if t[1] == "runcert":
        ia, mo = impl.split(";"), model.split(";")
        for k, (a, b) in enumerate(zip(ia, mo)):
            if a != b:
                return ("endpoint binary, SIGHUP reload history: TLS connection number %d of the history was %s; the configuration installed by "
                        "the last successful reload gives %s (a failed reload must leave the previous configuration in force, a successful "
                        "one must switch completely)" % (k + 1, "refused" if a == "refused" else "served with the certificate of " + a,
                                                         "a refusal" if b == "refused" else "the certificate of " + b))
        return None
    if t[1] == "run":
        return "a selection in a reload history was not answered from the configuration installed by the last successful reload: got %s expected %s" % (impl[:200], model[:200])
    return None


def judge_c13(d):
    q, impl, model = d["query"], d["impl"], d["model"]
    t = q.split()
    if t[1] == "client":
        return "credentials read from the file differ from the TOML string values: got %s, TOML says %s" % (impl[:120], model[:120])
    if t[1] == "auth":
        return "registry verdict %s, expected %s (accepted iff token = base64(user:password) of a listed pair)" % (impl, model)
    if t[1] == "validate":
        return "start-up verdict %s, expected %s" % (impl, model)
    return None


def _pipe_log(q):
    t = q.split()
    T = int(t[2]); n = int(t[3])
    ent = [(int(t[4 + 4 * i]), t[5 + 4 * i], t[6 + 4 * i], t[7 + 4 * i]) for i in range(n)]
    return T, ent


def judge_c02(d):
    q, impl, model = d["query"], d["impl"], d["model"]
    if q.startswith("c08 "):
        # an HTTP/1.1 tunnel's first payload bytes may share a segment with the request head (suite c08 runs here too)
        return judge_c08(d)
    if q.startswith("c15 "):
        # the tunnel's destination leg behind a SOCKS5 proxy (suite c15 runs here too): only what the connection then delivers
        if q.startswith("c15 fwd ") and " | connected" in impl and " | connected" in model:
            di, dm = impl.rsplit(" ", 1)[1], model.rsplit(" ", 1)[1]
            if di != dm:
                return ("a tunnel through the SOCKS5 forwarder, whose proxy answered the CONNECT with success: the download direction starts with "
                        "%r, the destination sent %r (bytes of the proxy's reply handed on as payload, or payload taken for the reply)" % (
                            (b"" if di == "-" else unhex(di))[:80], (b"" if dm == "-" else unhex(dm))[:80]))
        return None
    if q.startswith("c02 h3streams "):
        ops = q.split()[3].split(";")
        for k, (a, b) in enumerate(zip(impl.split(" | "), model.split(" | "))):
            if a != b:
                op = ops[k] if k < len(ops) else "?"
                what = {"fin": "the client ended its sending side", "close": "the client reset the stream", "sd": "a half of the stream was shut down",
                        "req": "a request arrived", "err": "a message for an unknown stream was handled"}.get(op.split(".")[0], op)
                return ("HTTP/3 stream table after %s (%s): the codec holds [%s] (stream:read-shut write-shut), the two directions of a tunnel "
                        "end independently only if it holds [%s]" % (op, what, a, b))
        return None
    if q.split()[1] == "hung":
        return "exchange() never returned although all endpoints were silent (tunnel stalls instead of being torn down)"
    if impl == "ok" and model != "ok":
        return "exchange() returned Ok although not both directions ended cleanly (model: %s)" % model[:200]
    if model == "ok" and impl != "ok":
        return "both directions ended cleanly but exchange() returned %s" % impl
    if impl.startswith("timedout") and (model == "running" or (model.startswith("timedout") and
                                                               int(model.split()[1]) > int(impl.split()[1]))):
        # bytes were still being handed over: the relay stops in the middle of the stream
        return ("the tunnel was torn down by the idle timer (%s ms) while a chunk was still being delivered / the peer was not idle for the "
                "timeout (model: %s): the relayed stream is cut short without an end of stream" % (impl.split()[1], model))
    if model.startswith("diverge"):
        T, ent = _pipe_log(q)
        for dr in ("0", "1"):
            rd = b""; dl = b""
            for (_, dd, call, resp) in ent:
                if dd != dr: continue
                if resp.startswith("chunk:"): rd += unhex(resp[6:])
                if call.startswith("write:") and resp.startswith("accepted:"):
                    dl += unhex(call[6:])[:int(resp[9:])]
            if not rd.startswith(dl):
                return "direction %s delivered bytes that are not a prefix of what was read" % dr
    return None


def judge_c14(d):
    q, impl, model = d["query"], d["impl"], d["model"]
    if q.startswith("c14 qtimers "):
        # states are "closest/conn@deadline,..." after each operation
        ops = q.split()[4].split(";")
        for k, st in enumerate(impl.split(" | ")):
            c, _, ds = st.partition("/")
            dl = [int(x.split("@")[1]) for x in ds.split(",") if "@" in x]
            if dl and (c == "-" or int(c) > min(dl)):
                return ("QUIC multiplexer timer bookkeeping: after %s the loop sleeps until %s although a connection timer is armed for %d "
                        "(that timer would fire late or never)" % (ops[k] if k < len(ops) else "?", c, min(dl)))
            if k < len(ops) and ops[k].startswith("tick") and c != (str(min(dl)) if dl else "-"):
                return ("QUIC multiplexer timer bookkeeping: after the loop iteration %s closest_deadline is %s, the earliest armed "
                        "deadline is %s" % (ops[k], c, min(dl) if dl else "none"))
        return None
    if q.startswith("c10 session "):
        # establishment timeout: "c10 session <proto> none - <E> <n> {C <authority hex> <literal> <port> absent delay:<ms> ...}"
        t = q.split()
        E, n = int(t[5]), int(t[6])
        ir, _ = _c10_parse(impl); mr, _ = _c10_parse(model)
        for k in range(n):
            f = t[7 + 9 * k: 16 + 9 * k]
            dest = bytes.fromhex(f[1]).decode("latin1")
            delay = int(f[5].split(":")[1])
            a = " ".join(ir[k]) if ir and k < len(ir) else "nothing"
            b = " ".join(mr[k]) if mr and k < len(mr) else "?"
            if a != b:
                return ("%s CONNECT %s (%s destination), establishment timeout %d ms, the outbound attempt completes after %d ms: the "
                        "client was answered [%s]; an attempt that %s must be answered [%s]"
                        % (t[2], dest, "literal" if f[2] == "1" else "host-name", E, delay, a,
                           "does not complete within the timeout" if delay > E else "completes in time", b))
        return None
    if q.split()[1] == "hung":
        return "idle tunnel never closed (no expiry within 60 T of virtual time)"
    try:
        T, ent = _pipe_log(q)
    except Exception:
        return None
    prog = [t for (t, _, call, resp) in ent if (call == "read" and (resp.startswith("chunk:") or resp == "eof")) or (call == "waitwritable" and resp == "unit")]
    a = max(prog) if prog else 0
    if impl.startswith("timedout"):
        c = int(impl.split()[1])
        if c <= a + T - (1 if False else 0) and c - a < T:
            return "tunnel closed by the idle timer at %d ms although data was transferred at %d ms (T = %d)" % (c, a, T)
        if c > a + 2 * T:
            return "idle tunnel closed at %d ms, later than 2T after its last activity at %d ms (T = %d)" % (c, a, T)
    if model.startswith("timedout") and not impl.startswith("timedout") and impl in ("running",):
        return "idle tunnel was not closed when the model's timer expired (%s)" % model
    return None


def judge_c08(d):
    q, impl, model = d["query"], d["impl"], d["model"]
    if impl in ("hang", "panic"):
        return "HTTP/1.1 session %s" % impl
    if q.startswith("c08 relay"):
        fi = dict(t.split("=", 1) for t in impl.split() if "=" in t)
        fm = dict(t.split("=", 1) for t in model.split() if "=" in t)
        parts = []
        if fi.get("end") != fm.get("end"):
            parts.append("the relaying listen() %s, the model of the loop says %s" % (
                {"running": "was still running 5 s later", "graceful": "ended gracefully", "failed": "ended with an error"}.get(fi.get("end"), fi.get("end")),
                fm.get("end")))
        for k, what in (("up", "the upload side was handed"), ("down", "the client was sent")):
            if fi.get(k) != fm.get(k):
                li = 0 if fi.get(k) in (None, "-") else len(fi[k]) // 2
                lm = 0 if fm.get(k) in (None, "-") else len(fm[k]) // 2
                parts.append("%s %s payload bytes, expected %d%s" % (what, "no response at all and no" if fi.get(k) == "no-response" else li, lm,
                                                                  "" if li != lm else " (same length, different bytes)"))
        return "; ".join(parts) or None
    if model.startswith("request"):
        if not impl.startswith("request"):
            return "a valid request head was not recognised under this segmentation (%s)" % impl
        return "head length / upload payload differ from the client's stream: got %s expected %s" % (impl[:100], model[:100])
    return None


def judge_c09(d):
    q, impl, model = d["query"], d["impl"], d["model"]
    if "panic" in impl or impl == "hang":
        return "a parser of untrusted input panicked / hung on this byte string"
    return None


def _c10_parse(ans):
    try:
        rs, eg = [x.strip() for x in ans.split("|")]
        return [r.split() for r in rs.split(";")], ([] if eg == "-" else eg.split(","))
    except Exception:
        return None, None


def judge_c01(d):
    """violation iff the implementation let something out (egress or a 200) that the gate model refuses,
    or answered a refused request with something else than 407 + challenge"""
    q, impl, model = d["query"], d["impl"], d["model"]
    if q.startswith("c17 run "):
        # plain-HTTP forwarding (suite c17, borrowed): bytes beyond the authorised request - a pipelined next request, which
        # has not passed the gate - must not leave with it
        fi = dict(t.split("=", 1) for t in impl.split() if "=" in t)
        fm = dict(t.split("=", 1) for t in model.split() if "=" in t)
        ri, rm = fi.get("req", "-"), fm.get("req", "-")
        if ri != rm and len(ri) > len(rm) and ri.startswith(rm if rm != "-" else ""):
            extra = unhex(ri[len(rm) if rm != "-" else 0:])
            return ("the origin was sent %d byte(s) beyond the authorised request (%r...): they belong to whatever follows it on the "
                    "session, which has not been authenticated" % (len(extra), extra[:60]))
        return None
    if q.startswith("c10 real "):
        return None  # refusal codes of the real forwarder: C10's subject, no credentials involved
    ir, ie = _c10_parse(impl); mr, me = _c10_parse(model)
    if ir is None or mr is None or len(ir) != len(mr):
        return None
    if len(ie) > len(me):
        return "outbound action(s) %s although the model allows only %s (egress without valid credentials)" % (ie, me)
    for a, b in zip(ir, mr):
        if b[0] == "407" and (a[0] != "407" or a[2] != "1"):
            return "a request without valid credentials was answered %s instead of 407 with a Basic challenge" % " ".join(a)
        if a[0] == "200" and b[0] != "200":
            return "200 although the model refuses the request (%s)" % " ".join(b)
    return None


def judge_c10(d):
    q, impl, model = d["query"], d["impl"], d["model"]
    if q.startswith("c10 real "):
        t = q.split()
        return ("CONNECT through the real direct forwarder (allow_private_network_connections=%s, ipv6_available=%s) to %s was answered "
                "[status X-Warning challenge X-Adguard-Vpn-Error] = [%s]; the documented answer for that destination is [%s] "
                "(310 = non-routable, 311 = loopback, 300 = connection failed)" % (t[2], t[3], " ".join(t[4:]), impl, model))
    if q.startswith("c10 errno "):
        return ("a request through the real direct forwarder whose outbound connect fails with OS error %s was answered [status X-Warning challenge "
                "X-Adguard-Vpn-Error] = [%s]; the documented answer is [%s] (301 = unreachable: ENETUNREACH 101, EHOSTUNREACH 113; 302 = timed out: "
                "ETIMEDOUT 110; 300 = connection failed)" % (q.split()[2], impl, model))
    if q.startswith("c10 socks "):
        return ("CONNECT through the real SOCKS5 forwarder whose upstream answered the request with %s (RFC 1928 REP; closed = connection "
                "closed, malformed = not a reply) was answered [status X-Warning challenge X-Adguard-Vpn-Error] = [%s]; the documented answer is "
                "[%s] (301 = unreachable, 302 = timed out, 300 = connection failed)" % (q.split()[2], impl, model))
    ir, ie = _c10_parse(impl); mr, me = _c10_parse(model)
    if ir is None or mr is None or len(ir) != len(mr):
        return "number of responses differs from the number of requests"
    for a, b in zip(ir, mr):
        if a != b:
            return "response %s, documented response is %s" % (" ".join(a), " ".join(b))
    if sorted(ie) != sorted(me):
        return "outbound actions %s, expected %s (reserved authorities must not be connected to)" % (ie, me)
    return None


def _c07_parts(tok):
    # "S[..] C[..] g1 t1 o- u10 v0 f0"  or  "closed:err:UnexpectedEof g0 o0"
    out = {}
    for w in tok.split():
        if w.startswith("S[") or w.startswith("C["):
            out[w[0]] = w[2:-1]
        elif w.startswith("closed:"):
            out["closed"] = w[7:]
        else:
            out[w[0]] = w[1:]
    return out


def judge_c07(d):
    q, impl, model = d["query"], d["impl"], d["model"]
    ops = q.split("ops=")[1].split(";")
    io, mo = impl.split(" | "), model.split(" | ")
    for k, (a, b) in enumerate(zip(io, mo)):
        if a == b:
            continue
        pa, pb = _c07_parts(a), _c07_parts(b)
        hist = ";".join(ops[:k + 1])
        if pa.get("f") == "1" and pb.get("f") == "0":
            return "after %s the multiplexer's exchange() had returned although the client is still there (a flow error must not end it)" % hist
        if pa.get("S") != pb.get("S"):
            return "after %s the loopback servers saw [%s] (server/flow.seq.len), the flow's own destination should have seen [%s]" % (hist, pa.get("S"), pb.get("S"))
        if pa.get("C") != pb.get("C"):
            return "after %s the client was handed [%s] (flow-by-labels/flow-answered.seq.len), expected [%s]" % (hist, pa.get("C"), pb.get("C"))
        if pa.get("g") != pb.get("g") or pa.get("t") != pb.get("t") or pa.get("o") != pb.get("o"):
            return ("after %s: outbound_udp_sockets=%s, pipe table=%s flows, open descriptors=%s; live flows give gauge=%s table=%s descriptors=%s"
                    % (hist, pa.get("g"), pa.get("t"), pa.get("o"), pb.get("g"), pb.get("t"), pb.get("o")))
        if pa.get("closed") != pb.get("closed"):
            return "closing the client side ended exchange() with %s, expected %s" % (pa.get("closed"), pb.get("closed"))
        return None  # relayed byte counters only: C16's subject
    if len(io) != len(mo):
        return "history %s: %d observations, model %d" % (q, len(io), len(mo))
    return None


def judge_c16(d):
    q, impl, model = d["query"], d["impl"], d["model"]
    if q.startswith("c07 "):
        # the SOCKS5 multiplexer histories (outbound_udp_sockets = associations) are judged as in C07
        return judge_c07(d)
    if q.startswith("c16 families"):
        return "the series exported by Metrics::collect are [%s]; METRICS.md documents [%s]" % (impl, model)
    ops = q.split("ops=")[1].split(";")
    io, mo = impl.split(" | "), model.split(" | ")
    names = {"s": "client_sessions (http1/http2/http3)", "t": "outbound_tcp_sockets", "u": "outbound_udp_sockets",
             "up": "bytes relayed client->peer (http1/http2/http3)", "dn": "bytes relayed peer->client (http1/http2/http3)"}
    for k, (a, b) in enumerate(zip(io, mo)):
        if a == b:
            continue
        hist = ";".join(ops[:k + 1])
        if a.startswith("listener:") or b.startswith("listener:"):
            return "after %s the metrics listener answered [%s], the live objects and relayed bytes give [%s]" % (";".join(ops), a, b)
        for x, y in zip(a.split(), b.split()):
            if x != y:
                key = "up" if x.startswith("up") else "dn" if x.startswith("dn") else x[0]
                return "after %s: %s reads %s, the live objects / relayed bytes give %s" % (hist, names.get(key, key), x, y)
    if len(io) != len(mo):
        return "history %s: %d observations, model %d" % (q, len(io), len(mo))
    return None


def judge_c17(d):
    q, impl, model = d["query"], d["impl"], d["model"]
    fi = dict(t.split("=", 1) for t in impl.split() if "=" in t)
    fm = dict(t.split("=", 1) for t in model.split() if "=" in t)
    f = dict(t.split("=", 1) for t in q.split()[2:] if "=" in t)
    origin = unhex(f.get("origin", "").replace(",", "")) if f.get("origin", "-") != "-" else b""
    what = "client v=%s %s, origin stream %r in %d segment(s), client sink quotas %s" % (
        f.get("v"), f.get("m"), origin[:120], len(f.get("origin", "").split(",")), f.get("q"))
    if fi.get("body") != fm.get("body") or fi.get("ceof") != fm.get("ceof"):
        return "%s: client received body %s with end of stream %s; the response body is %s with end of stream %s" % (
            what, fi.get("body"), fi.get("ceof"), fm.get("body"), fm.get("ceof"))
    if fi.get("head") != fm.get("head") or fi.get("interim") != fm.get("interim"):
        return "%s: client was sent interim=%s head=%s, expected interim=%s head=%s" % (
            what, fi.get("interim"), fi.get("head"), fm.get("interim"), fm.get("head"))
    if fi.get("req") != fm.get("req") or fi.get("reqeof") != fm.get("reqeof"):
        return "request %s %s forwarded as %r, expected %r" % (f.get("m"), f.get("uri"), unhex(fi.get("req", "")) if fi.get("req", "-") != "-" else b"",
                                                               unhex(fm.get("req", "")) if fm.get("req", "-") != "-" else b"")
    if impl.startswith("refused") or model.startswith("refused"):
        return "request answered %s, expected %s" % (impl, model)
    if fi.get("rel") != fm.get("rel"):
        ri = fi.get("rel", "")
        return ("request %s %s, origin sink quotas %s: the client's request-body source was credited %s, the body bytes the origin accepted are %s "
                "(the serialised head is the endpoint's own; an HTTP/2 client's window is released by exactly this credit)" % (
                    f.get("m"), f.get("uri"), f.get("oq"),
                    ("%s bytes when only %s had been read from it" % tuple(ri[5:].split(">")) if ri.startswith("over:") else ri + " bytes"), fm.get("rel")))
    return None


def judge_c19(d):
    q, impl, model = d["query"], d["impl"], d["model"]
    if not q.startswith("c19 "):
        return None  # queries of a borrowed suite: only its direct failures of the listed kinds count here
    io, mo = impl.split(","), model.split(",")
    ops = q.split()[2:]
    for k, (a, b) in enumerate(zip(io, mo)):
        if a != b:
            op = ops[k] if k < len(ops) else "?"
            if op.startswith("W"):
                return "after %s participant %s polled wait() and got %s, expected %s (a participant registered before the submission must observe it, and only then)" % (" ".join(ops[:k]), op[1:], a, b)
            if op == "C":
                return "after %s completion() answered %s, expected %s (it must return exactly when the last registered participant has finished)" % (" ".join(ops[:k]), a, b)
            return "after %s operation %s answered %s, expected %s" % (" ".join(ops[:k]), op, a, b)
    return None


def judge_c18(d):
    q, impl, model = d["query"], d["impl"], d["model"]
    t = q.split()
    if t[1] == "select":
        return "request routed to channel %s, documented precedence (ping > speedtest > reverse proxy > tunnel) gives %s" % (impl, model)
    if t[1] == "speed":
        path = unhex(t[3]).decode("utf-8", "replace")
        cl = None if t[4] == "-" else unhex(t[4][1:]).decode("utf-8", "replace")
        num = path.rsplit("/", 1)[-1][:-len("mb.bin")] if path.endswith("mb.bin") else cl
        if num is not None and (not num.isdigit() or (len(num) > 1 and num[0] == "0")):
            return None  # '+5', '05': Rust's u32 parser accepts them, the property does not say
        return "speedtest answered status/body-length %s, documented behaviour is %s" % (impl, model)
    return None


def judge_c20(d):
    q, impl, model = d["query"], d["impl"], d["model"]
    if q.startswith("c20 written"):
        t = q.split()
        target = "" if t[5] == "-" else unhex(t[5]).decode("latin-1")
        lv = ["off", "error", "warn", "info", "debug", "trace"]
        return ("the endpoint's %s logger %s a %s record of target %r at maximum level %s; the filter (TT/Model/Scrub.lean loggable) %s "
                "(the TLS library's trace records dump the ClientHello with its server name)" % (
                    t[2], "wrote" if impl == "1" else "did not write", lv[int(t[4])], target, lv[int(t[3])], "drops it" if model == "0" else "lets it through"))
    if q.startswith("c20 loggable"):
        t = q.split()
        target = "" if t[4] == "-" else unhex(t[4]).decode("latin-1")
        lv = ["off", "error", "warn", "info", "debug", "trace"]
        return ("the endpoint's logger %s a %s record of target %r at maximum level %s; the filter (TT/Model/Scrub.lean loggable) %s "
                "(the TLS library's trace records dump the ClientHello with its server name)" % (
                    "writes" if impl == "1" else "drops", lv[int(t[3])], target, lv[int(t[2])], "drops it" if model == "0" else "writes it"))
    return "scrubber output differs from the model: printed %s, expected %s" % (impl[:160], model[:160])


PROPS = {
    "C03": dict(
        suites=["c03", "c10real"],
        judge=judge_c03,
        level="proof",
        exhaustive=False,
        rule="correspondence: is_global_ip evaluated on all 2^32 IPv4 addresses and on all 2^32 IPv4-mapped IPv6 addresses "
             "(compared as maximal blocked intervals with the table the theorems are about), on every value of the first "
             "(resp. second) hextet for fixed remaining hextets (structural IPv6 classes), and TcpForwarder::connect run with "
             "scripted resolver answers (all lists of length <= 1, sampled/all pairs, random longer) x allow x ipv6_available; "
             "every pool address also as a host name whose text is the IP literal (plain and bracketed; the form a port-less "
             "`GET http://127.0.0.1/` or an authority the socket-address parser rejects takes), through the real resolver call; "
             "canary listeners on this machine's non-global addresses that no spelling, literal or as a name, may reach; "
             "a case is non-trivial/distinct by its query line"
             " How a refusal is reported (suite c10real, shared with C10): CONNECT, and plain-HTTP GET / POST whose authority spells the port out or leaves it out, to 19 literals and 9 scripted names x both policies x IPv6 on/off through the real direct forwarder: status, X-Warning code and X-Adguard-Vpn-Error (which must name the request's authority) against the C03 decision carried through the generated tables"
             " Canaries also sit second in the answer of names whose first address is global but unreachable ([ff0e::1234], 8.8.8.8, 2606:4700:4700::1111): the failed attempt is not followed by an unchecked one"
             " The two policy switches as a settings file gives them (written out both ways, and left out: the documented defaults are private networks disallowed, IPv6 available) x every pool address through the real forwarder",
        explanation="theorems v4_exact, v6_unicast_exact, v6_mapped_exact, connect_only_global, host_without_global_answer_refused, no_answer_no_connection, answers_after_first_suitable_irrelevant, global_*_never_refused about "
                    "TT/Model/Ip.lean; model tied to lib/src/net_utils.rs + tcp_forwarder.rs by exhaustive/differential runs",
        trusted=["std::net::Ipv4Addr/Ipv6Addr predicates as transcribed (tied by the exhaustive sweep)",
                 "resolver answers are an input of the model (system resolver not modelled)"],
        assumptions=["kernel connect() semantics for ::ffff:a.b.c.d (reaches a.b.c.d) motivate the mapped rule; not modelled",
                     "multicast destinations are outside the property; model follows the code there"],
    ),
    "C06": dict(
        suites=["c06"],
        judge=judge_c06,
        level="proof",
        rule="record streams of 1-4 records (valid, zero-length name/payload, declared length < 37, length < header+name, non-UTF-8 "
             "name, too large, largest accepted, truncated tail; IPv4/IPv6 endpoints) decoded by the real Decoder behind the real "
             "DatagramDecoder::read under every 1-cut, byte-at-a-time, sampled (thorough: all, for short streams) 2-/3-cut "
             "segmentations; encoder on random datagrams; distinct by query line"
             " Encoder also on the largest datagrams a socket delivers: payloads of 9000, 65470 ... 65473, 65500, 65506, 65507 bytes (around the decoder's client-side limit, which is not the encoder's)"
             " Among the non-UTF-8 application names four are valid up to their end and stop in the middle of a character",
        explanation="theorem decode_segmentation: chunked machine = independent record-level decoder on the concatenation, for all "
                    "chunk lists; spec_decode_encode: round trip; inv_step/inv_buffer_bounded: bounded buffering, no panic; encode_out_framed/encode_out_concat: the 6.4 reply is 40 header bytes + the payload verbatim, its length field counts what follows, consecutive replies split at the declared length",
        trusted=["std::str::from_utf8 as transcribed in TT/Model/Utf8.lean (tied by the bad/good name corpus)"],
        assumptions=["IPv6 addresses with 96 leading zero bits cannot be distinguished from zero-padded IPv4 on the wire (6.3); "
                     "excluded from the round-trip theorem by an explicit predicate"],
    ),
    "C11": dict(
        retry_on_failure=True,
        suites=["c11", "c11h3"],
        judge=judge_c11,
        level="proof",
        rule="checksum on corner strings (sums at 0xfffe..0x30000, all-ff up to 65535 bytes) and random strings; Echo::serialize for "
             "v4/v6 with corner ids/seqs and payload classes (also verified by an independent RFC 1071 check in the harness); "
             "received packets: replies, errors quoting requests behind IPv4 headers with every IHL class and IPv6 extension-header "
             "chains with right/wrong lengths, truncations, exhaustive short strings over a reduced alphabet; 7.3 streams under all "
             "1-cuts, byte-at-a-time and sampled multi-cuts; 60 (thorough 400) histories through the real IcmpForwarder on raw "
             "sockets bound to lo (skipped with a note when raw sockets are not permitted): echo requests from two clients to "
             "127.0.0.1 (the kernel answers), injected echo replies with the same / shorter / longer / other data / other id, "
             "injected ICMP errors (types 3, 11, 12) quoting a request, clock advances around the request timeout, and reads of "
             "each client's queue (capacity 3), compared with the waiter-table model"
             " On the wire: 7.3 records with TTLs {1, 2, 7, 63, 64, 65, 128, 200, 255} (thorough: all of 1..255) to 127.0.0.1 and to this "
             "machine's own global / ULA IPv6 address (from /proc/net/if_inet6; noted when there is none) through the real decoder, "
             "IcmpSink::write and raw sockets; an independent raw socket reads the echo request with the TTL of its IPv4 header / "
             "its hop limit (IPV6_RECVHOPLIMIT), type, identifier, sequence number and data length, compared with `outgoing` of the model"
             " Live over HTTP/3 (suite c11h3, where raw sockets are permitted): two clients CONNECT _icmp through the real QUIC listener "
             "and ping 127.0.0.1 with their own identifiers (6, thorough 20, requests each, records split across writes, 4 data sizes): "
             "each must get exactly one 22-byte 7.4 record per request (source 127.0.0.1, type 0, code 0, its id and sequence number) "
             "and none of the other client's"
             " One request in six of the live histories has TTL 0 (the kernel refuses to send it): the client is told, and a reply or error that would match it - at once, or after the timeout - is nobody's. The on-the-wire block also requires the kernel's reply to each request to reach the client (type 0 / 129 from the pinged address, identifier and sequence number of the request)"
             " Malformed ICMP packets from the network: after each of 19 the listener still runs and a ping is answered (see C09)",
        explanation="theorems checksum_verifies (all payloads <= 65535 bytes), request_decode_segmentation, request_fields_faithful, request_leaves_as_requested, "
                    "*_no_panic, v4_error_designates, reply_format, waiter-table invariants",
        trusted=["ICMPv6 checksum is computed by the kernel for raw ICMPv6 sockets (not modelled)",
                 "waiter table: HashMap lookup with the prefix-tolerant Echo::eq is modelled as first match in insertion order; the "
                 "suite keeps (identifier, sequence) pairs distinct except for empty-data requests (where the entry is replaced)",
                 "ICMPv6 replies are not driven by the waiter-table suite (ipv6_available = false there); the ICMPv6 request path is, by the on-the-wire block"],
        assumptions=["two clients using the same identifier/sequence number with prefix-equal data share one waiter key "
                     "(Echo::eq); theorems about delivery are stated per matching waiter"],
    ),
    "C04": dict(
        retry_on_failure=True,
        suites=["c04", "c04live"],
        judge=judge_c04,
        level="proof",
        rule="every single rule over 13 CIDR spellings (valid v4/v6, /0, /32, host bits set, mapped /104, malformed) x 18 patterns "
             "(prefix, upper case, prefix/mask equal, longer, shorter, odd hex, non-hex, empty sides, double slash, over-long) x 2 "
             "actions against 9 peers (v4, mapped, v6, absent) x 12 randoms (absent, empty, short, 32 bytes), random rule lists of "
             "length 2..5 (thorough ..12), both through RulesEngine::evaluate and Core::evaluate_connection_rules; rules files "
             "through the real Settings deserialiser; real Core::listen probe: denied peer reads EOF before any ServerHello byte."
             " Live part (suite c04live, wall clock): 9 (thorough 25) rule lists (loopback and foreign CIDRs, IPv4-mapped CIDRs, "
             "bitwise random patterns, malformed entries) on the real Core::listen, alternately bound to 127.0.0.1 and to the dual-stack "
             "[::] (where the IPv4 client arrives as ::ffff:127.0.0.1), with a host entry of every class (tunnel, ping, speedtest, reverse "
             "proxy) and the SNI rotating over them; 8 TCP clients per list send a real ClientHello carrying a chosen "
             "random and see a ServerHello or the end of the stream; 5 (10) quiche clients per list complete the QUIC handshake and ask "
             "for a health check (served, or dropped before any request); the verdict is compared with the model for peer 127.0.0.1 "
             "and the random actually used"
             " Also 3 (thorough 8) hellos per rule list spread over two TLS records (cut after 4, 20, 39 bytes): the endpoint's look at the first record cannot determine the random, the model is asked with the random unavailable - lists with a random pattern fail closed"
             " Two rule lists look only at the end of the 32-byte random (a bit of byte 28; of byte 31, as an allow rule before a catch-all deny): on QUIC too the pattern is compared with the whole random"
             " Long hellos (one record of about 2, 6, 14 KiB, made long by the ALPN list) with chosen randoms: the random is in the first 43 bytes whatever follows"
             " Rules files with fields given as empty strings (an empty CIDR matches nobody, an empty prefix still asks for a client random)"
             " A QUIC connection whose request got no answer (denied) keeps sending PINGs: within 2 s the endpoint must have closed it (suite c04live)",
        explanation="theorems first_match_wins, default_allow, fail_closed_without_random, prefix/mask semantics, "
                    "malformed_never_matches, mapped_peer_eq_v4_peer, deny_precedes_handshake, rules_after_a_match_irrelevant, catch_all_deny_first/last, no_engine_allows about TT/Model/Rules.lean",
        trusted=["ipnet CIDR parsing and hex::decode (the harness passes parsed CIDRs to the model; hex decoding is modelled)",
                 "accept-path ordering is a hand transcription of core.rs, tied by the live listener suites (TCP and QUIC)"],
        assumptions=["QUIC: rules are evaluated after the QUIC handshake completes but before any HTTP/3 codec exists, as the property states"],
    ),
    "C12": dict(
        retry_on_failure=True,
        suites=["c12", "c12live"],
        judge=judge_c12,
        level="proof",
        rule="ClientHellos from rustls (varied SNI/ALPN) and synthetic ones (session ids, suite lists, padding and key-share "
             "extensions from 0 to just over 16 KiB, fragmented over two records): extraction on the full record, with suffix, with a "
             "second record, on every prefix (short) / sampled prefixes (long), on mutations of every length field, on odd first "
             "records; the real read loop + prebuffer replay over loopback TCP written in chosen segments with chosen read sizes"
             " The read loop is also fed hellos in 24-byte segments (more reads than the prebuffer has kilobytes) and hellos of "
             "15-16 KiB that fit the prebuffer; only a hello ending in the last KiB of a stream that fills the prebuffer is left out "
             "(found or absent depending on how the reads fall, which the property allows)."
             " Live part (suite c12live, wall clock): the real Core::listen (TCP + QUIC) on a loopback port; 44 (thorough 150) rustls "
             "clients (ALPN http/1.1 and h2) whose ClientHello is delivered in TCP segments cut at chosen offsets (every offset below 64 "
             "at once, the field boundaries 5/6/9/11/43/44, random ones) complete their handshake and a health check, and 8 (thorough 40) "
             "quiche clients complete a QUIC handshake (after the endpoint's stateless retry): the client random the endpoint hands to "
             "its connection rules (recorded by the door in Core::evaluate_connection_rules) must be bytes 11..43 of what the TCP "
             "client sent, and SSL_get_client_random of the QUIC client's own handshake; 14 (thorough 30) rustls clients whose ClientHello "
             "message is spread over two TLS records (cut inside the handshake header, inside and right after the random, later): the "
             "rules must be given the true random or none (`None`, so that random rules fail closed) - never another value"
             " The read loop also gets streams that end before the first record is complete (cut after 0, 1, 4, 5, 9, 43, 44 bytes, in the middle, one byte short): it must return at once with the random absent and the bytes replayed"
             " Five clients deliver their hello with the following segment 250 - 700 ms late (a retransmission): still the hello's random"
             " Every other QUIC hello carries eight 200-byte ALPN identifiers behind h3 (about 2 KiB of CRYPTO data, two Initial packets)"
             " Six first flights that do not fit the 16 KiB prebuffer (the longest hello plus 2.5-8 KB, first segment 517 / 1 / 1023 ... bytes): the replayed stream must equal what was sent",
        explanation="theorems extract_exact, prefix_needs_more, found_is_the_field, loop_segmentation_invariant, "
                    "loop_absent_never_wrong, loop_conserves, replay_transparent/complete, answer_stable, loop_prebuffer_bounded, non_handshake_record_not_found about TT/Model/ClientHello.lean",
        trusted=["tls-parser 0.12 record/handshake/ClientHello walk as transcribed; exactness claimed for records whose first handshake "
                 "message is a ClientHello and for non-handshake records (a record starting with another handshake message is outside the model)",
                 "rustls handshake on the replayed bytes; QUIC: SSL_get_client_random of BoringSSL is trusted on both sides (the live "
                 "suite compares the endpoint's value with the client's, it does not parse the encrypted Initial packets)"],
        assumptions=["near the 16 KiB prebuffer cap the loop's answer (absent vs found) depends on arrival timing; never a wrong value (loop_absent_never_wrong)"],
    ),
    "C15": dict(
        suites=["c15"],
        judge=judge_c15,
        level="proof",
        rule="dialogues: auth in {none, direct user/pass with lengths 0,1,254,255,256,300 and multi-byte UTF-8, make_auth / "
             "make_extended_auth from SNI and Basic tokens (valid, non-base64, non-UTF-8, no colon, unpadded)} x requests {IPv4, IPv6, "
             "domains of 0/255/256/300 bytes, UDP associate} x server scripts (every method byte class, auth version/status, reply "
             "codes 0..10, address types incl. invalid, reserved byte, bad UTF-8 domain) truncated at a random byte in a third of the "
             "cases and delivered whole / byte-wise / in 2-4 segments; every 8th case also through Socks5Forwarder against a loopback "
             "TCP server; relayed datagrams through a real UDP association"
             " The forwarder runs also compare what the upstream received with the model's client messages (the scripted upstream answers step by step), with IPv4-mapped, IPv4-compatible, NAT64, loopback and unspecified IPv6 literals among the destinations"
             " The forwarder block reads the established connection: behind a success reply the destination's bytes come out exactly (afterDialogue)",
        explanation="reply_v4_consumes_exactly, reply_v6_consumes_exactly (the reply reader takes the reply and nothing behind it); theorems selection_wellformed, userpass_wellformed_or_fails, request_wellformed_or_fails, extended_wellformed, "
                    "split_first_colon, sent_is_encoded_messages, proceeds_only_if_offered_and_success, failure_reply_fails_request, "
                    "reply_truncation_is_error, udp_unwrap_wrap, udp_unwrap_no_panic about TT/Model/Socks5.lean",
        trusted=["base64 decoding (the decoded credential bytes are a model input)", "kernel connect() of the association socket"],
        assumptions=["reads are exact-size pulls, so segmentation of the server's bytes cannot matter: exercised, not proved beyond the pull structure"],
    ),
    "C05": dict(
        retry_on_failure=True,
        endpoint_bin=True,
        suites=["c05", "c05live", "c05bin"],
        judge=judge_c05,
        level="proof",
        rule="150 (thorough 1500) host configurations over names with dot-suffix overlaps and alternative SNIs of the form <l>.<main>, "
             "plain, and colliding; every non-empty subset of listen protocols; reverse proxy on/off; SNIs = every configured name, "
             "user.<name>, <name>., .<name>, upper case, alternative SNIs, unknown; ALPN lists: empty, each of {h3,h2,http/1.1,spdy/3, "
             "non-UTF-8, H2, and look-alikes of the three identifiers: h3-29, h3x, h2c, h22, http/1.10, http/1.0, http/1, HTTP/1.1, h, H3, xh3, "
             "h3 + NUL, ' h2'}, random pairs/triples - through the real TlsDemux::new (real PEM files, one per host entry so that the "
             "certificate path identifies the entry) and select; reload histories (valid, duplicate names, empty main, unloadable "
             "certificate) on a live Core; 4 threads selecting during alternating reloads"
             " Every pair of host classes sharing a name (16 pairs) must be refused at build time and at reload."
             " Live part (suite c05live, wall clock): the real Core::listen (TCP and QUIC) on a loopback port with four host entries that "
             "have four different certificates, for 3 (thorough 5) sets of enabled protocols (one without HTTP/1.1), before and after a hot reload that trades "
             "names between classes: rustls clients over TCP (10 SNI forms incl. none, alternative, <credentials>.<host>, unknown; 10 ALPN "
             "lists incl. none, h3 on TCP, unknown) and quiche clients over QUIC observe the certificate presented, the protocol "
             "negotiated and which channel answers a probe request (tunnel -> scripted forwarder refuses -> 502, ping -> 200, speedtest -> "
             "400, reverse proxy -> the origin's answer); compared with tcpAccept / quicAccept of the model."
             " Binary (suite c05bin): the real trusttunnel_endpoint process (built from the working tree, no feature) is started with a "
             "hosts file and sent 4-7 SIGHUPs per history (3 histories, thorough 10) after rewriting the file: valid configurations out of "
             "a universe of 7 host entries that each have their own certificate, and invalid ones (a name in two classes, no main host, a "
             "certificate that does not exist, unparsable TOML, no file); after every reload a TLS client asks for 6 names and the "
             "certificate it is shown (= which entry) or the refusal is compared with the reload model; the process must stay alive",
        explanation="theorems select_designated_host, no_entry_refused, exact_name_own_class, protocol_is_best_common, failed_reloads_invisible, reload_idempotent, "
                    "common_protocol_accepted, default_only_when_no_alpn, unknown_alpn_ignored, tcp_never_h3, quic_always_h3, "
                    "quic_designated_host, quic_unknown_sni_is_bootstrap, reload_* about TT/Model/Demux.lean",
        trusted=["rustls / BoringSSL present the certificate chain whose path select returned: not modelled, observed by the live suite",
                 "std RwLock gives each select one consistent TlsDemux (exercised by the concurrent suite, not proved)",
                 "on QUIC the first main host (bootstrap) is a hash-map iteration order: the live suite has one main host"],
        assumptions=["an alternative SNI listed for two main hosts is resolved by HashMap iteration order: generator keeps them unique"],
    ),
    "C13": dict(
        retry_on_failure=True,
        endpoint_bin=True,
        wizard_bin=True,
        suites=["c13", "c13bin", "c13wizard"],
        judge=judge_c13,
        level="proof",
        rule="user names / passwords over an alphabet with quotes, backslash, #, =, brackets, tab, newline, CR, BS, FF, DEL, U+0001, "
             "accented, CJK, emoji, colon, with optional surrounding spaces, each written in every lexeme style able to express it "
             "(canonical basic, literal, all \\uXXXX/\\UXXXXXXXX, short escapes) plus invalid lexemes (unknown escape, surrogate, "
             "> U+10FFFF, raw control, unterminated, stray quote, empty, non-strings, missing keys) read through the real Settings "
             "deserialiser; registry verdicts for correct / wrong / truncated / unpadded / case-changed / raw tokens and SNI sources; "
             "the wizard's own compose_credentials_content (copied from tools/ by the extractor) read back by the endpoint; exported "
             "client configuration parsed back; 420 start-up configurations through TOML + Core::new; TLS host validation cases for every pair "
             "of host classes. Binary (suite c13bin): the real endpoint process is started with 27 (thorough 80) of those start-up "
             "configurations written as settings files (listening / exited, compared with the same model), with 4 invalid TLS hosts files, "
             "and run with `-c <name> -a <address>` for 4 clients of a credentials file written by the wizard's composer (names differing "
             "by case, passwords with quotes, backslashes, blanks, non-ASCII): the printed pair must be that client's own"
             " The wizard itself (suite c13wizard): the real setup_wizard binary, built from the working tree, run non-interactively for "
             "127.0.0.1, 0.0.0.0, [::1] and [::] with a free port, four credential pairs (spaces, quotes, backslash, non-ASCII, colons in the "
             "password) and a host name; the real endpoint binary started in the wizard's directory from the files it wrote must come up, "
             "listen on the address asked for, present the generated certificate for the host name and answer health checks with six "
             "Proxy-Authorization tokens (right, longer password, empty password, other case of the user, trimmed password, none) as the "
             "registry model does"
             " Certificate files that cannot be loaded as what they claim to be - a CERTIFICATE block that is not base64 (alone with a good key, after a good certificate, before one), a key and no certificate, an empty file - in every host class, built and through a hosts file at start-up: all refused"
             " ... and a file with a certificate and no key named as certificate and key file (a \"combined\" file without its key)"
             " A settings file that leaves every optional key out is written back as TOML and compared key by key (45 keys in 6 sections) with a built configuration"
             " Every integer and boolean key of the settings sections (top level, http1, http2, quic, icmp, metrics: 30 keys by name, 5 by alias) is set in a file under each spelling the deserialiser accepts (table regenerated from settings.rs by the translator); the settings read from the file are written back and compared with the defaults - exactly the setting the key names must have moved, to the value given - and the moved fields are compared with the table the theorems keys_unambiguous and keys_name_their_fields are about"
             " One credentials list in three writes a user name twice, the second time right behind the first with another password: both pairs are read back and accepted",
        explanation="keys_unambiguous, keys_name_their_fields over the regenerated TT/Gen/SettingsKeys.lean; theorems decode_encode_basic, literal_verbatim, basic_plain_verbatim, load_ok_iff, empty_rejected, base64_injective, "
                    "accepted_iff_listed, accepted_token_identifies_pair, refuses_to_start_iff, file_to_registry, sound_configuration_starts about TT/Model/Creds.lean",
        trusted=["toml_edit for everything outside single-line basic/literal strings (multi-line strings are outside the model)",
                 "the wizard and the client export use toml_edit's own string encoder: their round trips are exercised, not proved",
                 "base64 crate = the modelled standard padded alphabet (tied by the registry verdicts)"],
        assumptions=[],
    ),
    "C02": dict(
        retry_on_failure=True,
        suites=["c02", "c02live", "c02h3", "c08"],
        borrowed_suites={"c15": []},
        judge=judge_c02,
        level="proof",
        rule="3000 (thorough 40000) random duplex scripts: per direction 0-4 chunks (sizes 0,1,2,3,5,8) then EOF / read error / silence, "
             "delays incl. 0 and multiples of the idle timeout, sink quotas {0,1,2,3,all} per write, wait_writable delays, errors "
             "injected in read / write / wait_writable / consume / eof / flush; the real DuplexPipe::exchange runs on a paused-clock "
             "current-thread runtime; every endpoint call is logged with its virtual timestamp, replayed through the Lean machine "
             "(which must predict each call) and checked by a direct oracle (prefix, credit, eof order, nothing after failure)"
             " Live part (suite c02live): 29 (thorough 88) CONNECT tunnels through the real HTTP/1.1 and HTTP/2 codecs and the real direct "
             "forwarder to a loopback origin, transports of 4 MiB and 2 KiB (the codecs block in their writes), 0 / 1 / 70000 / 300000 "
             "(1000000) patterned bytes in either or both directions, client or origin taking 700-900 bytes per read, the origin or "
             "the client ending its stream first: each side must have received exactly what the other sent, then the end of stream, "
             "and never a reset; plus 4 failing tunnels (the client resets its stream or drops its connection, the origin aborts with a TCP "
             "reset): the other side's connection must end within 3 s."
             " Live HTTP/3 part (suite c02h3, wall clock): the same tunnels (13 quick, 44 thorough) through the real Core::listen on a "
             "loopback UDP port - QUIC multiplexer, HTTP/3 codec, Tunnel, direct forwarder - driven by a quiche client of the harness with "
             "flow-control windows of 1 MiB and 8 KiB, including clients that end their stream while the origin still sends and origins that end "
             "theirs while the client still uploads; and 4 failing "
             "tunnels (the client resets its stream / the origin aborts with a TCP reset, the other direction idle or transferring): "
             "the other side must see its connection end within 3 s and hold nothing but a prefix of what was sent; three sessions with four "
             "concurrent requests ended in different ways; at the end every operation each HTTP/3 codec performed on its stream table "
             "(request, client FIN, client reset, half shutdowns, messages for unknown streams; about 110 per quick run, recorded by the door) "
             "is replayed by the Lean model TT.H3Streams, which must hold the same table after each"
             " The HTTP/1.1 head / payload suite of C08 (c08) runs here as well: payload that shares a segment with the CONNECT head is the start of the relayed stream. Directed pipe histories: one direction ends at once, the other delivers 3 or 6 chunks with gaps of T/2, 3T/4, T-1 into a sink that takes everything / one byte per write / is slow to become writable (the replay checks that the surviving direction is cancelled only at its own timer, `survivorDeadline`)"
             " The HTTP/2 clients of the live tunnels send DATA frames without payload in the middle of their uploads"
             " After an origin reset an HTTP/2 client must see its stream reset, not ended (END_STREAM would present the cut answer as complete)"
             " Behind a SOCKS5 proxy (suite c15, borrowed): the scripted proxy's success reply (IPv4, IPv6 or domain bound address) is followed at once by destination data; what the connection returned by the real Socks5Forwarder's TCP connector then delivers must be exactly that data (model afterDialogue)",
        explanation="theorems stream_invariant, delivered_is_prefix, credit_*, finished_complete, eof_only_when_drained, eof_after_writes, "
                    "restart_preserves, no_call_after_failure, duplex_* about TT/Model/Pipe.lean for every answer sequence; "
                    "table_invariant, read_finished_keeps_response_side, reset_removes_stream, halves_end_independently, "
                    "other_streams_untouched, unknown_stream_is_noop, removed_stays_removed, finished_stream_leaves_no_entry, request_opens_fresh about TT/Model/H3Streams.lean (the HTTP/3 codec's stream table)",
        trusted=["cancel-safety of Source::read (scripted sources are cancel-safe; real h2/TCP sources are assumed to be)",
                 "tokio try_select / timeout semantics; a pending flush() is never cancelled in the scripts (flush delays are 0): "
                 "cancellation of a pending flush is not modelled",
                 "in the scripted part real TcpForwarder / HTTP/2 / HTTP/3 endpoints are replaced by scripted ones (their sinks' partial-write "
                 "contracts are the quota scripts); HTTP/2 WINDOW_UPDATE == consume() argument is h2's contract; the live parts run the "
                 "real codecs but are samples, not proofs: quiche, h2 and the kernel's loopback are trusted there"],
        assumptions=[],
    ),
    "C14": dict(
        retry_on_failure=True,
        suites=["c14", "c14est", "c14live", "c14qt"],
        borrowed_suites={"c17restart": ["stalled_download_not_timed_out", "spin_or_hang", "no_progress"]},
        judge=judge_c14,
        level="proof",
        rule="the same machinery as C02 with every delay drawn from {0, T/4, T/2, 3T/4, T-1, T, T+1, 5T/4, 2T-1, 2T, 2T+1, 3T}: one-sided "
             "traffic, traffic exactly at the deadline, back-pressure stalls; the virtual time at which exchange() returns TimedOut is "
             "compared with the Lean timer model fed with the logged transfer times."
             " Establishment timeout (suite c14est): CONNECT over the real HTTP/1.1 and HTTP/2 codecs and the real Tunnel to literal "
             "IPv4 / IPv6 and host-name destinations whose scripted outbound attempt completes after {0, 1, E/2, E-1, E, E+1, 2E, 10E+5} "
             "ms of virtual time, E in {250, 30000} (thorough also 1, 1000): the response (200, or 502 with X-Warning 302) is compared "
             "with the model, and the attempt must have been dropped (its future, i.e. socket and task) iff it was over the timeout."
             " TLS handshake timeout (suite c14live, wall clock, H = 600 ms): the real Core::listen on a loopback port; clients that stay "
             "silent, stop in the middle of the ClientHello, drip it a byte every 50 ms, send it completely and never continue, or send "
             "a record prefix must be disconnected within [H - 30 ms, 2H + 1.5 s]; clients that complete the handshake (at once, after "
             "H/2) stay connected past 2H and are served a health check; two HTTP/3 sessions on the reverse-proxy host (session timeout 700 ms), "
             "one whose stream completes and one whose stream fails, must be closed by the endpoint within the timeout + 4 s."
             " QUIC timers (suite c14qt): 3 (thorough 8) rounds of three overlapping HTTP/3 sessions with idle timeouts of 0.4 s, 0.9 s "
             "and 1.1 s (one vanishes silently, one closes, one idles on) and two abandoned handshakes on the real QUIC listener (endpoint idle "
             "timeout 1.2 s; at the end the connection table and the deadlines must be empty within 9 s); the door records every operation on "
             "the multiplexer's deadline table (arm, remove, loop iteration with what expired and what quiche asked to re-arm) and the "
             "state it left; the Lean model TT.QuicTimers replays the operations and must reach the same deadline table and "
             "closest_deadline after each one; the two invariants are also checked directly on the recorded states"
             " Directed histories of half-closed tunnels with steady traffic in the other direction (see C02); theorems half_closed_not_early / half_closed_transfer_restarts"
             " Idle tunnels as the client sees them (in c14live): CONNECT over the real HTTP/1.1 and HTTP/2 codecs through the real direct forwarder to a loopback origin that stays silent, T = 500 ms, with one relayed byte or none: the client's connection (h1) / stream (h2) must end between T and 2T + slack after the last byte, and the origin's connection with it"
             " Two more clients that never finish: one complete TLS record holding the first 32 bytes of the hello's handshake message, then silence; one complete record of another type, then silence"
             " One-sided traffic (in c14live): over real HTTP/1.1 and HTTP/2 codecs, the client - or the origin - sends a byte every T/3 for 3T while the other side is silent: the silent direction's timer fires and restarts the pipe's loops again and again, the tunnel must stay up and every byte arrive"
             " Abandoned connects (suite c14live): CONNECT over HTTP/1.1 and HTTP/2 through the real direct forwarder to a loopback listener whose accept queue is full, establishment timeout 400 ms: the error comes no earlier than the timeout, and 300 ms later no socket of the process is in SYN_SENT towards that destination (/proc/net/tcp)"
             " Half-closed and stalled (24 directed shapes, 72 thorough): one direction ended at once, the other's sink takes part of a chunk and is then never writable while the source is silent - exchange() must return TimedOut (a run still going after 60 T is reported as hung)"
             " Stalled forwarded downloads (suite c17restart, borrowed): the origin's head and first body bytes in one segment, the client takes 0-5 bytes and then refuses, everybody silent: exchange() must end with TimedOut between T and 2.5 T after the last activity, having offered the pending bytes to the refusing sink at most 4 times (no busy loop)",
        explanation="theorems idle_not_early, idle_bound_2T, progress_at_deadline_keeps_open, wf_step about the Timer model of "
                    "TT/Model/Pipe.lean; establishment_timeout_reported, establishment_in_time_connected, "
                    "establishment_timeout_destination_independent about TT.Dispatch.handle (the request path model of C10); "
                    "closest_not_after_any_deadline, tick_recomputes, tick_handles_expired, wake_up_makes_progress, one_deadline_per_connection, arm_replaces, removed_has_no_deadline, tick_without_rearm_drops_expired about TT/Model/QuicTimers.lean",
        trusted=["tokio's timer wheel under the paused clock (ms granularity); with a real clock timers fire late by the scheduling latency, "
                 "which the model's exact clock does not include",
                 "the TLS-handshake timeout is a tokio::time::timeout wrapper around TlsListener::listen and the acceptor: it is not "
                 "modelled, only observed on the live listener with a wall clock (a drop later than 2H + 1.5 s or earlier than H - 30 ms "
                 "is reported; a machine stalled for longer than that would be a false alarm, hence the second run before a failure is believed)",
                 "QUIC timers: what quiche's on_timeout does and which next timeout it asks for are inputs of the model; that the loop's "
                 "timer branch is enabled iff closest_deadline is Some, and sleeps until it, is read from the loop (two lines)",
                 "release of the sockets and tasks of an abandoned attempt is observed as the drop of the connector's future (scripted "
                 "connector) and as the close of the client's TCP connection (live listener); file descriptors are not counted"],
        assumptions=["a direction whose peer has already finished is closed after T (not 2T) of silence: within the stated bound",
                     "an attempt completing exactly at E counts as completed (tokio polls the inner future first)"],
    ),
    "C08": dict(
        retry_on_failure=True,
        suites=["c08"],
        judge=judge_c08,
        level="proof",
        rule="15 valid request heads (CONNECT authority-form, absolute-URI GET, origin-form POST, 32 headers, exactly 1024 bytes, random) x "
             "payloads {empty, 1, 40, 300 bytes} under: whole, 1-cuts (every position in thorough), cuts around the end of the head, "
             "byte-at-a-time, random 2-/3-cuts; payloads pipelined with the head that fill the 1 KiB head buffer (one byte short of it, "
             "exactly, one byte over, 1500, 3000, 9000 bytes) whole, cut around the end of the head and around byte 1024, random 2-4-cuts; near-miss invalid heads (bad version, 33 headers, endless head in 100-byte reads, ...) "
             "and truncated heads; every session runs the real Http1Codec over an in-memory transport, answers 200 and relays download "
             "bytes; a watchdog detects sessions that stop making progress (busy loop)"
             " Plus 32 CONNECT sessions whose payload (0, 10, 4096, 70000 bytes), end of stream and (in half of them) the drop of the "
             "sink reach the codec while it is blocked writing to a client that reads 16 or 64 bytes at a time over a 64- or 1000-byte "
             "transport and closes last: the client must get the complete payload and the end of stream, the session must end gracefully"
             " Plus 4 CONNECT sessions whose relay side is dropped without an orderly end while the client stays connected and silent: "
             "the session must end and the client must see its connection closed"
             " Relaying phase against TT/Model/H1Relay.lean: 200 (thorough 1500) sessions in which the client sends 1-5 payload segments and the peer writes and reads in a random script, ending with the peer's orderly end (3 in 5), the relay side dropped without one, or the client's end of stream: what the upload side was handed, what the client was sent and how the relaying listen() ended (graceful / failed / still running) are compared with the model's run over the same events"
             " Four of the valid heads end their lines with a bare LF (all lines, the last one only, the first one only, no header at all); the driver's concrete parser ends the head at its first empty line, CR LF or LF"
             " Three origin-form targets with a query (authority from Host); the recognised URI's path and query are compared with the target as the client wrote it"
             " The encoders (door encode_response_bytes / encode_request_bytes): 300 (thorough 2000) heads with 0-6 header lines over 7 names, names repeated: every line is written once, the lines of a name in their order, the head ends with one empty line",
        explanation="theorems head_segmentation_invariant, payload_exact, incomplete_head_waits, no_spin, head_bounded, oversize_rejected, eof_before_complete_head_closes, head_across_a_pause, "
                    "response_wellformed about TT/Model/H1.lean under the hypothesis PrefixConsistent(parser)"
                    "; relaying_goes_on, relayed_until_close, session_ends_with_either_side, abort_is_not_graceful, "
                    "upload_without_source_fails about the relaying loop (TT/Model/H1Relay.lean)",
        trusted=["httparse satisfies PrefixConsistent and agrees with 'head ends at its first empty line, lines ending in CR LF or LF' on the generated valid heads "
                 "(exercised on every prefix through the 1-cut and byte-wise runs)",
                 "tokio mpsc/Notify/select! semantics in the listen loop; download relaying ends when the client closes (by design)"],
        assumptions=["head.length <= 1024 for the invariance theorem: longer heads may be rejected depending on segmentation"],
    ),
    "C09": dict(
        retry_on_failure=True,
        suites=["c09", "c09live", "c09origin"],
        # the codec suites of the other properties, for their panics and hangs only (wrong answers are those properties' business)
        borrowed_suites={k: ["panic", "spin_or_hang", "hang", "no_progress", "loop_stalled", "listener_stopped_by_a_packet"] for k in ["c06", "c08", "c11", "c12", "c15"]},
        judge=judge_c09,
        level="proof",
        exhaustive=True,
        rule="every string of length <= 4 (thorough <= 5) over the alphabet {00,01,02,3a,3c,40,45,60,ff}, alone and appended to valid "
             "prefixes (length field, fixed header, complete record; ICMP type + quoted IPv4/IPv6 header with a hop-by-hop chain; TLS "
             "record/handshake/ClientHello prefixes; SOCKS5 selection/reply prefixes), presented to: the UDP stream decoder (two "
             "segmentations), the ICMP request decoder, skip_ipv4/ipv6_header, ICMP v4/v6 deserialize + responded_echo_request, "
             "extract_client_random, the SOCKS5 dialogue; random fragment soups as rules and credentials files through the real loader; "
             "all under catch_unwind, all answers also compared with the Lean models;"
             " ICMP / ICMPv6 error messages whose quoted datagram ends two bytes before ... twelve bytes after the end of its IP header "
             "(every IPv4 header length 5..15, protocols ICMP and UDP; IPv6 with no, one, two extension headers, a routing header, UDP)"
             " Plus every declared UDP record length 0..90 with enough bytes behind it, and the connection filter with every rule "
             "prefix length 0..4 x mask length 0..6 against client randoms of 0, 1, 2, 3 and 32 bytes."
             " Live part (suite c09live, no model): about 8500 (thorough 34000) datagrams to the real QUIC listener - every short and "
             "sampled longer prefix of a real client's Initial packets, single- and multi-byte mutations of their header region, "
             "hand-made long headers (7 versions incl. unsupported ones, all 4 types, connection-id lengths up to 255, token and length "
             "varints beyond the datagram), short headers with unknown ids, random datagrams, the address-validation token of a real second "
             "Initial cut to every length / extended / altered under fresh connection ids - and 180 (720) TCP connections with "
             "garbage, truncated, mutated or over-long first records, half of them abandoned; after every batch a fresh HTTP/3 session "
             "and a fresh TLS connection must still be served (a panic in a listener task would end Core::listen)"
             " Borrowed: the codec suites c06, c08, c11, c12, c15 of the other properties run here too, for panics, hangs and stalled loops only."
             " Hostile origins (suite c09origin): 900 (thorough 6000) origin byte streams of a plain-HTTP forwarding - more bytes than "
             "the Content-Length announces, bodies on 204 / 304 / HEAD / Content-Length: 0 responses, bytes after the last chunk, broken "
             "and overflowing chunk sizes, conflicting / negative / huge Content-Length, up to 200 interim responses, heads of up to 3000 "
             "lines that never end, non-HTTP bytes - x 4 segmentations x 4 client acceptance patterns x HTTP/1.1, 2, 3 clients through the "
             "real into_forwarded source / sink and the real DuplexPipe under virtual time, each run watched by a 20 s wall-clock watchdog "
             "(a stream whose input is re-offered forever keeps the idle timeout from firing): no panic, no busy loop, never more body "
             "bytes delivered than the origin produced; the over-long and bodiless classes are also answered by the C17 model"
             " Whole ICMP request frames delivered in pieces (cut after 1, 10, 22 bytes) with every tail behind them and another frame after that. Every parser case is announced to the progress watchdog (40 s): a busy loop ends the suite with that case named"
             " Malformed ICMP packets from the network (suite c11, borrowed): 9 ICMPv4 and 10 ICMPv6 packets that pass the kernel's filter and the endpoint's parser refuses (unassigned codes, messages shorter than their minimum, echo replies cut short) sent to the loopback addresses while the real forwarder listens on raw sockets; after each the listener must still run and a ping must still be answered"
             " The live ICMP waiter-table histories (suite c11) are named for the progress watchdog (stall limit 90 s): a listener that wedges on an undeliverable reply stops the history that wedged it"
             " A panic of the SOCKS5 UDP association on a relayed datagram is reported with the datagrams of the exchange (suite c15, borrowed)",
        explanation="theorems udp_stream_no_panic, udp_step_safe, icmp_request_decoder_safe, ip_header_skipping_safe, icmp_packets_safe, "
                    "client_hello_prebuffer_bounded, h1_head_bounded_and_progress, socks_udp_datagram_safe, socks_truncated_reply_is_error, "
                    "rules_malformed_safe, forwarded_sink_never_spins / _consumes / _failure_is_final (every write of the plain-HTTP response "
                    "path strictly decreases unsent bytes + acceptance-script entries in every reachable state) "
                    "(TT/Props/C09.lean, built on the C04/C06/C08/C11/C12/C15 theorems and TT/Lemmas/Fwd.lean)",
        trusted=["third-party parsers run as black boxes under catch_unwind only: httparse, tls-parser, toml_edit, ipnet, hex, base64",
                 "the origin-response parser of http_forwarded_stream.rs is modelled under C17 (TT/Model/Fwd.lean); here its hostile-input classes are "
                 "run for panics / busy loops / amplification, and only the well-framed-but-over-long ones are compared with that model",
                 "QUIC packet parsing and the QUIC / TLS state machines are quiche's and BoringSSL's: the live suite only shows that the "
                 "endpoint's own handling around them (header dispatch, retry tokens, version negotiation, connection table) survives what "
                 "it was sent",
                 "arithmetic overflow: models use unbounded naturals except where the code's width matters (u8 header length, u32 checksum sum: proved not to wrap)"],
        assumptions=[],
    ),
    "C01": dict(
        retry_on_failure=True,
        suites=["c01", "c01h3"],
        # the plain-HTTP forwarding suite of C17, for request bytes that leave beyond the authorised request
        borrowed_suites={"c17": []},
        judge=judge_c01,
        level="proof",
        rule='sessions over the real Http1Codec (1 request) and Http2Codec (1-3, thorough 1-5 concurrent streams) on in-memory transports through the real Core::on_tunnel_request / Tunnel / HttpDownstream with a scripted forwarder injected at Core::make_forwarder: authenticator {none, registry of 2 clients, scripted accepting one token and one SNI}, SNI credentials {none, accepted, rejected}, methods {CONNECT, GET, POST, OPTIONS, HEAD}, 19 authorities (reserved names, look-alikes differing by case / suffix / port, literals v4/v6 with and without port, names with and without port, bad port), 13 Proxy-Authorization forms (absent, two valid, wrong password / user, Bearer, lower-case scheme, no space, bad base64, non-UTF-8, empty, empty token, trailing space), 13 connect outcomes (ok, refused, unreachable, timed out, 310, 311, resolver failure, EMFILE, other, upstream auth failure, completion at D-1 / D / D+1 ms under the paused clock), UDP/ICMP multiplexer failures; per request status, X-Warning code, challenge, X-Adguard-Vpn-Error and the multiset of forwarder calls are compared with the Lean session model'
             ' HTTP/3 part (suite c01h3, wall clock): 150 (thorough 1200) sessions of 1-3 concurrent request streams through the real Core::listen on a loopback UDP port (QUIC multiplexer, HTTP/3 codec, Tunnel, HttpDownstream; quiche client of the harness; SNI credentials travel as <credentials>.localhost in the QUIC ClientHello), same authenticators, authorities, Proxy-Authorization forms and immediate connect outcomes, same query format and model'
             " The registry has a client with a mixed-case name (Alice / S3cret); the Proxy-Authorization pool has the pair as configured and re-cased / padded spellings of it and of user:pass (alice, ALICE, s3cret, User, 'pass ')"
             " Borrowed: the plain-HTTP forwarding suite of C17 (c17), for request bytes that leave the endpoint beyond the authorised request (a third of the generated requests with a declared length carry a pipelined next request behind their body)"
             " One session in three carries an end-to-end Authorization header on every request (valid credentials of a configured client, a Bearer token, other Basic credentials): it never passes the gate and never spoils a connection accepted by its SNI"
             " One session in four carries a header that only begins like a ping marker (x-ping: 10 / 1.0 / 11 / `1, 1`; sec-fetch-mode: navigate-nested, ...): it is a tunnel request like any other and goes through the gate",
        explanation="theorems gate_sound, policy_authenticated_only_if_accepted, registry_accepts_iff, reject_is_407_no_egress, "
                    "egress_only_after_pass, registry_no_egress_without_credentials, decision_history_independent, configured_client_passes, wrong_token_rejected_on_authenticated_connection about TT/Model/Dispatch.lean",
        trusted=["HTTP/3 is driven live (a sample of sessions over real QUIC on loopback): quiche on both sides is trusted, and timing there is the wall clock",
                 "header parsing by httparse / h2 / http crates (first Proxy-Authorization value, OWS trimming on HTTP/1.1)",
                 "a scripted authenticator stands for 'the configured authenticator'; the registry is the real RegistryBasedAuthenticator"],
        assumptions=[],
    ),
    "C10": dict(
        retry_on_failure=True,
        suites=["c10", "c10h3", "c10socks"],
        judge=judge_c10,
        level="proof",
        rule='sessions over the real Http1Codec (1 request) and Http2Codec (1-3, thorough 1-5 concurrent streams) on in-memory transports through the real Core::on_tunnel_request / Tunnel / HttpDownstream with a scripted forwarder injected at Core::make_forwarder: authenticator {none, registry of 2 clients, scripted accepting one token and one SNI}, SNI credentials {none, accepted, rejected}, methods {CONNECT, GET, POST, OPTIONS, HEAD}, 19 authorities (reserved names, look-alikes differing by case / suffix / port, literals v4/v6 with and without port, names with and without port, bad port), 13 Proxy-Authorization forms (absent, two valid, wrong password / user, Bearer, lower-case scheme, no space, bad base64, non-UTF-8, empty, empty token, trailing space), 13 connect outcomes (ok, refused, unreachable, timed out, 310, 311, resolver failure, EMFILE, other, upstream auth failure, completion at D-1 / D / D+1 ms under the paused clock), UDP/ICMP multiplexer failures; per request status, X-Warning code, challenge, X-Adguard-Vpn-Error and the multiset of forwarder calls are compared with the Lean session model'
             " Plus 112 CONNECTs through the real direct forwarder (outbound connects stubbed): 19 address literals (loopback other than "
             "127.0.0.1, private, link-local, CGNAT edges, ULA, documentation, IPv4-mapped, multicast, global) and 9 scripted resolver "
             "answers x both policies x IPv6 on/off, refusal code and X-Adguard-Vpn-Error compared with the C03 decision carried "
             "through the generated tables."
             " Plus 90 CONNECTs (names, IPv4 and IPv6 literals, HTTP/1.1 and HTTP/2) through the real SOCKS5 forwarder (suite c10socks, real "
             "sockets) whose loopback upstream answers the request with every reply code 0..9, with REP bytes that are none (0x10, 0x7f, "
             "0xff), with a reply of version 4, or closes: exactly one final response, status and warning compared with socksOutcome."
             " HTTP/3 part (suite c10h3, wall clock): 150 (thorough 1200) sessions of 1-3 concurrent request streams through the real Core::listen on a loopback UDP port (QUIC multiplexer, HTTP/3 codec, Tunnel, HttpDownstream; quiche client of the harness; SNI credentials travel as <credentials>.localhost in the QUIC ClientHello), same authenticators, authorities, Proxy-Authorization forms and immediate connect outcomes, same query format and model"
             " HTTP/1.1 CONNECTs are sent authority-form, origin-form (`CONNECT /` with the authority in Host) and absolute-form: the destination is the same authority - without a port it is refused whatever the form"
             " OS errors of the outbound connect: 11 error numbers (ENETUNREACH, EHOSTUNREACH, EHOSTDOWN, ENETDOWN, ETIMEDOUT, ECONNREFUSED, ...) x CONNECT to an IPv4 and an IPv6 literal and a plain-HTTP GET through the real direct forwarder, compared with connErrOfErrno (whose lists the translator reads from io_to_connection_error; theorem os_error_codes)"
             " User-Agent of the session: absent, ASCII, UTF-8 text, bytes that are no text (the value is handed to the forwarder when it is text): the answer does not depend on it; sessions with near-miss ping markers as for C01",
        explanation="os_error_codes (lists regenerated from io_to_connection_error); theorems exactly_one_final, failed_connect_never_200, at_most_one_connect_attempt, codes_documented, outcome_codes, socks_upstream_codes, connect_result, reserved_never_resolved, "
                    "lookalikes_are_hosts, connect_without_port_refused, health_and_mux_accepted about TT/Model/Dispatch.lean with "
                    "statusOf / warnOf / reserved names regenerated from http_downstream.rs on every run",
        trusted=["authority parsing (http::uri::Authority::port_u16 / host, SocketAddr::from_str): the parsed view is a model input",
                 "HTTP/3 is driven live with immediate connect outcomes only (no establishment-timeout boundary cases: wall clock); "
                 "non-CONNECT requests that connect successfully are answered by the origin (C17)"],
        assumptions=["_icmp with ICMP forwarding not configured, and a multiplexer that fails to be created, are answered 200 and then the "
                     "stream is dropped: the model follows the code; the property only fixes the accepted case"],
    ),
    "C07": dict(
        retry_on_failure=True,
        suites=["c07", "c07socks", "c07h3"],
        judge=judge_c07,
        level="proof",
        rule="7 directed and 150 (thorough 1500) random histories of 3-14 operations {client datagram on flow i (6 lengths up to 9000), "
             "server reply on flow i (also after the flow was released), clock advance (13 amounts around timeout/4, timeout, "
             "timeout+timeout/4), close} over 10 flows = 2 client sources x {2 live loopback servers, a port-53 server, a dead port, "
             "a destination whose connect() fails}, run through the real udp_pipe::DuplexPipe wired to the real direct forwarder "
             "multiplexer under tokio's paused clock; after every operation: datagrams seen by each server, datagrams handed to the "
             "client with their labels, outbound_udp_sockets, pipe table size, reported byte counts, whether exchange() returned, and "
             "(after a timer period and at close) the process's open descriptors"
             " SOCKS5 variant (suite c07socks): 4 directed and 100 (thorough 800) of the same kind of histories through the real "
             "udp_pipe::DuplexPipe wired to the real SOCKS5 forwarder multiplexer, with a SOCKS5 proxy (UDP ASSOCIATE) of the harness "
             "between it and the servers; compared with TT/Model/UdpSocks.lean (one association per client source, released with "
             "its last flow)"
             " Live over HTTP/3 (suite c07h3, wall clock, no model): CONNECT _udp2 through the real QUIC listener; 7 flows (2 client "
             "sources x 3 loopback servers, one dead port), 4 datagrams each (1-3000 bytes) written in 777-byte pieces; every server must "
             "see, per source socket, exactly one flow's payload sequence, and one socket per flow; the servers' replies must come back as "
             "6.4 records labelled (destination, source) of their flow, unaltered, never twice, all of them when the client's window is "
             "large (with a 6000-byte window the dropping sink may omit whole datagrams); outbound_udp_sockets follows the flows and "
             "returns to zero; a dead-port flow does not stop the others"
             " One reply in five is 0, 1 or 2 bytes long (an empty datagram is a datagram: relayed, and the flow stays)"
             " One live server is on [::1] and every second client source label is IPv6 (direct forwarder; the SOCKS5 relay of the harness is IPv4-only)"
             " One reply in twelve is 65000 or 65497 bytes long"
             " On the direct path replies of 65498..65507 bytes (up to the maximal IPv4 UDP payload) as well: ten directed histories and half of the large random replies"
             " A destination that restarts (its port closes, the client sends, it re-binds and sends to the flow): the error the flow's socket reports on receive ends the flow in the table, the socket and the gauge alike, and the client's next datagram starts a fresh flow that reaches the destination"
             " Replies the client's sink drops (door drop_next): on a plain-DNS flow whose only query is answered by a dropped reply the flow is released all the same, nothing is counted as relayed, and a late datagram from the server is not relayed; on an ordinary flow the flow stays and the next reply is delivered",
        explanation="theorems direct_reply_received_whole, socks_relay_datagram_received_whole (receive buffers read from the source by the translator), sent_to_own_destination, datagram_step_output, reply_labelled_with_own_flow, reply_delivered_on_live_flow, "
                    "tables_coupled, sockets_from_history, idle_flow_released, tick_expires_all_idle, fresh_flow_survives_advance, "
                    "tick_period, dns_flow_released_when_answered, dns_flow_kept_while_pending, dns_query_counts, "
                    "datagram_starts_fresh_flow, other_flows_undisturbed, only_close_terminates, unconnectable_leaves_nothing, "
                    "socket_error_releases_flow, close_releases_everything, down_bytes_are_delivered_bytes about TT/Model/UdpFlows.lean",
        trusted=["Linux loopback UDP: a datagram sent is in the receiver's queue when send() returns; a send to a dead port poisons the "
                 "socket with ECONNREFUSED which tokio reports on the next send (not through readable()), as modelled by `poisoned`",
                 "tokio paused clock: timeout(T/4) fires when the clock reaches its deadline, once per advance",
                 "operations are atomic in the model: a timer tick cancelling exchange_once() in the middle of a datagram (between the "
                 "table update and the socket send) is a runtime interleaving the paused clock cannot exhibit; read from the code: the "
                 "only await between them is UdpSocket::send",
                 "SOCKS5 variant: the proxy is the harness's own (threads, loopback); descriptors are not compared there; the "
                 "theorems about it (TT/Props/C07.lean, namespace TT.UdpSocks) are fewer than for the direct forwarder"],
        assumptions=["a stale reply could reach a new socket only if the kernel reused the ephemeral port within the history; ignored"],
    ),
    "C16": dict(
        retry_on_failure=True,
        suites=["c16", "c16h3", "c07socks", "c07"],
        judge=judge_c16,
        level="proof",
        rule="17 directed and 120 (thorough 1200) random histories of 4-16 events {open an HTTP/1.1 or HTTP/2 session, client drops a "
             "session, CONNECT to a listening origin / a refusing port / a port that never answers / the UDP multiplexer, 1-70000 bytes "
             "up or down on a tunnel, client ends / resets its stream, origin closes, UDP datagram / reply on 10 flows, clock advance "
             "(1 ms, around the connect timeout, around the UDP timeout, 3 x TCP idle timeout)} through real tunnel sessions (in-memory "
             "transports, real direct forwarder, loopback TCP and UDP servers) under tokio's paused clock; after every event the five "
             "series are read from the text Metrics::collect produces; for a third of the histories the real metrics listener is bound "
             "to a loopback port and GET /metrics, /health-check and another path are issued over TCP at the end; one run lists the "
             "exported families, types and label names/values against METRICS.md"
             " When raw sockets are permitted the histories also open ICMP multiplexer tunnels and send echo requests to "
             "127.0.0.1 (answered by the kernel: counted both ways with their on-the-wire length) and to an IPv6 peer with IPv6 "
             "switched off (dropped by the forwarder: counted nowhere); origin half-closes are part of the histories."
             " Live HTTP/3 part (suite c16h3, wall clock): the real Core::listen with its metrics listener; 4 directed and 8 (thorough "
             "40) random histories in the same operation language - open an HTTP/3 session, close it (also with tunnels open), CONNECT to "
             "a loopback origin or a refusing port, 1-90000 bytes up or down, client FIN / client reset / origin close in any order - "
             "executed by a quiche client; after every operation the series of GET /metrics, once stable, are compared with the model "
             "(Proto.h3: multiplexed like HTTP/2, own cells, and a vanished client's open tunnels are torn down at once); between "
             "histories all gauges must return to zero within 3 s; /health-check must answer 200; two clients vanish silently with a tunnel "
             "open (QUIC idle timeout 2 s from the client's transport parameters; once the origin sends 1000 bytes a second later): the "
             "gauges must be back at zero within 7 s."
             " The SOCKS5 forwarder's multiplexer histories of C07 (suite c07socks: outbound_udp_sockets = one per association, "
             "released with the association's last flow) are run here too"
             " Before the listener is queried, two connections that send nothing and one that sends half a request line are opened to it and kept: the scrape, the health check and the unknown path must still be answered (2 s)"
             " The direct-forwarder flow suite of C07 (c07, with the restarting destination) runs here too"
             " Ten bursts of three datagrams towards an HTTP/1.1 _udp2 client (its datagram sink holds one, the rest is dropped): the peer -> client counter of http1 equals the payload bytes of the 6.4 records the client was actually sent"
             " The same bursts with 30 KB datagrams towards an HTTP/2 client (the stream's send window cannot take three at once)"
             " The real listener is also asked for /metrics?format=prometheus and /health-check?probe=1: a query string does not change the resource (200 both)",
        explanation="theorems cells_equal_objects, gauges_nonneg, all_clients_gone_sessions_udp_zero, all_clients_gone_everything_zero, "
                    "refused_connect_balanced, hanging_connect_released_by_timeout, counters_monotone, counters_never_decrease, up_adds_exactly, "
                    "down_adds_exactly, no_relay_no_bytes, half_closed_tunnel_released_when_both_ended, icmp_counts_only_relayed, udp_bytes_follow_multiplexer, documented_series, documented_paths about "
                    "TT/Model/Metrics.lean (which embeds TT/Model/UdpFlows.lean) and the table regenerated from METRICS.md",
        trusted=["which exported series the client->peer bytes feed is calibrated at the start of every run (3 bytes up, 5 down) and "
                 "then required to be the same everywhere: the property does not fix the orientation (the code feeds "
                 "outbound_traffic_bytes with uploads, METRICS.md and the HELP strings say inbound = uploaded; recorded in DESIGN.md)",
                 "TCP idle expiry is exercised only with advances of 3 x timeout (its exact timing is C14's subject); connect-timeout "
                 "and UDP expiry are exact",
                 "client_sessions counts tunnel sessions (Core::on_tunnel_request); ping / speedtest / reverse-proxy connections hold "
                 "no guard in the code and are not driven here",
                 "HTTP/3 histories run on the wall clock: 'quiescent' is read as 'two equal scrapes 40 ms apart, at most 2 s after the "
                 "operation', and they contain no clock advances (timeouts of HTTP/3 tunnels are not exercised); the SOCKS5 forwarder's TCP path is not driven "
                 "(its UDP multiplexer is, by the SOCKS5 suite shared with C07); ICMP traffic only where raw sockets are permitted",
                 "prometheus crate text encoding; Linux loopback TCP (origin sockets use TCP_NODELAY) and a full accept queue to make a "
                 "connect hang"],
        assumptions=["an origin connection whose client vanished lingers until the endpoint next writes to the client or the tunnel "
                     "idles out (HTTP/2: a connection-level I/O error is read as end of stream): the model follows the code, the "
                     "zero-when-gone theorem is stated after the timeouts"],
    ),
    "C17": dict(
        retry_on_failure=True,
        known_oracle_kinds=["unframed-request-body"],
        suites=["c17", "c17h3", "c17restart"],
        judge=judge_c17,
        level="proof",
        rule="9 directed and 2500 (thorough 20000) generated exchanges through the real into_forwarded source and sink driven by the real "
             "DuplexPipe: client speaking HTTP/1.0, 1.1, 2 or 3; 7 methods; request bodies with and without Content-Length in 3 "
             "segmentations; origin responses with Content-Length, chunked (random chunk sizes, extensions, upper/lower-case hex), "
             "close-delimited and bodiless (HEAD, 204, 304) framing, 0-2 interim 1xx heads, hop-by-hop and ordinary headers; the origin "
             "byte stream whole, byte by byte, in 1-3 byte and in 1-40 byte segments; the client-side sink accepting everything, 0-2 "
             "bytes, 1-8 bytes or 0/1/1000 bytes per write; the origin-side sink throttled too; compared: bytes the origin receives, "
             "interim responses, response head (status, end-of-stream flag, headers), body bytes delivered, where end of stream fell. "
             "Half as many mutated (malformed) origin streams are run for panics only. 16 (60) non-CONNECT requests go through real "
             "HTTP/1.1 and HTTP/2 sessions and the real direct forwarder to a loopback origin (bodies up to 40000 bytes, chunked or "
             "Content-Length, with and without 100 Continue, 3 segmentations) and are compared with an independent de-chunker."
             " HTTP/3 (suite c17h3, wall clock): 24 (thorough 120) GET / POST requests through the real QUIC listener and direct forwarder to "
             "a loopback origin: Content-Length, chunked and close-delimited responses of 0-40000 bytes after 0-2 interim heads, in 3 "
             "segmentations, a client that takes everything or 300 bytes per read; checked: the request the origin saw (line, Host, end-to-"
             "end headers, no Proxy-Authorization, body), status, X-A header, no hop-by-hop header, exact body, clean end of the stream"
             " Response heads with 31, 32, 33, 63, 64, 65, 100, 127, 128, 129, 200 header lines (whole and cut in the middle, client accepting 3 bytes first): the model refuses above `responseHeaderCapacity` = 128 (constants regenerated from the code), the implementation must answer and not spin (every scripted run is watched)"
             " A third of the generated requests repeat a header name on two or three lines (all must be forwarded)"
             " Responses carry Connection headers that nominate other fields of the response (X-Thing, SERVER, Set-Cookie, Content-Type, Upgrade) in their own spelling, ahead of those fields and behind them; a third of the requests with a declared length have more body bytes than declared (theorem connection_nominated_headers_removed)"
             " Timer restarts (suite c17restart): POSTs over HTTP/1.1, 2, 3 whose body pauses for 4/3 ... 5/2 of the idle timeout while the origin sends an interim response every T/2: the pipe's loops are restarted under the pending read of the body, and the origin must still get all of it"
             " The flow-control credit handed to the client's request-body source (consume calls logged by the scripted source) is part of every compared answer: never ahead of what was read from it, and in the end exactly the body bytes the origin accepted (theorem request_credit_exact) - a third of the cases have an origin that accepts the request in pieces of 0-20 bytes"
             " Response direction across timer restarts (suite c17restart): 5 shapes of a POST whose body trickles in (one byte every T/10) while the client takes 0-25 of the 26 response body bytes and then nothing for 1.2-3.5 T: the whole body must still be delivered"
             " Stalled forwarded downloads (see C14): 5 shapes over HTTP/1.1, 2, 3, plain and chunked bodies",
        explanation="request_credit_exact, head_in_pieces_not_credited, request_credit_schedule_independent (flow-control credit of the request body under every acceptance schedule); theorems segmentation_and_backpressure_independent, independent_after_origin_close, delivery_monotone, "
                    "chunked_body_delivered_exactly, content_length_body_delivered_exactly, close_delimited_body_delivered_exactly, "
                    "bodiless_response_ends_with_head, head_204_304_are_bodiless, interim_response_is_transparent, "
                    "hop_by_hop_headers_removed, forwarded_headers_are_origin_headers, end_to_end_headers_kept, request_line_preserved, "
                    "request_headers_preserved, request_body_content_length, request_content_length_respected about TT/Model/Fwd.lean",
        trusted=["httparse (response head, chunk size line) as re-written in the model for the generated grammar: CRLF line ends, "
                 "'Name: value' headers, hex sizes with optional ';ext'; compared with the real parser through the whole sink on every run",
                 "http crate URI parsing: path-and-query and authority are model inputs",
                 "the real HTTP/1.1 / HTTP/2 / HTTP/3 codecs behind the responder are exercised by the live runs only (samples: 16 + 24 "
                 "exchanges per quick run through real sessions and a loopback origin; the HTTP/3 ones over the real QUIC listener, wall clock)",
                 "headers named by a Connection header are dropped only when they follow it (as the code does): the judge asserts the "
                 "fixed hop-by-hop set"],
        assumptions=["an origin that sends bytes beyond Content-Length or after the terminating chunk is outside the property; the "
                     "client has its complete response by then and the model follows the code (the pipe ends with an error)"],
    ),
    "C19": dict(
        retry_on_failure=True,
        endpoint_bin=True,
        suites=["c19", "c19live", "c19bin"],
        # the HTTP/1.1 sessions of C08 that end while a chunk is still queued towards a slow client: "flush and close"
        borrowed_suites={"c08": ["download_not_finished", "download_truncated", "spin_or_hang"]},
        judge=judge_c19,
        level="proof",
        exhaustive=True,
        rule="every sequence of length 6 (thorough 7) over {register (at most 3), wait-poll i, submit, finish i, completion-poll} "
             "executed on the real Shutdown with futures polled by hand (noop waker), plus 2000 (20000) random histories of length "
             "8-20; live sessions: 1 and 3 idle HTTP/1.1 connections / HTTP/2 sessions with an open stream through the real Tunnel::listen "
             "under the paused clock: they must stay up before the submission, wind down after it, and completion() must return; and one "
             "idle participant of every kind (the listeners = Core::listen itself, tunnel h1/h2, ping h1/h2, speedtest h1/h2, reverse proxy h1, the metrics listener, none) "
             "through its real handler: completion() must stay pending while it is alive, it must wind down on submit, and completion() "
             "must then return."
             " Live (suite c19live, wall clock): 2 (thorough 6) rounds on the real Core::listen (TCP + QUIC) with 1-3 HTTP/3 sessions "
             "(every other one with an open CONNECT tunnel) and a TCP connection that has not sent its ClientHello: nothing is closed "
             "during 300 ms before the submission; after it every QUIC connection must be closed by the endpoint within 5 s, "
             "completion() must return within 10 s, and a new session must not be served afterwards."
             " Binary (suite c19bin): the real endpoint process with an HTTP/3 session, an idle TLS connection and a silent TCP "
             "connection is sent SIGINT: it must exit with code 0 within 10 s and the HTTP/3 client must see its connection closed"
             " HTTP/2 with a request in flight: a CONNECT whose outbound attempt takes 5 s is pending when the shutdown is submitted; a second request is handed to the client's connection 0..4 scheduler turns before, or 0..2 after, the submission (in one of these it is on the wire but unread when the wind-down starts), or not at all: the first request must be answered 200 when its attempt completes, the session must not end before, and completion() follows once the streams have ended"
             " Borrowed: the HTTP/1.1 sessions of C08 that end while a chunk is queued towards a slow client (flush and close: the client must get all of it)"
             " After completion() of the metrics-listener participant nothing accepts on the metrics address any more"
             " A speedtest session in the middle of a 100 MB download to a client that has stopped reading: after the submission completion() must stay pending while the session's wind-down cannot finish (500 ms), and come once the client is gone; for every participant kind completion() is also awaited right after the submission and must not return while the participant's task is unfinished",
        explanation="theorems registered_before_submit_observes, waiting_participant_is_woken, no_submit_no_notification, "
                    "completion_iff_all_finished, completion_stable, late_registration_gets_no_guard, completion_waits_for_unfinished about TT/Model/Shutdown.lean",
        trusted=["tokio broadcast (capacity 1, lag) and mpsc close semantics as modelled",
                 "process exit in endpoint/src/main.rs and the std Mutex held across completion().await (a registration arriving while "
                 "completion() is awaited blocks its thread) are not modelled",
                 "which branch a tokio::select! takes when several are ready is outside the model (that is where the HTTP/3 defect of "
                 "section 6 was); the live suite samples it"],
        assumptions=[],
    ),
    "C18": dict(
        retry_on_failure=True,
        suites=["c18", "c18h3"],
        judge=judge_c18,
        level="proof",
        rule="HttpDemux::select on 4 configurations (speedtest on/off, reverse proxy with mask /rp, /, none) x 3 protocols x {GET, POST, "
             "CONNECT} x 13 paths around /speed, /rp and the documented file names x 6 marker/Upgrade header combinations; speedtest "
             "requests through real HTTP/1.1 and HTTP/2 sessions (N in {0,1,2,3,100,101,2^32,+2,02,-1,empty,1.5,1e1}, malformed paths, "
             "uploads with Content-Length at 0, 1, 5, 70000, 120 MiB, 120 MiB + 1, +7, x, empty and more/less data than announced, other "
             "methods), body length counted by the client under a paused clock; ping markers over both protocols; a reverse-proxy "
             "WebSocket-style exchange against a real loopback origin with both values of the egress policy; an authenticator is "
             "configured and no request carries credentials"
             " The reverse-proxy exchange outlives the session poll timeout (300 ms; late origin bytes at 900 ms), through a tunnel "
             "host's path mask and on a connection of the reverse-proxy host itself."
             " HTTP/3 (suite c18h3, wall clock): the real QUIC listener with an authenticator configured and ping / speedtest / "
             "reverse-proxy host entries, for both values of the egress policy: ping by marker and on the ping host (200, no body, "
             "stream ended), the speedtest table on the tunnel host's /speed path and on the speedtest host (status and exact body "
             "length compared with the model; 17 and 100 MiB in the thorough tier), reverse proxy through the path mask and on the "
             "reverse-proxy host (the origin must see the request line, X-Original-Protocol: http3 and the end-to-end header; the client "
             "the origin's status, header and body)"
             " The reverse-proxy clients send an X-Original-Protocol header of their own naming another protocol: the origin must see exactly one, the endpoint's"
             " The origins write their response heads in four or five pieces 15 ms apart (inside the status line, inside the header block, before the final CRLF)",
        explanation="theorems demux_precedence, disabled_channels_never_selected, original_protocol_not_forgeable, download_never_exceeds, download_accept_iff, download_exact, download_completes, upload_accept_iff, else_400, "
                    "post_other_path_400, upload_done, upload_counts, x_original_protocol_present about TT/Model/Services.lean",
        trusted=["Rust's u32 FromStr as modelled by parseU32 (optional '+', digits, range)", "http crate Uri::path()",
                 "the reverse-proxy destination is settings.reverse_proxy.server_address by construction (read from reverse_proxy.rs, "
                 "exercised by the loopback-origin runs, HTTP/3 included)",
                 "100 MiB downloads are run in the thorough tier only"],
        assumptions=["'/+5mb.bin' and '/05mb.bin' are accepted as 5 MiB (Rust integer syntax): not asserted either way"],
    ),
    "C20": dict(
        suites=["c20"],
        judge=judge_c20,
        level="proof",
        rule="(a) every logging call and every format! of lib/src (tests and the verification door excluded) is re-extracted with the "
             "expressions it prints and classified by the taint rules of tools/extract.py; the Lean theorem all_log_sites_clean is "
             "re-decided over that table; (b) scrub_request / scrub_sni on 2000 random header lists and 10 SNIs versus the model; "
             "(c) ~435 scenarios at trace level with a capturing logger: every combination of 3 SNI-credential situations x 7 "
             "credential header sets (valid, wrong, Bearer, raw, non-ASCII, + Authorization and Cookie) x 10 request kinds (health, UDP, "
             "ICMP, wrong method, connect ok / no port / refused / policy, GET, POST) x {HTTP/1.1, HTTP/2}, the connection-meta and "
             "refused-SNI lines, ping / speedtest / bad speedtest / upload and a reverse-proxy exchange with secrets in the request; "
             "every captured line is searched for 13 canaries (raw values, base64 tokens, SNI labels, the configured password); "
             "(d) the same over HTTP/3: 21 connections (3 SNI-credential situations x 7 header sets) to the real QUIC listener, each "
             "carrying the 10 request kinds and ping / speedtest / reverse-proxy requests as concurrent streams, the QUIC multiplexer's "
             "and quiche's own log lines included in the search, plus one request per connection that the endpoint rejects while building it "
             "(secret-bearing headers under invalid field names)"
             " Reverse-proxy requests (path mask + Upgrade) on connections that authenticated by SNI (accepted / rejected credentials / none), without a Host header, with one, with an absolute target"
             " Refused SNIs have the credentials label in front of one, two and three further labels (<creds>.unknownhost, <creds>.localhos, ...)"
             " Plain-HTTP requests whose origin is reached (GET / POST, forwarded with Authorization and Cookie) are among the targets; the log-site scan also treats a request in serialised form (serialized_request, request_bytes ...) as secret-bearing"
             " Failed TLS handshakes over TCP with credential SNIs on the live endpoint (the client stalls until the handshake timeout, closes, sends garbage, sends half a hello). The capture logger keeps what the endpoint's own loggers would write: their filter is compared with the model at every maximum x level x 11 targets"
             " What the two loggers write through log() (one marked record per maximum x level x 5 targets through the real file logger and the real stdout logger, stdout pointed at a scratch file) is compared with the filter model",
        explanation="theorems scrub_request_hides (non-interference), scrubbed_values_are_placeholders, scrub_keeps_other_headers, "
                    "scrub_adds_nothing, scrub_sni_hides_label, meta_debug_hides_creds about TT/Model/Scrub.lean; all_log_sites_clean over the "
                    "regenerated TT/Gen/LogSites.lean; secret_value_absent (a secret sent only in sensitive headers occurs nowhere in the scrubbed list), scrub_sni_single_label; tls_library_traces_never_logged, other_records_follow_the_level about the filter of the endpoint's loggers",
        trusted=["the taint rules of tools/extract.py (which expressions carry secrets, which wrappers make them safe, per-file "
                 "exceptions) - whole-program absence of leaks rests on them plus the dynamic search, not on a theorem about the code",
                 "the SOCKS5 path is covered by the site table only, not by scenarios",
                 "the `http` crate prints header maps through Debug as the scenarios observe",
                 "records of other dependencies (quiche, h2, tokio, ...) are searched by the scenarios only; of the TLS library's records only the trace level is filtered - its debug records, as observed, name suites and ALPN, not the server name"],
        assumptions=["a first label of an SNI that designates no host is scrubbed as potential credentials"],
    ),
}


# sanity: a text meant for `rule` must not end up in another field (the evidence schema has a closed set of levels)
for _k, _v in PROPS.items():
    assert _v.get("level") in ("exploration", "fault_enumeration", "model_checking", "proof", "translation_validation", "other"), (_k, _v.get("level"))
