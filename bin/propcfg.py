"""Per-property configuration of bin/check: harness suites, property oracle (judge) for
disagreements, evidence texts."""
import re


def parse_intervals(s):
    if s == "-" or not s:
        return []
    out = []
    for part in s.split(","):
        a, b = part.split("-")
        out.append((int(a), int(b)))
    return out


def first_diff(a, b):
    """smallest n contained in exactly one of two interval lists"""
    pts = sorted({x for (lo, hi) in a + b for x in (lo, hi, hi + 1)})

    def inside(l, n):
        return any(lo <= n <= hi for lo, hi in l)

    for n in pts:
        if inside(a, n) != inside(b, n):
            return n
    return None


def judge_c03(d):
    """Is the implementation's answer a violation of C03 (not merely different from the model)?"""
    q, impl, model = d["query"], d["impl"], d["model"]
    t = q.split()
    try:
        if t[1] in ("v4table", "v6mappedtable"):
            # the property fixes the blocked set of IPv4 (and IPv4-mapped) addresses completely
            n = first_diff(parse_intervals(impl), parse_intervals(model))
            if n is not None:
                kind = "IPv4" if t[1] == "v4table" else "IPv4-mapped ::ffff:"
                return "%s address %d.%d.%d.%d is classified %s by the implementation" % (
                    kind, n >> 24, (n >> 16) & 255, (n >> 8) & 255, n & 255,
                    "non-global (refused)" if any(lo <= n <= hi for lo, hi in parse_intervals(impl)) else "global (connectable)")
        if t[1] in ("v6sweep0", "v6sweep1"):
            a, b = parse_intervals(impl), parse_intervals(model)
            pts = sorted({x for (lo, hi) in a + b for x in (lo, hi, hi + 1) if x < 65536})
            for n in pts:
                ia = any(lo <= n <= hi for lo, hi in a)
                ib = any(lo <= n <= hi for lo, hi in b)
                if ia != ib:
                    rest = [int(x) for x in t[2:]]
                    s0 = n if t[1] == "v6sweep0" else rest[0]
                    if (s0 & 0xff00) == 0xff00:
                        continue  # multicast: outside the property (unicast destinations)
                    segs = [n] + rest if t[1] == "v6sweep0" else [rest[0], n] + rest[1:]
                    return "IPv6 unicast address %s classified %s by the implementation" % (
                        ":".join("%x" % s for s in segs), "non-global" if ia else "global")
            return None
        if t[1] == "connect":
            allow = t[2] == "1"
            if impl.startswith("connect") and model in ("loopback", "nonroutable") and not allow:
                return "connection attempt to a destination the policy must refuse: " + impl
            if model.startswith("connect") and impl in ("loopback", "nonroutable"):
                return "a routable destination (or any destination with the policy off) was refused: model " + model
            if impl.startswith("connect") and model.startswith("connect") and impl != model and not allow:
                return "connected to %s, not to the first suitable answer %s" % (impl, model)
            if impl.startswith("attempts="):
                return "number of connection attempts != 1: " + impl
    except Exception as e:  # malformed answer: undecided
        return None
    return None


PROPS = {
    "C03": dict(
        suites=["c03"],
        judge=judge_c03,
        level="proof",
        exhaustive=False,
        rule="correspondence: is_global_ip evaluated on all 2^32 IPv4 addresses and on all 2^32 IPv4-mapped IPv6 addresses "
             "(compared as maximal blocked intervals with the table the theorems are about), on every value of the first "
             "(resp. second) hextet for fixed remaining hextets (structural IPv6 classes), and TcpForwarder::connect run with "
             "scripted resolver answers (all lists of length <= 1, sampled/all pairs, random longer) x allow x ipv6_available; "
             "a case is non-trivial/distinct by its query line",
        explanation="theorems v4_exact, v6_unicast_exact, v6_mapped_exact, connect_only_global, global_*_never_refused about "
                    "TT/Model/Ip.lean; model tied to lib/src/net_utils.rs + tcp_forwarder.rs by exhaustive/differential runs",
        trusted=["std::net::Ipv4Addr/Ipv6Addr predicates as transcribed (tied by the exhaustive sweep)",
                 "resolver answers are an input of the model (system resolver not modelled)"],
        assumptions=["kernel connect() semantics for ::ffff:a.b.c.d (reaches a.b.c.d) motivate the mapped rule; not modelled",
                     "multicast destinations are outside the property; model follows the code there"],
    ),
}
