#!/usr/bin/env python3
"""Apply a kept seeded change to /repo, run checks, undo.

  bin/seeded_run.py <seeded-dir-name> [--checks C07,C16|all] [--tier quick]

The change is applied with `git -C /repo apply`, undone with `git -C /repo checkout -- .`
(nothing is ever committed there). Results go to /verif/seeded/<name>/result.json.
"""
import json
import os
import subprocess
import sys
import time

VERIF = os.path.dirname(os.path.dirname(os.path.abspath(__file__)))
REPO = "/repo"


def sh(cmd, **kw):
    return subprocess.run(cmd, shell=True, capture_output=True, text=True, **kw)


def main():
    name = sys.argv[1]
    d = os.path.join(VERIF, "seeded", name)
    meta = json.load(open(os.path.join(d, "meta.json")))
    checks = [meta["property"]]
    tier = "quick"
    args = sys.argv[2:]
    i = 0
    while i < len(args):
        if args[i] == "--checks":
            v = args[i + 1]
            if v == "all":
                checks = [c["property_id"] for c in json.load(open(os.path.join(VERIF, "MANIFEST.json")))["checks"]]
            else:
                checks = v.split(",")
            i += 1
        elif args[i] == "--tier":
            tier = args[i + 1]
            i += 1
        i += 1
    st = sh("git -C %s status --porcelain" % REPO).stdout.strip()
    if st:
        print("refusing: /repo has uncommitted changes:\n" + st)
        return 2
    r = sh("git -C %s apply %s" % (REPO, os.path.join(d, "patch.diff")))
    if r.returncode != 0:
        print("patch does not apply: " + r.stderr)
        return 2
    results = {}
    try:
        for c in checks:
            t0 = time.time()
            r = sh("%s/bin/check %s --tier %s" % (VERIF, c, tier))
            out = r.stdout + r.stderr
            viol = [l for l in out.splitlines() if l.startswith("VIOLATION")]
            replay = None
            why = None
            if viol:
                toks = viol[0].split()
                for t in toks:
                    if t.startswith("replay="):
                        replay = t[7:]
                if replay and os.path.exists(replay):
                    rj = json.load(open(replay))
                    f = (rj.get("failing") or [{}])[0]
                    why = (f.get("kind", "") + ": " + f.get("why", ""))[:600] if f else json.dumps(rj.get("no_longer_checks", ""))[:600]
            results[c] = dict(exit=r.returncode, violation=viol[:1], no_failing_input=any("no-failing-input-found" in v for v in viol),
                              first_failing=why, wall=round(time.time() - t0, 1), tail=out.strip().splitlines()[-2:])
            print("%s: exit=%d %s" % (c, r.returncode, (viol[0] if viol else "no violation")))
            if why:
                print("    " + why[:300])
    finally:
        sh("git -C %s checkout -- ." % REPO)
        # evidence must describe the unchanged tree: the caller re-runs the checks afterwards
    json.dump(dict(name=name, property=meta["property"], summary=meta.get("summary"), checks=results,
                   detected_by=[c for c, v in results.items() if v["exit"] != 0]),
              open(os.path.join(d, "result.json"), "w"), indent=1)
    return 0


if __name__ == "__main__":
    sys.exit(main())
