#!/bin/bash
# Builds the framework from files on disk only (offline): generated Lean files, all Lean
# modules + the native driver, and the Rust harness against /repo's working tree.
set -e
cd "$(dirname "$0")/.."
export CARGO_NET_OFFLINE=true
mkdir -p .work evidence replays
python3 tools/extract.py
(cd lean && lake build TT tt_driver)
[ -f harness/Cargo.lock ] || cp /repo/Cargo.lock harness/Cargo.lock
(cd harness && cargo build --offline)
# the real endpoint binary for the process-level suites (C05, C13, C19), guard off
(cd /repo && cargo build --offline -p trusttunnel_endpoint -p trusttunnel_endpoint_tools --target-dir "$OLDPWD/harness/target/endpoint")
echo "setup: ok"
