//! Process-level suites: the real `trusttunnel_endpoint` binary (built from /repo's working tree,
//! path in `TT_ENDPOINT_BIN`) started with settings files, signalled (SIGHUP reload, SIGINT
//! shutdown) and observed from outside: is it running, what certificate does it present for an
//! SNI, what does it print for `-c`, how does it exit.
use crate::common::*;
use std::io::{Read, Write};
use std::net::{SocketAddr, TcpStream};
use std::path::PathBuf;
use std::process::{Child, Command, Stdio};
use std::sync::Arc;
use std::time::{Duration, Instant};

const FIX: &str = concat!(env!("CARGO_MANIFEST_DIR"), "/fixtures/");

pub fn bin() -> Option<String> {
    std::env::var("TT_ENDPOINT_BIN").ok().filter(|p| std::path::Path::new(p).exists())
}

pub struct Proc {
    pub child: Child,
    pub dir: PathBuf,
    pub port: u16,
}

impl Drop for Proc {
    fn drop(&mut self) {
        let _ = self.child.kill();
        let _ = self.child.wait();
        let _ = std::fs::remove_dir_all(&self.dir);
    }
}

fn scratch(tag: &str) -> PathBuf {
    static N: std::sync::atomic::AtomicUsize = std::sync::atomic::AtomicUsize::new(0);
    let d = std::env::temp_dir().join(format!("tt_bin_{}_{}_{}", tag, std::process::id(), N.fetch_add(1, std::sync::atomic::Ordering::SeqCst)));
    std::fs::create_dir_all(&d).unwrap();
    d
}

pub fn spawn(tag: &str, settings: &str, hosts: &str, extra: &[&str]) -> Option<Proc> {
    let bin = bin()?;
    let dir = scratch(tag);
    std::fs::write(dir.join("settings.toml"), settings).ok()?;
    std::fs::write(dir.join("hosts.toml"), hosts).ok()?;
    let port = settings
        .lines()
        .find_map(|l| l.strip_prefix("listen_address = \""))
        .and_then(|r| r.trim_end_matches('"').rsplit(':').next().and_then(|p| p.parse().ok()))
        .unwrap_or(0);
    let child = Command::new(bin)
        .arg("-l")
        .arg(std::env::var("TT_BIN_LOG").unwrap_or_else(|_| "info".to_string()))
        .arg("--logfile")
        .arg(dir.join("log.txt"))
        .args(extra)
        .arg(dir.join("settings.toml"))
        .arg(dir.join("hosts.toml"))
        .stdin(Stdio::null())
        .stdout(Stdio::piped())
        .stderr(Stdio::null())
        .spawn()
        .ok()?;
    Some(Proc { child, dir, port })
}

impl Proc {
    /// `Ok(())` once the TCP listener answers; `Err(Some(code))` when the process has exited; `Err(None)` on time-out
    pub fn wait_listening(&mut self, patience: Duration) -> Result<(), Option<i32>> {
        let t0 = Instant::now();
        let addr: SocketAddr = ([127, 0, 0, 1], self.port).into();
        loop {
            if let Ok(Some(st)) = self.child.try_wait() {
                return Err(Some(st.code().unwrap_or(-1)));
            }
            if TcpStream::connect_timeout(&addr, Duration::from_millis(100)).is_ok() {
                return Ok(());
            }
            if t0.elapsed() > patience {
                return Err(None);
            }
            std::thread::sleep(Duration::from_millis(10));
        }
    }
    pub fn signal(&self, sig: i32) {
        unsafe {
            libc::kill(self.child.id() as i32, sig);
        }
    }
    pub fn exited(&mut self) -> Option<i32> {
        self.child.try_wait().ok().flatten().map(|s| s.code().unwrap_or(-1))
    }
    pub fn wait_exit(&mut self, patience: Duration) -> Option<i32> {
        let t0 = Instant::now();
        while t0.elapsed() < patience {
            if let Some(c) = self.exited() {
                return Some(c);
            }
            std::thread::sleep(Duration::from_millis(10));
        }
        None
    }
    pub fn log(&self) -> String {
        std::fs::read_to_string(self.dir.join("log.txt")).unwrap_or_default()
    }
    pub fn rewrite_hosts(&self, hosts: Option<&str>) {
        match hosts {
            Some(h) => {
                let _ = std::fs::write(self.dir.join("hosts.toml"), h);
            }
            None => {
                let _ = std::fs::remove_file(self.dir.join("hosts.toml"));
            }
        }
    }
}

struct NoVerify;
impl rustls::client::ServerCertVerifier for NoVerify {
    fn verify_server_cert(
        &self,
        _: &rustls::Certificate,
        _: &[rustls::Certificate],
        _: &rustls::ServerName,
        _: &mut dyn Iterator<Item = &[u8]>,
        _: &[u8],
        _: std::time::SystemTime,
    ) -> Result<rustls::client::ServerCertVerified, rustls::Error> {
        Ok(rustls::client::ServerCertVerified::assertion())
    }
}

fn der_of(pem_path: &str) -> Vec<u8> {
    use base64::Engine;
    let t = std::fs::read_to_string(pem_path).unwrap();
    let a = t.find("-----BEGIN CERTIFICATE-----").unwrap() + 27;
    let b = t.find("-----END CERTIFICATE-----").unwrap();
    let b64: String = t[a..b].chars().filter(|c| !c.is_whitespace()).collect();
    base64::engine::general_purpose::STANDARD.decode(b64).unwrap()
}

/// the certificate (DER) the endpoint presents for `sni`, `None` when the handshake is refused
fn cert_for(port: u16, sni: &str) -> Option<Vec<u8>> {
    let mut config = rustls::ClientConfig::builder().with_safe_defaults().with_custom_certificate_verifier(Arc::new(NoVerify)).with_no_client_auth();
    config.alpn_protocols.push(b"http/1.1".to_vec());
    let mut conn = rustls::ClientConnection::new(Arc::new(config), sni.try_into().ok()?).ok()?;
    let mut s = TcpStream::connect(("127.0.0.1", port)).ok()?;
    let _ = s.set_read_timeout(Some(Duration::from_secs(2)));
    while conn.is_handshaking() {
        if conn.complete_io(&mut s).is_err() {
            return None;
        }
    }
    conn.peer_certificates().and_then(|c| c.first()).map(|c| c.0.clone())
}

fn free_port() -> u16 {
    crate::c02h3::free_port()
}

#[derive(Clone)]
struct Entry {
    class: &'static str,
    name: &'static str,
    pem: &'static str,
}

fn hosts_toml(es: &[Entry]) -> String {
    let mut t = String::new();
    for e in es {
        let key = match e.class {
            "tunnel" => "main_hosts",
            "ping" => "ping_hosts",
            "speedtest" => "speedtest_hosts",
            _ => "reverse_proxy_hosts",
        };
        t.push_str(&format!("[[{}]]\nhostname = \"{}\"\ncert_chain_path = \"{}{}\"\nprivate_key_path = \"{}{}\"\n\n", key, e.name, FIX, e.pem, FIX, e.pem));
    }
    t
}

fn hosts_tokens(es: &[Entry]) -> String {
    let mut s = String::new();
    for class in ["tunnel", "ping", "speedtest", "reverseproxy"] {
        let l: Vec<&Entry> = es.iter().filter(|e| e.class == class).collect();
        s.push_str(&format!("{} ", l.len()));
        for e in l {
            s.push_str(e.name);
            s.push(' ');
        }
    }
    s.push('0');
    s
}

/// C05 on the binary: SIGHUP reloads of the TLS hosts file - valid ones switch the configuration, failed ones (unloadable
/// certificate, duplicate names, no main host, unparsable or missing file) leave the previous one in force and the
/// endpoint running. After every reload the certificate presented for every name is compared with the reload model.
pub fn run_c05(ctx: &mut Ctx) {
    quiet_panics();
    if bin().is_none() {
        ctx.notes.push("c05bin: no endpoint binary (TT_ENDPOINT_BIN): nothing was run".to_string());
        return;
    }
    let e = |class: &'static str, name: &'static str, pem: &'static str| Entry { class, name, pem };
    // a universe of host entries, each (class, name) with its own certificate, so that a certificate seen by a client
    // says which entry served it
    let u_main = e("tunnel", "main.verif.test", "c05_main.pem");
    let u_ping = e("ping", "ping.verif.test", "c05_ping.pem");
    let u_speed = e("speedtest", "speed.verif.test", "c05_speed.pem");
    let u_ping_speed = e("ping", "speed.verif.test", "c05_x1.pem");
    let u_speed_other = e("speedtest", "other.verif.test", "c05_x2.pem");
    let u_main_other = e("tunnel", "other.verif.test", "c05_x3.pem");
    let u_speed_ping = e("speedtest", "ping.verif.test", "c05_x4.pem");
    let universe = vec![u_main.clone(), u_ping.clone(), u_speed.clone(), u_ping_speed.clone(), u_speed_other.clone(), u_main_other.clone(), u_speed_ping.clone()];
    let cfg_a = vec![u_main.clone(), u_ping.clone(), u_speed.clone()];
    let cfg_b = vec![u_main.clone(), u_ping_speed.clone(), u_speed_other.clone()];
    let cfg_c = vec![u_main_other.clone(), u_main.clone(), u_ping.clone()];
    let cfg_d = vec![u_main_other.clone(), u_speed_ping.clone()];
    let valid = [&cfg_a, &cfg_b, &cfg_c, &cfg_d];
    let names = ["main.verif.test", "ping.verif.test", "speed.verif.test", "other.verif.test", "nope.verif.test", "user.main.verif.test"];
    let n_hist = if ctx.thorough() { 10 } else { 3 };
    for h in 0..n_hist {
        let port = free_port();
        let settings = format!("listen_address = \"127.0.0.1:{}\"\n[listen_protocols]\n[listen_protocols.http1]\n[listen_protocols.http2]\n", port);
        let first = valid[h % 4];
        let Some(mut p) = spawn("c05", &settings, &hosts_toml(first), &[]) else { return };
        if let Err(c) = p.wait_listening(Duration::from_secs(5)) {
            ctx.oracle_failure("startup", &format!("the endpoint did not start with a valid configuration (exit {:?}): {}", c, p.log().lines().last().unwrap_or("")));
            continue;
        }
        let mut q = format!("c05 runcert 110 0 {}", hosts_tokens(first));
        let mut events = 0usize;
        let mut answers: Vec<String> = vec![];
        let mut history: Vec<String> = vec![];
        let observe = |p: &Proc, cur_known: &Vec<Entry>, q: &mut String, events: &mut usize, answers: &mut Vec<String>| {
            let _ = cur_known;
            for n in names {
                q.push_str(&format!(" S 1 1 {}", n));
                *events += 1;
                let ans = match cert_for(p.port, n) {
                    None => "refused".to_string(),
                    Some(der) => match universe.iter().find(|u| der_of(&format!("{}{}", FIX, u.pem)) == der) {
                        Some(u) => format!("{}:{}", u.class, u.name),
                        None => "unknown-certificate".to_string(),
                    },
                };
                answers.push(ans);
            }
        };
        observe(&p, first, &mut q, &mut events, &mut answers);
        let n_reloads = 4 + ctx.rng.below(4) as usize;
        let mut dead = false;
        for _ in 0..n_reloads {
            let kind = ctx.rng.below(8);
            let (content, tokens, loadable, what): (Option<String>, String, bool, String) = match kind {
                0 | 1 | 2 => {
                    let c = valid[ctx.rng.below(4) as usize];
                    (Some(hosts_toml(c)), hosts_tokens(c), true, "a valid hosts file".to_string())
                }
                3 => {
                    let mut c = cfg_a.clone();
                    c.push(e("ping", "main.verif.test", "c05_rproxy.pem"));
                    (Some(hosts_toml(&c)), hosts_tokens(&c), true, "a hosts file with the same name in two classes".to_string())
                }
                4 => {
                    let c = vec![u_ping.clone()];
                    (Some(hosts_toml(&c)), hosts_tokens(&c), true, "a hosts file without a main host".to_string())
                }
                5 => {
                    let c = cfg_b.clone();
                    (Some(hosts_toml(&c).replace("c05_x1.pem", "does_not_exist.pem")), hosts_tokens(&c), false, "a hosts file naming a certificate that does not exist".to_string())
                }
                6 => (Some("[[main_hosts]\nhostname = ".to_string()), hosts_tokens(&cfg_a), false, "an unparsable hosts file".to_string()),
                _ => (None, hosts_tokens(&cfg_a), false, "no hosts file at all".to_string()),
            };
            p.rewrite_hosts(content.as_deref());
            p.signal(libc::SIGHUP);
            history.push(what.clone());
            // the reload itself takes milliseconds (the log file is buffered, so it cannot be waited on)
            let t0 = Instant::now();
            while t0.elapsed() < Duration::from_millis(400) && p.exited().is_none() {
                std::thread::sleep(Duration::from_millis(10));
            }
            if let Some(code) = p.exited() {
                ctx.oracle_failure(
                    "endpoint_down_after_reload",
                    &format!(
                        "SIGHUP reloads [{}]: after the last one the endpoint process was gone (exit code {}): a failed reload must leave the previous configuration in force. Last log line: {}",
                        history.join("; "),
                        code,
                        p.log().lines().last().unwrap_or("").chars().take(200).collect::<String>()
                    ),
                );
                dead = true;
                break;
            }
            q.push_str(&format!(" R {} {}", tokens, loadable as u8));
            events += 1;
            observe(&p, first, &mut q, &mut events, &mut answers);
            ctx.stat(&format!("reload_{}", if kind < 3 { "valid" } else { "invalid" }));
        }
        if !dead {
            // the query carries the number of events after the initial configuration
            let q = q.replacen(&format!("c05 runcert 110 0 {}", hosts_tokens(first)), &format!("c05 runcert 110 0 {} {}", hosts_tokens(first), events), 1);
            ctx.emit(&q, &answers.join(";"));
        }
        ctx.stat("binary_reload_histories");
    }
}

/// C19 on the binary: SIGINT with clients connected - the process must exit with code 0 in time, having closed them
pub fn run_c19(ctx: &mut Ctx) {
    quiet_panics();
    if bin().is_none() {
        ctx.notes.push("c19bin: no endpoint binary (TT_ENDPOINT_BIN): nothing was run".to_string());
        return;
    }
    use crate::h3cli::H3Client;
    let rounds = if ctx.thorough() { 4 } else { 2 };
    for round in 0..rounds {
        let port = free_port();
        let settings = format!("listen_address = \"127.0.0.1:{}\"\n[listen_protocols]\n[listen_protocols.http1]\n[listen_protocols.http2]\n[listen_protocols.quic]\n", port);
        let hosts = hosts_toml(&[Entry { class: "tunnel", name: "main.verif.test", pem: "c05_main.pem" }]);
        let Some(mut p) = spawn("c19", &settings, &hosts, &[]) else { return };
        if p.wait_listening(Duration::from_secs(5)).is_err() {
            ctx.oracle_failure("startup", "the endpoint did not start with a valid configuration");
            continue;
        }
        let addr: SocketAddr = ([127, 0, 0, 1], port).into();
        // an HTTP/3 session (with a health check done), an idle TLS connection, a TCP connection without ClientHello
        let mut h3 = H3Client::connect(addr, Some("main.verif.test"), &[b"h3"], 1 << 20, Duration::from_secs(3)).ok();
        if let Some(c) = h3.as_mut() {
            let id = c.request("CONNECT", None, "_check", None, &[], false);
            c.wait(Duration::from_secs(2), |c| id.and_then(|i| c.streams.get(&i)).map(|s| s.status.is_some()).unwrap_or(false));
        }
        let mut tls = None;
        if round % 2 == 0 {
            let mut config = rustls::ClientConfig::builder().with_safe_defaults().with_custom_certificate_verifier(Arc::new(NoVerify)).with_no_client_auth();
            config.alpn_protocols.push(b"http/1.1".to_vec());
            if let (Ok(mut conn), Ok(mut s)) = (rustls::ClientConnection::new(Arc::new(config), "main.verif.test".try_into().unwrap()), TcpStream::connect(addr)) {
                let _ = s.set_read_timeout(Some(Duration::from_secs(2)));
                while conn.is_handshaking() {
                    if conn.complete_io(&mut s).is_err() {
                        break;
                    }
                }
                tls = Some((conn, s));
            }
        }
        let raw = TcpStream::connect(addr).ok();
        std::thread::sleep(Duration::from_millis(200));
        if let Some(code) = p.exited() {
            ctx.oracle_failure("graceful_shutdown", &format!("the endpoint exited (code {}) before any signal", code));
            continue;
        }
        let t0 = Instant::now();
        p.signal(libc::SIGINT);
        let code = p.wait_exit(Duration::from_secs(10));
        let took = t0.elapsed();
        let mut problems = vec![];
        match code {
            None => problems.push("10 s after SIGINT the process was still running (waiting for completion hangs)".to_string()),
            Some(0) => {}
            Some(c) => problems.push(format!("the process exited with code {} after SIGINT", c)),
        }
        if let Some(c) = h3.as_mut() {
            c.wait(Duration::from_millis(500), |c| c.conn.is_closed() || c.conn.is_draining() || c.conn.peer_error().is_some());
            if !(c.conn.is_closed() || c.conn.is_draining() || c.conn.peer_error().is_some()) {
                problems.push("the HTTP/3 session registered before the signal never saw its QUIC connection closed by the endpoint".to_string());
                if std::env::var("TT_BIN_LOG").is_ok() {
                    eprintln!("---- endpoint log ----\n{}", p.log().lines().filter(|l| !l.contains("quiche")).collect::<Vec<_>>().join("\n"));
                }
            }
        }
        if let Some((_, mut s)) = tls {
            let mut b = [0u8; 64];
            let _ = s.set_read_timeout(Some(Duration::from_secs(1)));
            loop {
                match s.read(&mut b) {
                    Ok(0) | Err(_) => break,
                    Ok(_) => {}
                }
            }
        }
        drop(raw);
        ctx.notes.push(format!("round {}: exit {:?} {} ms after SIGINT", round, code, took.as_millis()));
        ctx.stat("binary_shutdowns");
        if !problems.is_empty() {
            ctx.oracle_failure("graceful_shutdown", &format!("endpoint binary with an HTTP/3 session, {}a silent TCP connection, SIGINT: {}", if round % 2 == 0 { "an idle TLS connection, " } else { "" }, problems.join("; ")));
        }
    }
}

/// C13 on the binary: start-up refusals and the `-c` export, through the real command line and settings files
pub fn run_c13(ctx: &mut Ctx) {
    quiet_panics();
    let Some(binp) = bin() else {
        ctx.notes.push("c13bin: no endpoint binary (TT_ENDPOINT_BIN): nothing was run".to_string());
        return;
    };
    let dir = scratch("c13files");
    let creds_path = dir.join("creds.toml");
    let users: Vec<(String, String)> = vec![
        ("alice".into(), "p\"q\\r s ".into()),
        ("Alice".into(), " sp ace".into()),
        ("bob".into(), "tab\there#=[]".into()),
        ("\u{e9}ve".into(), "\u{4e16}\u{1F600}:colon".into()),
    ];
    let content = crate::gen_wizard::compose_credentials_content(users.iter().cloned());
    std::fs::write(&creds_path, &content).unwrap();
    let hosts = hosts_toml(&[Entry { class: "tunnel", name: "main.verif.test", pem: "c05_main.pem" }]);
    // ---- start-up: which configurations the binary refuses ----
    let mut cases: Vec<(String, bool, (bool, bool, bool), Option<(String, String)>)> = vec![];
    for listen_any in [false, true] {
        for with_clients in [false, true] {
            for protos in [(false, false, false), (true, false, false), (false, true, false), (false, false, true), (true, true, true)] {
                for rp in [None, Some(("127.0.0.1:8080".to_string(), "/rp".to_string())), Some(("127.0.0.1:8080".to_string(), "rp".to_string())), Some(("127.0.0.1:8080".to_string(), "".to_string()))] {
                    cases.push((if listen_any { "0.0.0.0".to_string() } else { "127.0.0.1".to_string() }, with_clients, protos, rp));
                }
            }
        }
    }
    if !ctx.thorough() {
        cases = cases.into_iter().enumerate().filter(|(i, _)| i % 3 == (ctx.seed % 3) as usize).map(|(_, c)| c).collect();
    }
    for (ip, with_clients, protos, rp) in cases {
        let port = free_port();
        let mut t = format!("listen_address = \"{}:{}\"\n", ip, port);
        if with_clients {
            t.push_str(&format!("credentials_file = \"{}\"\n", creds_path.display()));
        }
        if let Some((a, m)) = &rp {
            t.push_str(&format!("[reverse_proxy]\nserver_address = \"{}\"\npath_mask = \"{}\"\n", a, m));
        }
        t.push_str("[listen_protocols]\n");
        if protos.0 {
            t.push_str("[listen_protocols.http1]\n");
        }
        if protos.1 {
            t.push_str("[listen_protocols.http2]\n");
        }
        if protos.2 {
            t.push_str("[listen_protocols.quic]\n");
        }
        let Some(mut p) = spawn("c13", &t, &hosts, &[]) else { return };
        let verdict = match p.wait_listening(Duration::from_secs(4)) {
            Ok(()) => "ok",
            Err(Some(_)) => "err",
            Err(None) => "hang",
        };
        let rptok = match &rp {
            None => "none".to_string(),
            Some((a, m)) => format!("{} {}", a.parse::<SocketAddr>().unwrap().port(), hex(m.as_bytes())),
        };
        ctx.emit(
            &format!("c13 validate {} {} {} {} {} {} {} {}", (ip == "0.0.0.0") as u8, port, (ip == "127.0.0.1") as u8, protos.0 as u8, protos.1 as u8, protos.2 as u8, with_clients as u8, rptok),
            verdict,
        );
        ctx.stat(&format!("binary_startup_{}", verdict));
    }
    // ---- TLS hosts the binary must refuse to start with ----
    for (what, h) in [
        ("duplicate main hosts", hosts_toml(&[Entry { class: "tunnel", name: "a.test", pem: "c05_main.pem" }, Entry { class: "tunnel", name: "a.test", pem: "c05_ping.pem" }])),
        ("a name in two classes", hosts_toml(&[Entry { class: "tunnel", name: "a.test", pem: "c05_main.pem" }, Entry { class: "reverseproxy", name: "a.test", pem: "c05_ping.pem" }])),
        ("no main host", hosts_toml(&[Entry { class: "ping", name: "a.test", pem: "c05_main.pem" }])),
        ("an unloadable certificate", hosts_toml(&[Entry { class: "tunnel", name: "a.test", pem: "nonexistent.pem" }])),
    ] {
        let port = free_port();
        let t = format!("listen_address = \"127.0.0.1:{}\"\n[listen_protocols]\n[listen_protocols.http1]\n", port);
        let Some(mut p) = spawn("c13h", &t, &h, &[]) else { return };
        if p.wait_listening(Duration::from_secs(3)).is_ok() {
            ctx.oracle_failure("tls_hosts_validation", &format!("the endpoint binary started with {}", what));
        }
        ctx.stat("binary_tls_hosts_cases");
    }
    // ---- export: `-c <name> -a <address>` prints that client's own pair ----
    let port = free_port();
    let t = format!("listen_address = \"127.0.0.1:{}\"\ncredentials_file = \"{}\"\n[listen_protocols]\n[listen_protocols.http1]\n", port, creds_path.display());
    let sdir = scratch("c13export");
    std::fs::write(sdir.join("settings.toml"), &t).unwrap();
    std::fs::write(sdir.join("hosts.toml"), &hosts).unwrap();
    for (u, pw) in &users {
        let out = Command::new(&binp).arg("-c").arg(u).arg("-a").arg("192.0.2.7").arg(sdir.join("settings.toml")).arg(sdir.join("hosts.toml")).stdin(Stdio::null()).output();
        ctx.stat("binary_exports");
        match out {
            Err(e) => ctx.oracle_failure("export", &format!("could not run the export for {:?}: {}", u, e)),
            Ok(o) => {
                let text = String::from_utf8_lossy(&o.stdout).to_string();
                match text.parse::<toml::Value>() {
                    Err(e) => ctx.oracle_failure("export_unparsable", &format!("client {:?}: exit {:?}, output is not TOML ({}): {:?}", u, o.status.code(), e, text.chars().take(200).collect::<String>())),
                    Ok(v) => {
                        let gu = v.get("username").and_then(|x| x.as_str()).map(String::from);
                        let gp = v.get("password").and_then(|x| x.as_str()).map(String::from);
                        if gu.as_deref() != Some(u.as_str()) || gp.as_deref() != Some(pw.as_str()) {
                            ctx.oracle_failure("export_differs", &format!("`-c {:?}` printed the pair {:?}/{:?}; the credentials file gives that client {:?}", u, gu, gp, pw));
                        }
                        let addr_ok = text.contains(&format!("192.0.2.7:{}", port));
                        if !addr_ok {
                            ctx.oracle_failure("export_differs", &format!("`-c {:?} -a 192.0.2.7` did not print the address with the listen port {}", u, port));
                        }
                    }
                }
            }
        }
    }
    let _ = std::fs::remove_dir_all(&dir);
    let _ = std::fs::remove_dir_all(&sdir);
    let _ = Write::flush(&mut std::io::stdout());
}

/// C13, the setup wizard: the real `setup_wizard` binary (built from /repo's working tree next to the endpoint) run
/// non-interactively for listen addresses of both families, credentials with awkward characters and a host name;
/// then the real endpoint binary is started, in the wizard's directory, from the files the wizard wrote. It must
/// come up, listen on the address that was asked for, present the generated certificate for the host name and
/// accept exactly the credentials that were given (compared with the registry model).
pub fn run_c13_wizard(ctx: &mut Ctx) {
    use base64::Engine;
    quiet_panics();
    let Some(binp) = bin() else {
        ctx.notes.push("c13wizard: no endpoint binary (TT_ENDPOINT_BIN): nothing was run".to_string());
        return;
    };
    let wizard = std::path::Path::new(&binp).with_file_name("setup_wizard");
    if !wizard.exists() {
        ctx.notes.push("c13wizard: no setup_wizard binary next to the endpoint binary: nothing was run".to_string());
        ctx.stat("wizard_binary_missing");
        return;
    }
    let b64 = |s: &str| base64::engine::general_purpose::STANDARD.encode(s.as_bytes());
    let creds: Vec<(&str, &str)> = vec![("alice", "secret"), ("Bob Smith", "p\"q\\r s "), ("\u{e9}ve", "\u{4e16}#=[]'"), ("u", "a:b:c")];
    let mut k = 0usize;
    for ip in ["127.0.0.1", "0.0.0.0", "[::1]", "[::]"] {
        let v6 = ip.starts_with('[');
        let n_creds = if ctx.thorough() { creds.len() } else { 2 };
        for _ in 0..n_creds {
            let (user, pass) = creds[k % creds.len()];
            k += 1;
            let port = free_port();
            let addr = format!("{}:{}", ip, port);
            let desc = format!("setup_wizard -m non-interactive -a '{}' -c '{}:{}' -n vpn.verif.test", addr, user, pass);
            ctx.stat("wizard_runs");
            begin_case(&desc);
            let dir = scratch("wizard");
            let out = Command::new(&wizard)
                .current_dir(&dir)
                .args(["-m", "non-interactive", "-a", &addr, "-c", &format!("{}:{}", user, pass), "-n", "vpn.verif.test"])
                .args(["--lib-settings", "vpn.toml", "--hosts-settings", "hosts.toml", "--cert-type", "self-signed"])
                .stdin(Stdio::null())
                .output();
            let ok = matches!(&out, Ok(o) if o.status.success()) && dir.join("vpn.toml").exists() && dir.join("hosts.toml").exists();
            if !ok {
                ctx.oracle_failure("wizard_failed", &format!("{}: the wizard did not produce its files ({:?})", desc, out.map(|o| String::from_utf8_lossy(&o.stderr).chars().take(300).collect::<String>())));
                let _ = std::fs::remove_dir_all(&dir);
                continue;
            }
            let written = std::fs::read_to_string(dir.join("vpn.toml")).unwrap_or_default();
            let listen_line = written.lines().find(|l| l.starts_with("listen_address")).unwrap_or("").to_string();
            let child = Command::new(&binp)
                .current_dir(&dir)
                .args(["-l", "info", "--logfile", "log.txt", "vpn.toml", "hosts.toml"])
                .stdin(Stdio::null())
                .stdout(Stdio::piped())
                .stderr(Stdio::piped())
                .spawn();
            let Ok(child) = child else {
                ctx.oracle_failure("harness", "could not start the endpoint binary");
                return;
            };
            let mut p = Proc { child, dir: dir.clone(), port };
            // the address to reach it at: the one asked for, or the loopback of its family for a wildcard
            let reach: SocketAddr = match ip {
                "0.0.0.0" => ([127, 0, 0, 1], port).into(),
                "[::]" => (std::net::Ipv6Addr::LOCALHOST, port).into(),
                _ => addr.parse().unwrap(),
            };
            let t0 = Instant::now();
            let mut verdict = "hang";
            loop {
                if let Some(_code) = p.exited() {
                    verdict = "err";
                    break;
                }
                if TcpStream::connect_timeout(&reach, Duration::from_millis(100)).is_ok() {
                    verdict = "ok";
                    break;
                }
                if t0.elapsed() > Duration::from_secs(6) {
                    break;
                }
                std::thread::sleep(Duration::from_millis(10));
            }
            // the wizard's settings as the start-up model sees them: every protocol enabled, one client, no reverse proxy
            ctx.emit(
                &format!("c13 validate {} {} {} 1 1 1 1 none", (ip == "0.0.0.0" || ip == "[::]") as u8, port, (ip == "127.0.0.1" || ip == "[::1]") as u8),
                verdict,
            );
            if verdict != "ok" {
                let mut err = String::new();
                if let Some(mut e) = p.child.stderr.take() {
                    let _ = e.read_to_string(&mut err);
                }
                ctx.oracle_failure(
                    "wizard_files_not_read_back",
                    &format!("{}: the endpoint started from the wizard's files did not come up on {} ({}); the wizard wrote `{}`; endpoint said: {}", desc, reach, verdict, listen_line, err.chars().take(300).collect::<String>()),
                );
                continue;
            }
            // the certificate for the host name is the generated one
            let want = der_of(dir.join("certs/cert.pem").to_str().unwrap());
            let got = {
                let mut config = rustls::ClientConfig::builder().with_safe_defaults().with_custom_certificate_verifier(Arc::new(NoVerify)).with_no_client_auth();
                config.alpn_protocols.push(b"http/1.1".to_vec());
                let mut conn = rustls::ClientConnection::new(Arc::new(config), "vpn.verif.test".try_into().unwrap()).unwrap();
                TcpStream::connect(reach).ok().and_then(|mut s| {
                    let _ = s.set_read_timeout(Some(Duration::from_secs(2)));
                    while conn.is_handshaking() {
                        if conn.complete_io(&mut s).is_err() {
                            return None;
                        }
                    }
                    conn.peer_certificates().and_then(|c| c.first()).map(|c| c.0.clone())
                })
            };
            if got.as_deref() != Some(&want[..]) {
                ctx.oracle_failure("wizard_certificate", &format!("{}: the endpoint does not present the wizard's certificate for vpn.verif.test", desc));
            }
            // the credentials mean what was typed: health checks with several tokens
            let tokens = vec![
                b64(&format!("{}:{}", user, pass)),
                b64(&format!("{}:{}x", user, pass)),
                b64(&format!("{}:", user)),
                b64(&format!("{}:{}", user.to_uppercase(), pass)),
                b64(&format!("{}:{}", user, pass.trim_end())),
                String::new(),
            ];
            for tok in tokens {
                let mut config = rustls::ClientConfig::builder().with_safe_defaults().with_custom_certificate_verifier(Arc::new(NoVerify)).with_no_client_auth();
                config.alpn_protocols.push(b"http/1.1".to_vec());
                let mut conn = rustls::ClientConnection::new(Arc::new(config), "vpn.verif.test".try_into().unwrap()).unwrap();
                let Ok(mut s) = TcpStream::connect(reach) else { continue };
                let _ = s.set_read_timeout(Some(Duration::from_secs(2)));
                let mut tls = rustls::Stream::new(&mut conn, &mut s);
                let req = if tok.is_empty() {
                    "CONNECT _check HTTP/1.1\r\nHost: _check\r\n\r\n".to_string()
                } else {
                    format!("CONNECT _check HTTP/1.1\r\nHost: _check\r\nProxy-Authorization: Basic {}\r\n\r\n", tok)
                };
                if tls.write_all(req.as_bytes()).is_err() {
                    continue;
                }
                let mut got = vec![];
                let mut buf = [0u8; 512];
                let t1 = Instant::now();
                while !got.windows(4).any(|w| w == b"\r\n\r\n") && t1.elapsed() < Duration::from_secs(2) {
                    match tls.read(&mut buf) {
                        Ok(0) | Err(_) => break,
                        Ok(n) => got.extend_from_slice(&buf[..n]),
                    }
                }
                let ans = if got.starts_with(b"HTTP/1.1 200") {
                    "pass"
                } else if got.starts_with(b"HTTP/1.1 407") {
                    "reject"
                } else {
                    "no-answer"
                };
                ctx.emit(&format!("c13 auth 1 {} {} {}", hex(user.as_bytes()), hex(pass.as_bytes()), hex(tok.as_bytes())), ans);
                ctx.stat(&format!("wizard_credentials_{}", ans));
            }
        }
    }
}
