//! C02 / C14: the real DuplexPipe over scripted endpoints under virtual time
use crate::common::*;
use trusttunnel::verif::vpipe::*;

fn gen_src(ctx: &mut Ctx, t: u64, total: &mut Vec<u8>, timing: bool) -> SrcScript {
    let n = ctx.rng.below(5);
    let mut events = vec![];
    let mut counter = ctx.rng.next() as u8;
    for _ in 0..n {
        let len = *ctx.rng.pick(&[1usize, 2, 3, 5, 8, 0]);
        let chunk: Vec<u8> = (0..len)
            .map(|_| {
                counter = counter.wrapping_add(1);
                counter
            })
            .collect();
        total.extend(&chunk);
        events.push((gen_delay(ctx, t, timing), SrcEv::Chunk(chunk)));
    }
    match ctx.rng.below(8) {
        0 => events.push((gen_delay(ctx, t, timing), SrcEv::Err)),
        1 => {} // silent forever
        _ => events.push((gen_delay(ctx, t, timing), SrcEv::Eof)),
    }
    SrcScript { events, consume_err_at: if ctx.rng.chance(1, 25) { Some(ctx.rng.below(3) as usize) } else { None } }
}

fn gen_delay(ctx: &mut Ctx, t: u64, timing: bool) -> u64 {
    if timing {
        // multiples of T/4 around the deadlines, including exactly T and 2T
        *ctx.rng.pick(&[0, t / 4, t / 2, 3 * t / 4, t - 1, t, t + 1, t + t / 4, 2 * t - 1, 2 * t, 2 * t + 1, 3 * t])
    } else {
        *ctx.rng.pick(&[0, 0, 0, 1, 5, t / 2])
    }
}

fn gen_sink(ctx: &mut Ctx, t: u64, timing: bool) -> SinkScript {
    let nq = ctx.rng.below(6);
    SinkScript {
        quotas: (0..nq).map(|_| *ctx.rng.pick(&[0usize, 1, 2, 3, 100])).collect(),
        writable_delays: (0..ctx.rng.below(6)).map(|_| gen_delay(ctx, t, timing)).collect(),
        write_err_at: if ctx.rng.chance(1, 12) { Some(ctx.rng.below(4) as usize) } else { None },
        writable_err_at: if ctx.rng.chance(1, 25) { Some(ctx.rng.below(3) as usize) } else { None },
        eof_err: ctx.rng.chance(1, 25),
        flush_err: ctx.rng.chance(1, 25),
        flush_delay: 0,
    }
}

/// direct oracle on the log of one direction: what the sink accepted is a prefix of what the
/// source produced, credit == forwarded, eof after the last write, nothing after a failure
fn check_direction(ctx: &mut Ctx, dir: u8, log: &[LogEntry], result: &str, desc: &str) -> (Vec<u8>, Vec<u8>, bool) {
    let mut read: Vec<u8> = vec![];
    let mut delivered: Vec<u8> = vec![];
    let mut consumed = 0usize;
    let mut metered = 0usize;
    let mut eof_seen = false;
    let mut sink_eof = false;
    let mut flushed = false;
    let mut failed = false;
    for e in log.iter().filter(|e| e.dir == dir) {
        if failed && e.resp != "timeout" {
            ctx.oracle_failure("call_after_failure", &format!("{}: dir {} issued {} after a failure", desc, dir, e.call));
        }
        if let Some(h) = e.resp.strip_prefix("chunk:") {
            read.extend(unhex(h));
        }
        if e.resp == "eof" {
            eof_seen = true;
        }
        if let Some(h) = e.call.strip_prefix("write:") {
            if sink_eof {
                ctx.oracle_failure("write_after_eof", &format!("{}: dir {} wrote after eof()", desc, dir));
            }
            if let Some(k) = e.resp.strip_prefix("accepted:") {
                let k: usize = k.parse().unwrap();
                delivered.extend(&unhex(h)[..k]);
            }
        }
        if let Some(n) = e.call.strip_prefix("consume:") {
            if e.resp == "unit" {
                consumed += n.parse::<usize>().unwrap();
            }
        }
        if let Some(n) = e.call.strip_prefix("metrics:") {
            metered += n.parse::<usize>().unwrap();
        }
        if e.call == "sinkeof" {
            if delivered != read {
                ctx.oracle_failure("eof_before_drained", &format!("{}: dir {} passed EOF on with {} of {} bytes delivered", desc, dir, delivered.len(), read.len()));
            }
            sink_eof = e.resp == "unit";
        }
        if e.call == "flush" && e.resp == "unit" {
            flushed = true;
        }
        if e.resp == "err" {
            failed = true;
        }
    }
    if !read.starts_with(&delivered) {
        ctx.oracle_failure("bytes_corrupted", &format!("{}: dir {} delivered {} which is not a prefix of {}", desc, dir, hex(&delivered), hex(&read)));
    }
    if consumed > delivered.len() || metered > delivered.len() || (result == "ok" && (consumed != delivered.len() || metered != delivered.len())) {
        ctx.oracle_failure("credit_mismatch", &format!("{}: dir {} forwarded {} bytes, credited {}, metered {}", desc, dir, delivered.len(), consumed, metered));
    }
    if result == "ok" && !(eof_seen && sink_eof && flushed && delivered == read) {
        ctx.oracle_failure("unclean_ok", &format!("{}: result Ok but dir {} eof_seen={} sink_eof={} flushed={} delivered {}/{}", desc, dir, eof_seen, sink_eof, flushed, delivered.len(), read.len()));
    }
    (read, delivered, failed)
}

fn unhex(h: &str) -> Vec<u8> {
    if h == "-" {
        return vec![];
    }
    (0..h.len() / 2).map(|i| u8::from_str_radix(&h[2 * i..2 * i + 2], 16).unwrap()).collect()
}

pub fn run(ctx: &mut Ctx) {
    let timing_only = ctx.suite == "c14";
    let n = if ctx.thorough() { 40_000 } else { 3_000 };
    // directed shapes first: one direction ends at once (a half-closed tunnel), the other keeps delivering chunks
    // with gaps below the idle timeout for several timeouts in a row, into a sink that takes everything, a byte at
    // a time, or is slow to become writable - such a tunnel is active and must not be torn down
    let mut directed: Vec<(u64, (SrcScript, SinkScript), (SrcScript, SinkScript))> = vec![];
    for t in [100u64, 1000, 40] {
        for gap in [t / 2, 3 * t / 4, t - 1] {
            for nchunks in [3usize, 6] {
                for sink_kind in 0..3 {
                    for side in 0..2 {
                        let quiet_src = SrcScript { events: vec![(0, SrcEv::Eof)], consume_err_at: None };
                        let busy_src = SrcScript {
                            events: (0..nchunks).map(|k| (gap, SrcEv::Chunk(vec![k as u8 + 1, 0xee, k as u8 + 2]))).chain(std::iter::once((gap, SrcEv::Eof))).collect(),
                            consume_err_at: None,
                        };
                        let plain_sink = SinkScript { quotas: vec![], writable_delays: vec![], write_err_at: None, writable_err_at: None, eof_err: false, flush_err: false, flush_delay: 0 };
                        let busy_sink = match sink_kind {
                            0 => plain_sink.clone(),
                            1 => SinkScript { quotas: vec![1; 40], ..plain_sink.clone() },
                            _ => SinkScript { quotas: vec![1, 1, 100, 1], writable_delays: vec![t / 4, t / 4, t / 4, t / 4], ..plain_sink.clone() },
                        };
                        // the busy direction's sink is the *other* side's sink
                        let (l, r) = if side == 0 { ((quiet_src, plain_sink), (busy_src, busy_sink)) } else { ((busy_src, busy_sink), (quiet_src, plain_sink)) };
                        directed.push((t, l, r));
                    }
                }
            }
        }
    }
    if !ctx.thorough() {
        directed = directed.into_iter().enumerate().filter(|(k, _)| k % 3 == 0).map(|(_, d)| d).collect();
    }
    // one direction ended at once, and the receiver of the other takes part of a chunk and then nothing, for good, while the
    // sender is silent too: such a tunnel is idle - the wait for the sink is under the idle timer like the wait for the source
    for t in [100u64, 1000, 40] {
        for (first_quota, chunk_len, more_chunks) in [(3usize, 10usize, false), (0, 4, false), (1, 2, true), (5, 5000, false)] {
            for side in 0..2 {
                let plain_sink = SinkScript { quotas: vec![], writable_delays: vec![], write_err_at: None, writable_err_at: None, eof_err: false, flush_err: false, flush_delay: 0 };
                let quiet_src = SrcScript { events: vec![(0, SrcEv::Eof)], consume_err_at: None };
                let mut ev = vec![(t / 2, SrcEv::Chunk((0..chunk_len).map(|k| k as u8).collect()))];
                if more_chunks {
                    ev.push((t / 4, SrcEv::Chunk(vec![9, 9])));
                    ev.push((t / 4, SrcEv::Eof));
                }
                let stalled_src = SrcScript { events: ev, consume_err_at: None };
                let stalled_sink = SinkScript { quotas: vec![first_quota], writable_delays: vec![100_000 * t], ..plain_sink.clone() };
                let (l, r) = if side == 0 { ((quiet_src, plain_sink), (stalled_src, stalled_sink)) } else { ((stalled_src, stalled_sink), (quiet_src, plain_sink)) };
                directed.push((t, l, r));
            }
        }
    }
    let n_directed = directed.len();
    let mut directed = directed.into_iter();
    for i in 0..n + n_directed {
        let t: u64 = *ctx.rng.pick(&[100u64, 1000, 40]);
        let timing = timing_only || i % 3 == 0;
        let mut lt = vec![];
        let mut rt = vec![];
        let left = (gen_src(ctx, t, &mut lt, timing), gen_sink(ctx, t, timing));
        let right = (gen_src(ctx, t, &mut rt, timing), gen_sink(ctx, t, timing));
        let (t, left, right) = match directed.next() {
            Some(d) => {
                ctx.stat("directed_half_closed_active");
                d
            }
            None => (t, left, right),
        };
        let desc = format!("T={} left={:?} right={:?}", t, left, right);
        let (l2, r2) = (left.clone(), right.clone());
        let rt_ = tokio::runtime::Builder::new_current_thread().enable_all().start_paused(true).build().unwrap();
        let run = rt_.block_on(async move {
            tokio::time::timeout(std::time::Duration::from_millis(60 * t), run_duplex(l2, r2, t)).await
        });
        let (result, end_ms, log) = match run {
            Ok(r) => (r.result, r.end_ms, r.log),
            Err(_) => {
                ctx.oracle_failure("hung", &format!("{}: exchange() still running after 60 T of virtual time", desc));
                ctx.emit(&format!("c02 hung {}", i), "hung");
                continue;
            }
        };
        let (_, _, f0) = check_direction(ctx, 0, &log, &result, &desc);
        let (_, _, f1) = check_direction(ctx, 1, &log, &result, &desc);
        if (f0 || f1) && result == "ok" {
            ctx.oracle_failure("error_swallowed", &format!("{}: a direction failed but exchange() returned Ok", desc));
        }
        let mut q = format!("c02 duplex {} {}", t, log.len());
        for e in &log {
            q.push_str(&format!(" {} {} {} {}", e.t_ms, e.dir, e.call, e.resp));
        }
        let ans = if result == "timedout" { format!("timedout {}", end_ms) } else { result.clone() };
        ctx.stat(&format!("result_{}", result));
        if log.iter().any(|e| e.resp == "timeout") {
            ctx.stat("runs_with_timer_restarts");
        }
        if log.iter().any(|e| e.resp.starts_with("accepted:") && e.call.len() > 6 + 2 * e.resp[9..].parse::<usize>().unwrap()) {
            ctx.stat("runs_with_partial_writes");
        }
        ctx.emit(&q, &ans);
    }
}
