//! C02 (live HTTP/3 part): CONNECT tunnels through the real QUIC multiplexer, HTTP/3 codec, Tunnel
//! and direct forwarder (`Core::listen` on a loopback UDP port, wall clock) to a loopback origin:
//! patterned data both ways, slow readers on either side, small flow-control windows, and the two
//! ways a tunnel ends. What each side received must be exactly what the other sent, followed by
//! the end of the stream.
use crate::common::*;
use crate::h3cli::H3Client;
use std::io::{Read, Write};
use std::net::{SocketAddr, TcpListener};
use std::sync::Arc;
use std::time::{Duration, Instant};
use trusttunnel::core::Core;
use trusttunnel::settings::*;
use trusttunnel::shutdown::Shutdown;

fn pattern(n: usize, salt: u8) -> Vec<u8> {
    (0..n).map(|i| (i as u32).wrapping_mul(2654435761).rotate_left(7) as u8 ^ salt).collect()
}

pub fn free_port() -> u16 {
    // a port free for both TCP and UDP
    for _ in 0..50 {
        let l = TcpListener::bind("127.0.0.1:0").unwrap();
        let p = l.local_addr().unwrap().port();
        if std::net::UdpSocket::bind(("127.0.0.1", p)).is_ok() {
            return p;
        }
    }
    panic!("no free port");
}

pub struct LiveEndpoint {
    pub addr: SocketAddr,
    pub core: Arc<Core>,
    rt: Option<tokio::runtime::Runtime>,
}

impl LiveEndpoint {
    /// the real `Core::listen` (TCP + QUIC) on a loopback port, on its own runtime
    pub fn start(build: impl Fn(SocketAddr) -> Core) -> Option<LiveEndpoint> {
        Self::start_on(false, build)
    }

    /// `dual_stack`: the endpoint listens on `[::]` (IPv4 peers reach it as `::ffff:a.b.c.d`); clients still use 127.0.0.1
    pub fn start_on(dual_stack: bool, build: impl Fn(SocketAddr) -> Core) -> Option<LiveEndpoint> {
        let port = free_port();
        let addr: SocketAddr = ([127, 0, 0, 1], port).into();
        let listen: SocketAddr = if dual_stack { (std::net::Ipv6Addr::UNSPECIFIED, port).into() } else { addr };
        let core = Arc::new(build(listen));
        let rt = tokio::runtime::Builder::new_multi_thread().worker_threads(2).enable_all().build().unwrap();
        let c2 = core.clone();
        rt.spawn(async move {
            let _ = c2.listen().await;
        });
        let t0 = Instant::now();
        loop {
            if std::net::TcpStream::connect_timeout(&addr, Duration::from_millis(200)).is_ok() {
                break;
            }
            if t0.elapsed() > Duration::from_secs(5) {
                return None;
            }
            std::thread::sleep(Duration::from_millis(20));
        }
        Some(LiveEndpoint { addr, core, rt: Some(rt) })
    }
}

impl Drop for LiveEndpoint {
    fn drop(&mut self) {
        if let Some(rt) = self.rt.take() {
            rt.shutdown_timeout(Duration::from_millis(300));
        }
    }
}

pub fn plain_hosts() -> TlsHostsSettings {
    TlsHostsSettings::builder()
        .main_hosts(vec![TlsHostInfo {
            hostname: "localhost".into(),
            cert_chain_path: FIXTURE_PEM.into(),
            private_key_path: FIXTURE_PEM.into(),
            allowed_sni: vec![],
        }])
        .build()
        .unwrap()
}

fn make_core(addr: SocketAddr) -> Core {
    let settings = Settings::builder()
        .listen_address(addr)
        .unwrap()
        .listen_protocols(ListenProtocolSettings {
            http1: Some(Http1Settings::builder().build()),
            http2: Some(Http2Settings::builder().build()),
            quic: Some(QuicSettings::builder().build()),
        })
        .allow_private_network_connections(true)
        .build()
        .unwrap();
    Core::new(settings, None, plain_hosts(), Shutdown::new()).unwrap()
}

#[derive(Clone, Debug)]
struct Case {
    window: u64,
    up: usize,
    down: usize,
    /// bytes the client takes per round and stream (0: everything available)
    client_step: usize,
    /// bytes the origin takes per round (0: everything available)
    origin_step: usize,
    /// 'o': the origin closes after its last byte; 'c': the client ends its stream after its last byte
    end: char,
}

fn run_case(ep: &LiveEndpoint, origin_l: &TcpListener, c: &Case) -> Result<(), String> {
    let up = pattern(c.up, 0x21);
    let down = pattern(c.down, 0x5a);
    let target = origin_l.local_addr().unwrap().to_string();
    let mut cl = H3Client::connect(ep.addr, Some("localhost"), &[b"h3"], c.window, Duration::from_secs(3)).map_err(|e| format!("QUIC handshake: {:?}", e))?;
    cl.read_step = c.client_step;
    let id = cl.request("CONNECT", None, &target, None, &[("user-agent".to_string(), b"verif".to_vec())], false).ok_or("the request stream could not be opened")?;
    // the origin's side of the connection
    let t0 = Instant::now();
    let mut origin = loop {
        cl.pump();
        if let Ok((s, _)) = origin_l.accept() {
            break s;
        }
        if t0.elapsed() > Duration::from_secs(3) {
            return Err(format!("the origin saw no connection (response so far: {:?})", cl.stream(id).status));
        }
        std::thread::sleep(Duration::from_millis(1));
    };
    origin.set_nonblocking(true).map_err(|e| e.to_string())?;
    origin.set_nodelay(true).map_err(|e| e.to_string())?;
    let mut origin_open = true;
    let (mut up_off, mut down_off) = (0usize, 0usize);
    let mut origin_got: Vec<u8> = vec![];
    let mut origin_saw_fin = false;
    let mut client_ended = false;
    let start = Instant::now();
    let mut round = 0u64;
    let mut last_progress = Instant::now();
    let mut last_sizes = (0usize, 0usize);
    loop {
        round += 1;
        // a slow client takes its step only every fourth round
        cl.reading = c.client_step == 0 || round % 4 == 0;
        cl.pump();
        // client -> origin
        if up_off < up.len() {
            let end = (up_off + 16384).min(up.len());
            match cl.send_body(id, &up[up_off..end], false) {
                Ok(n) => up_off += n,
                Err(e) => return Err(format!("client could not send after {} bytes: {}", up_off, e)),
            }
        } else if (c.end == 'c' || (c.end == 'O' && !origin_open)) && !client_ended {
            if cl.finish(id)? {
                client_ended = true;
            }
        }
        // origin reads
        if !origin_saw_fin {
            let mut buf = vec![0u8; if c.origin_step == 0 { 1 << 16 } else { c.origin_step }];
            let mut taken = 0;
            loop {
                match origin.read(&mut buf) {
                    Ok(0) => {
                        origin_saw_fin = true;
                        break;
                    }
                    Ok(n) => {
                        origin_got.extend_from_slice(&buf[..n]);
                        taken += n;
                        if c.origin_step != 0 && taken >= c.origin_step {
                            break;
                        }
                    }
                    Err(_) => break,
                }
            }
        }
        // origin -> client
        if origin_open && down_off < down.len() {
            let end = (down_off + 16384).min(down.len());
            if let Ok(n) = origin.write(&down[down_off..end]) {
                down_off += n;
            }
        } else if origin_open && ((c.end == 'o' && down_off == down.len() && origin_got.len() == up.len()) || (c.end == 'O' && down_off == down.len())) {
            // 'O': the origin ends its side as soon as it has sent everything, while the client is still uploading
            let _ = origin.shutdown(std::net::Shutdown::Write);
            origin_open = false;
        }
        let st = cl.stream(id);
        let client_eof = st.finished || st.reset.is_some();
        let done = origin_got.len() >= up.len() && st.body.len() >= down.len() && (c.end != 'o' || client_eof) && (c.end != 'c' || origin_saw_fin) && (c.end != 'O' || (client_eof && origin_saw_fin));
        if (origin_got.len(), st.body.len()) != last_sizes {
            last_sizes = (origin_got.len(), st.body.len());
            last_progress = Instant::now();
        }
        let timed_out = last_progress.elapsed() > Duration::from_secs(4) || start.elapsed() > Duration::from_secs(40);
        if done || timed_out || cl.conn.is_closed() {
            let mut problems = vec![];
            if st.status != Some(200) {
                problems.push(format!("CONNECT was answered {:?}", st.status));
            }
            if st.heads > 1 {
                problems.push(format!("{} response heads", st.heads));
            }
            if origin_got != up {
                problems.push(format!(
                    "the origin received {} bytes, the client sent {} (first difference at {:?})",
                    origin_got.len(),
                    up.len(),
                    origin_got.iter().zip(up.iter()).position(|(a, b)| a != b)
                ));
            }
            if st.body != down {
                problems.push(format!(
                    "the client received {} bytes, the origin sent {} (first difference at {:?})",
                    st.body.len(),
                    down.len(),
                    st.body.iter().zip(down.iter()).position(|(a, b)| a != b)
                ));
            }
            if c.end == 'o' && !st.finished {
                problems.push(format!("the origin closed after its last byte but the client's stream was not ended (reset: {:?}, connection closed: {})", st.reset, cl.conn.is_closed()));
            }
            if c.end == 'O' && (!st.finished || !origin_saw_fin) {
                problems.push(format!(
                    "the origin ended its side early and the client finished its upload afterwards: the client's stream ended: {} (reset {:?}), the origin saw the end of the upload: {}",
                    st.finished, st.reset, origin_saw_fin
                ));
            }
            if c.end == 'c' && !origin_saw_fin {
                problems.push("the client ended its stream after its last byte but the origin never saw the end of the stream".to_string());
            }
            cl.close();
            return if problems.is_empty() { Ok(()) } else { Err(problems.join("; ")) };
        }
        if round % 8 == 0 {
            std::thread::sleep(Duration::from_micros(200));
        }
    }
}

/// a failure on either side tears the whole tunnel down: the client resets its stream in the middle of an idle or busy
/// tunnel ('r': the origin's connection must be closed), or the origin aborts its connection with a TCP reset ('x': the
/// client's stream must end, and what it got must be a prefix of what the origin sent)
fn run_failure_case(ep: &LiveEndpoint, origin_l: &TcpListener, who: char, busy: bool) -> Result<(), String> {
    let target = origin_l.local_addr().unwrap().to_string();
    let mut cl = H3Client::connect(ep.addr, Some("localhost"), &[b"h3"], 1 << 20, Duration::from_secs(3)).map_err(|e| format!("QUIC handshake: {:?}", e))?;
    let id = cl.request("CONNECT", None, &target, None, &[], false).ok_or("the request stream could not be opened")?;
    let t0 = Instant::now();
    let mut origin = loop {
        cl.pump();
        if let Ok((s, _)) = origin_l.accept() {
            break s;
        }
        if t0.elapsed() > Duration::from_secs(3) {
            return Err("the origin saw no connection".to_string());
        }
        std::thread::sleep(Duration::from_millis(1));
    };
    origin.set_nonblocking(true).map_err(|e| e.to_string())?;
    cl.wait(Duration::from_secs(2), |c| c.streams.get(&id).map(|s| s.status.is_some()).unwrap_or(false));
    if cl.stream(id).status != Some(200) {
        return Err(format!("CONNECT was answered {:?}", cl.stream(id).status));
    }
    // some traffic both ways first
    let up = pattern(5000, 0x31);
    let down = pattern(7000, 0x47);
    let (mut uo, mut dn_o, mut got) = (0usize, 0usize, 0usize);
    let mut buf = vec![0u8; 65536];
    let t0 = Instant::now();
    while (got < up.len() || cl.stream(id).body.len() < down.len()) && t0.elapsed() < Duration::from_secs(4) {
        if uo < up.len() {
            uo += cl.send_body(id, &up[uo..], false).unwrap_or(0);
        }
        if dn_o < down.len() {
            if let Ok(n) = origin.write(&down[dn_o..]) {
                dn_o += n;
            }
        }
        if let Ok(n) = origin.read(&mut buf) {
            got += n;
        }
        cl.pump();
    }
    if got != up.len() || cl.stream(id).body != down {
        return Err("the tunnel did not relay the first bytes".to_string());
    }
    if busy {
        // the other direction is in the middle of a transfer when the failure happens
        if who == 'r' {
            let _ = origin.write(&pattern(30_000, 0x01));
        } else {
            let _ = cl.send_body(id, &pattern(30_000, 0x02), false);
        }
    }
    if who == 'r' {
        cl.reset_stream(id, 0x10c);
        // the origin must see its connection closed (end of stream or reset), not a tunnel that stays half open
        let t0 = Instant::now();
        loop {
            cl.pump();
            match origin.read(&mut buf) {
                Ok(0) => return Ok(()),
                Ok(_) => {}
                Err(e) if e.kind() == std::io::ErrorKind::WouldBlock => {}
                Err(_) => return Ok(()),
            }
            if t0.elapsed() > Duration::from_secs(3) {
                return Err("the client reset its stream, 3 s later the origin's connection was still open (the failure did not tear the tunnel down)".to_string());
            }
            std::thread::sleep(Duration::from_millis(2));
        }
    } else {
        let sock = socket2::SockRef::from(&origin);
        let _ = sock.set_linger(Some(Duration::from_secs(0)));
        drop(origin);
        let ended = cl.wait(Duration::from_secs(3), |c| c.streams.get(&id).map(|s| s.finished || s.reset.is_some()).unwrap_or(false) || c.conn.is_closed());
        let st = cl.stream(id);
        if !ended {
            return Err("the origin aborted its connection, 3 s later the client's stream was still open (the failure did not tear the tunnel down)".to_string());
        }
        if !st.body.starts_with(&down) || st.body.len() > down.len() {
            return Err(format!("after the origin aborted the client holds {} bytes that are not what the origin sent", st.body.len()));
        }
        Ok(())
    }
}

/// the operations every HTTP/3 codec performed on its stream table during the run (recorded by the door), replayed by
/// the Lean model `TT.H3Streams`, one codec (connection) at a time
fn replay_stream_tables(ctx: &mut Ctx) {
    let log: Vec<String> = trusttunnel::verif::hooks::STATE.lock().unwrap().h3_stream_ops.clone();
    let mut by_codec: Vec<(String, Vec<(String, String)>)> = vec![];
    for l in &log {
        // "<codec> <op words...> => [table]"
        let Some((lhs, table)) = l.split_once(" => [") else { continue };
        let table = table.trim_end_matches(']');
        let mut w = lhs.split(' ');
        let codec = w.next().unwrap_or("").to_string();
        let op = w.collect::<Vec<_>>().join(".");
        let state = if table.is_empty() { "-".to_string() } else { table.to_string() };
        match by_codec.iter_mut().find(|(c, _)| *c == codec) {
            Some(e) => e.1.push((op, state)),
            None => by_codec.push((codec, vec![(op, state)])),
        }
    }
    ctx.stat_add("h3_stream_table_codecs", by_codec.len() as u64);
    ctx.stat_add("h3_stream_table_operations", log.len() as u64);
    for k in ["req", "fin", "close", "sd", "err"] {
        ctx.stat_add(&format!("h3_stream_op_{}", k), by_codec.iter().map(|(_, v)| v.iter().filter(|(o, _)| o.starts_with(k)).count() as u64).sum());
    }
    for (_, ops) in by_codec {
        let mut init = "-".to_string();
        for chunk in ops.chunks(80) {
            ctx.emit(
                &format!("c02 h3streams {} {}", init, chunk.iter().map(|(o, _)| o.as_str()).collect::<Vec<_>>().join(";")),
                &chunk.iter().map(|(_, s)| s.as_str()).collect::<Vec<_>>().join(" | "),
            );
            init = chunk[chunk.len() - 1].1.clone();
            // an entry with both directions shut down must have been removed
            for (o, st) in chunk {
                if st.split(',').any(|e| e.ends_with(":11")) {
                    ctx.oracle_failure("stream_table", &format!("after {} the stream table holds a stream whose two directions are shut down: [{}]", o, st));
                }
            }
        }
    }
}

pub fn run(ctx: &mut Ctx) {
    quiet_panics();
    trusttunnel::verif::hooks::reset();
    let Some(ep) = LiveEndpoint::start(make_core) else {
        ctx.notes.push("c02h3: the endpoint's listener did not come up on loopback; nothing was run".to_string());
        return;
    };
    let origin_l = TcpListener::bind("127.0.0.1:0").unwrap();
    origin_l.set_nonblocking(true).unwrap();
    let big = if ctx.thorough() { 1_000_000 } else { 300_000 };
    let mut cases = vec![];
    for window in [1u64 << 20, 8192] {
        for (up, down) in [(70_000usize, 0usize), (0, 70_000), (big, big), (1, 1), (0, 0)] {
            for (client_step, origin_step) in [(0usize, 0usize), (700, 0), (0, 900)] {
                for end in ['o', 'c', 'O'] {
                    if (client_step != 0 && down == 0) || (origin_step != 0 && up == 0) {
                        continue;
                    }
                    // the early half-close of the origin only differs from 'o' when something is still being uploaded
                    if end == 'O' && (up < 70_000 || client_step != 0) {
                        continue;
                    }
                    // a small window with a slow side and the big transfer takes too long for the quick tier
                    if !ctx.thorough() && window == 8192 && (client_step != 0 || origin_step != 0) && up == big {
                        continue;
                    }
                    cases.push(Case { window, up, down, client_step, origin_step, end });
                }
            }
        }
    }
    if !ctx.thorough() {
        cases = cases.into_iter().enumerate().filter(|(i, c)| c.end == 'O' || i % 3 == (ctx.seed % 3) as usize).map(|(_, c)| c).collect();
    }
    for (who, busy) in [('r', false), ('r', true), ('x', false), ('x', true)] {
        ctx.stat("live_h3_failing_tunnels");
        let desc = format!(
            "CONNECT over HTTP/3, 5000 bytes up and 7000 down, then {} while the other direction is {}",
            if who == 'r' { "the client resets its stream" } else { "the origin aborts its connection (TCP reset)" },
            if busy { "transferring" } else { "idle" }
        );
        match catch(std::panic::AssertUnwindSafe(|| run_failure_case(&ep, &origin_l, who, busy))) {
            Ok(Ok(())) => {}
            Ok(Err(e)) => ctx.oracle_failure("live_tunnel", &format!("{}: {}", desc, e)),
            Err(m) => ctx.oracle_failure("panic", &format!("{}: panicked ({})", desc, m)),
        }
    }
    let only: Option<usize> = std::env::var("C02H3_ONLY").ok().and_then(|x| x.parse().ok());
    for (ci, c) in cases.into_iter().enumerate() {
        if only.map(|o| o != ci).unwrap_or(false) {
            continue;
        }
        let desc = format!(
            "[{}] CONNECT over HTTP/3 (client flow-control window {} bytes): {} bytes up, {} bytes down, client takes {} per read, origin takes {} per read, {} ends first",
            ci,
            c.window,
            c.up,
            c.down,
            if c.client_step == 0 { "everything".to_string() } else { c.client_step.to_string() },
            if c.origin_step == 0 { "everything".to_string() } else { c.origin_step.to_string() },
            match c.end {
                'o' => "the origin",
                'O' => "the origin (as soon as it has sent everything, the client still uploading)",
                _ => "the client",
            }
        );
        ctx.stat("live_h3_tunnels");
        match catch(std::panic::AssertUnwindSafe(|| run_case(&ep, &origin_l, &c))) {
            Ok(Ok(())) => {}
            Ok(Err(e)) => ctx.oracle_failure("live_tunnel", &format!("{}: {}", desc, e)),
            Err(m) => ctx.oracle_failure("panic", &format!("{}: panicked ({})", desc, m)),
        }
    }
    // a few multi-stream sessions: concurrent requests ended in every way on one connection
    for k in 0..3 {
        if let Ok(mut cl) = H3Client::connect(ep.addr, Some("localhost"), &[b"h3"], 1 << 20, Duration::from_secs(3)) {
            let target = origin_l.local_addr().unwrap().to_string();
            let a = cl.request("CONNECT", None, "_check", None, &[], k % 2 == 0);
            let b = cl.request("CONNECT", None, &target, None, &[], false);
            let c = cl.request("CONNECT", None, "127.0.0.1:1", None, &[], false);
            let d = cl.request("GET", Some("http"), "127.0.0.1:1", Some("/"), &[], true);
            cl.wait(Duration::from_millis(600), |x| [a, b, c, d].iter().flatten().all(|i| x.streams.get(i).map(|s| s.status.is_some() || s.reset.is_some()).unwrap_or(false)));
            if let Some(b) = b {
                let _ = cl.send_body(b, b"some bytes", false);
                match k {
                    0 => {
                        let _ = cl.finish(b);
                    }
                    1 => cl.reset_stream(b, 0x10c),
                    _ => {}
                }
            }
            if let Ok((s, _)) = origin_l.accept() {
                drop(s);
            }
            cl.wait(Duration::from_millis(300), |_| false);
            cl.close();
            cl.wait(Duration::from_millis(30), |_| false);
        }
    }
    std::thread::sleep(Duration::from_millis(100));
    replay_stream_tables(ctx);
}
