//! C02 (live part): CONNECT tunnels through the real HTTP/1.1 and HTTP/2 codecs and the real direct
//! forwarder to a loopback origin: patterned data both ways, slow readers on either side, small
//! transports (so that the codecs block in their writes), and the two ways a tunnel ends. What each
//! side received must be exactly what the other sent, followed by the end of stream.
use crate::c16;
use crate::common::*;
use std::io::{Read, Write};
use std::time::{Duration, Instant};
use trusttunnel::verif::vlive;

fn pattern(n: usize, salt: u8) -> Vec<u8> {
    (0..n).map(|i| (i as u32).wrapping_mul(2654435761).rotate_left(7) as u8 ^ salt).collect()
}

#[derive(Clone, Debug)]
struct Case {
    h2: bool,
    capacity: usize,
    up: usize,
    down: usize,
    /// bytes the client takes per round (0: everything available)
    client_step: usize,
    /// bytes the origin takes per round (0: everything available)
    origin_step: usize,
    /// who ends: 'o' the origin closes after its last byte, 'c' the client ends its stream after its last byte
    end: char,
}

fn run_case(tw: &c16::TcpWorld, c: &Case) -> Result<(), String> {
    let rt = tokio::runtime::Builder::new_current_thread().enable_all().start_paused(true).build().unwrap();
    let up = pattern(c.up, 0x11);
    let down = pattern(c.down, 0x77);
    rt.block_on(async {
        let core = c16::make_core_pub();
        let target = tw.origin.to_string();
        let mut h1 = None;
        let mut h2 = None;
        let mut st = None;
        if c.h2 {
            let mut s = vlive::open_h2_with(&core, "localhost", c.capacity).await.ok_or("h2 handshake")?;
            st = Some(s.request("CONNECT", &target, &[], false).await.ok_or("h2 request")?);
            h2 = Some(s);
        } else {
            let mut s = vlive::open_h1_with(&core, "localhost", c.capacity);
            let head = format!("CONNECT {} HTTP/1.1\r\nHost: {}\r\n\r\n", target, target);
            let mut off = 0;
            let t0 = Instant::now();
            while off < head.len() {
                off += s.write_some(&head.as_bytes()[off..]);
                tokio::task::yield_now().await;
                if t0.elapsed() > Duration::from_secs(2) {
                    return Err("request head not accepted".to_string());
                }
            }
            h1 = Some(s);
        }
        // the origin's side of the connection
        let t0 = Instant::now();
        let mut origin = loop {
            for _ in 0..50 {
                tokio::task::yield_now().await;
            }
            if let Ok((s, _)) = tw.listener.accept() {
                break s;
            }
            if t0.elapsed() > Duration::from_secs(3) {
                return Err("the origin saw no connection".to_string());
            }
        };
        origin.set_nonblocking(true).map_err(|e| e.to_string())?;
        origin.set_nodelay(true).map_err(|e| e.to_string())?;
        let mut origin_open = true;
        let (mut up_off, mut down_off) = (0usize, 0usize);
        let mut origin_got: Vec<u8> = vec![];
        let mut origin_saw_fin = false;
        let mut client_ended = false;
        let mut h1_head_len: Option<usize> = None;
        let start = Instant::now();
        let mut round = 0u64;
        loop {
            round += 1;
            for _ in 0..20 {
                tokio::task::yield_now().await;
            }
            // client -> origin
            if up_off < up.len() {
                let end = (up_off + 16384).min(up.len());
                match (st.as_mut(), h1.as_mut()) {
                    (Some(s), _) => {
                        // an HTTP/2 client may send DATA frames without payload in the middle of its upload
                        if round % 2 == 1 {
                            s.send(&[], false);
                        }
                        if s.send(&up[up_off..end], false) {
                            up_off = end;
                        }
                    }
                    (_, Some(h)) => up_off += h.write_some(&up[up_off..end]),
                    _ => {}
                }
            } else if c.end == 'c' && !client_ended {
                // an HTTP/1.1 client ends only when it has everything (its half-close ends the session)
                let have_all = match (st.as_ref(), h1.as_ref()) {
                    (Some(_), _) => true,
                    (_, Some(h)) => h1_head_len.map(|p| h.received.len() >= p + down.len()).unwrap_or(false),
                    _ => true,
                };
                if have_all {
                    match (st.as_mut(), h1.as_mut()) {
                        (Some(s), _) => {
                            s.send(&[], true);
                        }
                        (_, Some(h)) => h.shutdown_write(),
                        _ => {}
                    }
                    client_ended = true;
                }
            }
            // origin reads
            if origin_open || !origin_saw_fin {
                let mut buf = vec![0u8; if c.origin_step == 0 { 1 << 16 } else { c.origin_step }];
                let mut taken = 0;
                loop {
                    match origin.read(&mut buf) {
                        Ok(0) => {
                            origin_saw_fin = true;
                            break;
                        }
                        Ok(n) => {
                            origin_got.extend_from_slice(&buf[..n]);
                            taken += n;
                            if c.origin_step != 0 && taken >= c.origin_step {
                                break;
                            }
                        }
                        Err(_) => break,
                    }
                }
            }
            // origin -> client
            if origin_open && down_off < down.len() {
                let end = (down_off + 16384).min(down.len());
                if let Ok(n) = origin.write(&down[down_off..end]) {
                    down_off += n;
                }
            } else if origin_open && c.end == 'o' && down_off == down.len() && origin_got.len() == up.len() {
                let _ = origin.shutdown(std::net::Shutdown::Write);
                origin_open = false;
            }
            // client reads (a slow one only every fourth round)
            if c.client_step == 0 || round % 4 == 0 {
                match (st.as_mut(), h1.as_mut()) {
                    (Some(s), _) => s.poll(),
                    (_, Some(h)) => {
                        if c.client_step == 0 {
                            h.poll()
                        } else {
                            h.poll_some(c.client_step)
                        }
                    }
                    _ => {}
                }
            }
            if let Some(h) = h1.as_ref() {
                if h1_head_len.is_none() {
                    h1_head_len = h.received.windows(4).position(|w| w == b"\r\n\r\n").map(|p| p + 4);
                }
            }
            let (client_got, client_eof): (Vec<u8>, bool) = match (st.as_ref(), h1.as_ref()) {
                (Some(s), _) => (s.received.clone(), s.ended || s.failed),
                (_, Some(h)) => (h1_head_len.map(|p| h.received[p..].to_vec()).unwrap_or_default(), h.eof),
                _ => (vec![], false),
            };
            let done = origin_got.len() >= up.len()
                && client_got.len() >= down.len()
                && (c.end != 'o' || client_eof)
                && (c.end != 'c' || origin_saw_fin);
            let timed_out = start.elapsed() > Duration::from_secs(6);
            if done || timed_out {
                let status_ok = match (st.as_ref(), h1.as_ref()) {
                    (Some(s), _) => s.status == Some(200),
                    (_, Some(h)) => h.received.starts_with(b"HTTP/1.1 200"),
                    _ => false,
                };
                let failed = st.as_ref().map(|s| s.failed).unwrap_or(false);
                let mut problems = vec![];
                if !status_ok {
                    problems.push("CONNECT was not answered 200".to_string());
                }
                if origin_got != up {
                    problems.push(format!(
                        "the origin received {} bytes, the client sent {} (first difference at {:?})",
                        origin_got.len(),
                        up.len(),
                        origin_got.iter().zip(up.iter()).position(|(a, b)| a != b)
                    ));
                }
                if client_got != down {
                    problems.push(format!(
                        "the client received {} bytes, the origin sent {} (first difference at {:?})",
                        client_got.len(),
                        down.len(),
                        client_got.iter().zip(down.iter()).position(|(a, b)| a != b)
                    ));
                }
                if c.end == 'o' && !client_eof {
                    problems.push("the origin closed after its last byte but the client never saw the end of the stream".to_string());
                }
                if c.end == 'o' && failed {
                    problems.push(format!("the client's stream was reset instead of ended (ended={})", st.as_ref().map(|s| s.ended).unwrap_or(false)));
                }
                if c.end == 'c' && !origin_saw_fin {
                    problems.push("the client ended its stream after its last byte but the origin never saw the end of the stream".to_string());
                }
                let _ = &h2;
                return if problems.is_empty() { Ok(()) } else { Err(problems.join("; ")) };
            }
        }
    })
}

/// a failure on either side tears the whole tunnel down: the client resets its stream (HTTP/2) or drops its connection
/// (HTTP/1.1) - the origin's connection must end; or the origin aborts with a TCP reset - the client's stream /
/// connection must end, holding nothing but a prefix of what the origin sent
fn run_failure_case(tw: &c16::TcpWorld, h2: bool, who: char) -> Result<(), String> {
    let rt = tokio::runtime::Builder::new_current_thread().enable_all().start_paused(true).build().unwrap();
    rt.block_on(async {
        let core = c16::make_core_pub();
        let target = tw.origin.to_string();
        let mut h1 = None;
        let mut h2s = None;
        let mut st = None;
        if h2 {
            let mut s = vlive::open_h2_with(&core, "localhost", 1 << 20).await.ok_or("h2 handshake")?;
            st = Some(s.request("CONNECT", &target, &[], false).await.ok_or("h2 request")?);
            h2s = Some(s);
        } else {
            let mut s = vlive::open_h1_with(&core, "localhost", 1 << 20);
            s.send(format!("CONNECT {} HTTP/1.1\r\nHost: {}\r\n\r\n", target, target).as_bytes());
            h1 = Some(s);
        }
        let spin = |ms: u64| async move {
            let t = Instant::now();
            while t.elapsed() < Duration::from_millis(ms) {
                for _ in 0..50 {
                    tokio::task::yield_now().await;
                }
            }
        };
        let t0 = Instant::now();
        let mut origin = loop {
            spin(1).await;
            if let Ok((s, _)) = tw.listener.accept() {
                break s;
            }
            if t0.elapsed() > Duration::from_secs(3) {
                return Err("the origin saw no connection".to_string());
            }
        };
        origin.set_nonblocking(true).map_err(|e| e.to_string())?;
        origin.set_nodelay(true).map_err(|e| e.to_string())?;
        // some traffic both ways first
        let up = pattern(3000, 0x21);
        let down = pattern(4000, 0x43);
        match (st.as_mut(), h1.as_mut()) {
            (Some(s), _) => {
                s.send(&up, false);
            }
            (_, Some(h)) => {
                h.send(&up);
            }
            _ => {}
        }
        let _ = origin.write(&down);
        let mut got = vec![];
        let mut buf = vec![0u8; 65536];
        let t0 = Instant::now();
        loop {
            spin(1).await;
            if let Ok(n) = origin.read(&mut buf) {
                got.extend_from_slice(&buf[..n]);
            }
            let have = match (st.as_mut(), h1.as_mut()) {
                (Some(s), _) => {
                    s.poll();
                    s.received.len()
                }
                (_, Some(h)) => {
                    h.poll();
                    h.received.windows(4).position(|w| w == b"\r\n\r\n").map(|p| h.received.len() - p - 4).unwrap_or(0)
                }
                _ => 0,
            };
            if got.len() >= up.len() && have >= down.len() {
                break;
            }
            if t0.elapsed() > Duration::from_secs(3) {
                return Err("the tunnel did not relay the first bytes".to_string());
            }
        }
        if who == 'r' {
            match (st.as_mut(), h1.take()) {
                (Some(s), _) => s.reset(),
                (_, Some(h)) => drop(h),
                _ => {}
            }
            let t0 = Instant::now();
            loop {
                spin(1).await;
                match origin.read(&mut buf) {
                    Ok(0) => return Ok(()),
                    Ok(_) => {}
                    Err(e) if e.kind() == std::io::ErrorKind::WouldBlock => {}
                    Err(_) => return Ok(()),
                }
                if t0.elapsed() > Duration::from_secs(3) {
                    return Err("the client gave its stream / connection up, 3 s later the origin's connection was still open".to_string());
                }
            }
        } else {
            let _ = socket2::SockRef::from(&origin).set_linger(Some(Duration::from_secs(0)));
            drop(origin);
            let t0 = Instant::now();
            loop {
                spin(1).await;
                let (over, body): (bool, Vec<u8>) = match (st.as_mut(), h1.as_mut()) {
                    (Some(s), _) => {
                        s.poll();
                        if s.ended && !s.failed {
                            // (HTTP/2 can tell the two apart: END_STREAM is a complete answer, RST_STREAM a broken one)
                            return Err("the origin aborted its connection (TCP reset) in the middle of the exchange; the client's stream was ended cleanly, as if the answer were complete".to_string());
                        }
                        (s.ended || s.failed, s.received.clone())
                    }
                    (_, Some(h)) => {
                        h.poll();
                        (h.eof, h.received.windows(4).position(|w| w == b"\r\n\r\n").map(|p| h.received[p + 4..].to_vec()).unwrap_or_default())
                    }
                    _ => (true, vec![]),
                };
                if over {
                    let _ = &h2s;
                    return if down.starts_with(&body) || body.starts_with(&down) && body.len() == down.len() { Ok(()) } else { Err(format!("after the origin aborted the client holds {} bytes that are not what the origin sent", body.len())) };
                }
                if t0.elapsed() > Duration::from_secs(3) {
                    return Err("the origin aborted its connection (TCP reset), 3 s later the client's stream was still open".to_string());
                }
            }
        }
    })
}

pub fn run(ctx: &mut Ctx) {
    let tw = c16::make_tcp_world();
    for h2 in [false, true] {
        for who in ['r', 'x'] {
            ctx.stat("live_failing_tunnels");
            let desc = format!(
                "CONNECT over {}, 3000 bytes up and 4000 down, then {}",
                if h2 { "HTTP/2" } else { "HTTP/1.1" },
                if who == 'r' { if h2 { "the client resets its stream" } else { "the client drops its connection" } } else { "the origin aborts its connection (TCP reset)" }
            );
            match catch(std::panic::AssertUnwindSafe(|| run_failure_case(&tw, h2, who))) {
                Ok(Ok(())) => {}
                Ok(Err(e)) => ctx.oracle_failure("live_tunnel", &format!("{}: {}", desc, e)),
                Err(m) => ctx.oracle_failure("panic", &format!("{}: panicked ({})", desc, m)),
            }
        }
    }
    let sizes: &[usize] = if ctx.thorough() { &[0, 1, 70_000, 1_000_000] } else { &[0, 1, 70_000, 300_000] };
    let mut cases = vec![];
    for h2 in [false, true] {
        for capacity in [1usize << 22, 2048] {
            for (up, down) in [(sizes[2], 0usize), (0, sizes[2]), (sizes[3], sizes[3]), (sizes[1], sizes[1]), (0, 0)] {
                for (client_step, origin_step) in [(0usize, 0usize), (700, 0), (0, 900)] {
                    for end in ['o', 'c'] {
                        // a slow side only matters when something flows towards it
                        if (client_step != 0 && down == 0) || (origin_step != 0 && up == 0) {
                            continue;
                        }
                        cases.push(Case { h2, capacity, up, down, client_step, origin_step, end });
                    }
                }
            }
        }
    }
    if !ctx.thorough() {
        // every third combination in the quick tier
        cases = cases.into_iter().enumerate().filter(|(i, _)| i % 3 == (ctx.seed % 3) as usize).map(|(_, c)| c).collect();
    }
    for c in cases {
        let desc = format!(
            "CONNECT over {} (transport {} bytes): {} bytes up, {} bytes down, client takes {} per read, origin takes {} per read, {} ends first",
            if c.h2 { "HTTP/2" } else { "HTTP/1.1" },
            c.capacity,
            c.up,
            c.down,
            if c.client_step == 0 { "everything".to_string() } else { c.client_step.to_string() },
            if c.origin_step == 0 { "everything".to_string() } else { c.origin_step.to_string() },
            if c.end == 'o' { "the origin" } else { "the client" }
        );
        ctx.stat(if c.h2 { "live_h2_tunnels" } else { "live_h1_tunnels" });
        match catch(std::panic::AssertUnwindSafe(|| run_case(&tw, &c))) {
            Ok(Ok(())) => {}
            Ok(Err(e)) => ctx.oracle_failure("live_tunnel", &format!("{}: {}", desc, e)),
            Err(m) => ctx.oracle_failure("panic", &format!("{}: panicked ({})", desc, m)),
        }
    }
}
