//! C03: private-network egress policy.
use crate::common::*;
use std::net::{IpAddr, Ipv6Addr, SocketAddr};
use std::sync::{Arc, Mutex};
use trusttunnel::core::Core;
use trusttunnel::settings::{Http1Settings, ListenProtocolSettings, Settings, TlsHostInfo, TlsHostsSettings};
use trusttunnel::shutdown::Shutdown;
use trusttunnel::verif;

/// maximal closed intervals of `n` in [0, 2^32) for which `f(n)` is false, computed on
/// all 2^32 values with `threads` workers
fn blocked_intervals_u32<F: Fn(u32) -> bool + Sync>(f: F, threads: u32) -> Vec<(u32, u32)> {
    let chunk: u64 = (1u64 << 32) / threads as u64;
    let parts: Vec<Vec<(u32, u32)>> = std::thread::scope(|s| {
        let hs: Vec<_> = (0..threads)
            .map(|t| {
                let f = &f;
                s.spawn(move || {
                    let lo = t as u64 * chunk;
                    let hi = if t == threads - 1 { 1u64 << 32 } else { lo + chunk };
                    let mut out: Vec<(u32, u32)> = vec![];
                    let mut cur: Option<u32> = None;
                    for n in lo..hi {
                        let n = n as u32;
                        if !f(n) {
                            if cur.is_none() {
                                cur = Some(n);
                            }
                        } else if let Some(st) = cur.take() {
                            out.push((st, n - 1));
                        }
                    }
                    if let Some(st) = cur {
                        out.push((st, (hi - 1) as u32));
                    }
                    out
                })
            })
            .collect();
        hs.into_iter().map(|h| h.join().unwrap()).collect()
    });
    let mut merged: Vec<(u32, u32)> = vec![];
    for p in parts {
        for (a, b) in p {
            if let Some(last) = merged.last_mut() {
                if last.1 != u32::MAX && last.1 + 1 == a {
                    last.1 = b;
                    continue;
                }
            }
            merged.push((a, b));
        }
    }
    merged
}

fn fmt_intervals(v: &[(u32, u32)]) -> String {
    if v.is_empty() {
        return "-".into();
    }
    v.iter().map(|(a, b)| format!("{}-{}", a, b)).collect::<Vec<_>>().join(",")
}

fn make_core(allow: bool, v6ok: bool) -> Core {
    let settings = Settings::builder()
        .listen_address(("127.0.0.1", 1))
        .unwrap()
        .listen_protocols(ListenProtocolSettings {
            http1: Some(Http1Settings::builder().build()),
            ..Default::default()
        })
        .allow_private_network_connections(allow)
        .ipv6_available(v6ok)
        .build()
        .unwrap();
    let hosts = TlsHostsSettings::builder()
        .main_hosts(vec![TlsHostInfo {
            hostname: "localhost".into(),
            cert_chain_path: FIXTURE_PEM.into(),
            private_key_path: FIXTURE_PEM.into(),
            allowed_sni: vec![],
        }])
        .build()
        .unwrap();
    Core::new(settings, None, hosts, Shutdown::new()).unwrap()
}

fn outcome_str(o: &verif::VConnectOutcome, attempts: &[SocketAddr]) -> String {
    use verif::VConnectOutcome::*;
    match o {
        DnsLoopback => "loopback".into(),
        DnsNonroutable => "nonroutable".into(),
        Io(m) if m.contains("Resolved to empty list") || m.contains("scripted resolver failure") => {
            "resolvefail".into()
        }
        _ => {
            // anything else is the outcome of a connection attempt
            if attempts.len() == 1 {
                format!("connect {} {}", ip_tokens(&attempts[0].ip()), attempts[0].port())
            } else {
                format!("attempts={}", attempts.len())
            }
        }
    }
}

pub fn run(ctx: &mut Ctx) {
    let threads = std::thread::available_parallelism().map(|x| x.get() as u32).unwrap_or(8).min(32);

    // (i) IPv4: every one of the 2^32 addresses
    let t = blocked_intervals_u32(|n| verif::is_global_ip(v4(n)), threads);
    ctx.emit("c03 v4table", &fmt_intervals(&t));
    ctx.stat_add("v4_addresses_classified", 1u64 << 32);

    // (ii) every IPv4 address embedded as ::ffff:a.b.c.d
    let t = blocked_intervals_u32(
        |n| verif::is_global_ip(IpAddr::V6(Ipv6Addr::new(0, 0, 0, 0, 0, 0xffff, (n >> 16) as u16, n as u16))),
        threads,
    );
    ctx.emit("c03 v6mappedtable", &fmt_intervals(&t));
    ctx.stat_add("v6_mapped_addresses_classified", 1u64 << 32);

    // (iii) IPv6 structural classes: for fixed s1..s7, every value of the first hextet
    let mut s1s: Vec<u16> = vec![0, 1, 0x0db7, 0x0db8, 0x0db9, 0x4860, 0xffff];
    let tails: Vec<[u16; 6]> = vec![
        [0, 0, 0, 0, 0, 0],
        [0, 0, 0, 0, 0, 1],
        [0, 0, 0, 0, 0, 0x8888],
        [0, 0, 0, 0xffff, 0x7f00, 1],
        [0x1234, 0x5678, 0x9abc, 0xdef0, 0x0a00, 0x0001],
        [0xffff, 0xffff, 0xffff, 0xffff, 0xffff, 0xffff],
    ];
    if ctx.thorough() {
        for k in 0..400u32 {
            s1s.push(ctx.rng.next() as u16);
            let _ = k;
        }
        for b in 0..16 {
            s1s.push(1u16 << b);
        }
    }
    for s1 in &s1s {
        for tail in &tails {
            let mk = |s0: u16| v6([s0, *s1, tail[0], tail[1], tail[2], tail[3], tail[4], tail[5]]);
            let mut iv: Vec<(u32, u32)> = vec![];
            let mut cur: Option<u32> = None;
            for s0 in 0..=0xffffu32 {
                if !verif::is_global_ip(mk(s0 as u16)) {
                    if cur.is_none() {
                        cur = Some(s0);
                    }
                } else if let Some(st) = cur.take() {
                    iv.push((st, s0 - 1));
                }
            }
            if let Some(st) = cur {
                iv.push((st, 0xffff));
            }
            ctx.emit(
                &format!("c03 v6sweep0 {} {} {} {} {} {} {}", s1, tail[0], tail[1], tail[2], tail[3], tail[4], tail[5]),
                &fmt_intervals(&iv),
            );
            ctx.stat_add("v6_addresses_classified", 65536);
        }
    }
    // ... and for interesting first hextets, every value of the second one
    let s0s: Vec<u16> = vec![0, 0x2001, 0x2002, 0xfe80, 0xfebf, 0xfec0, 0xfc00, 0xfdff, 0xff0e, 0xff02, 0x0064];
    for s0 in &s0s {
        for tail in &tails {
            let mk = |s1: u16| v6([*s0, s1, tail[0], tail[1], tail[2], tail[3], tail[4], tail[5]]);
            let mut iv: Vec<(u32, u32)> = vec![];
            let mut cur: Option<u32> = None;
            for s1 in 0..=0xffffu32 {
                if !verif::is_global_ip(mk(s1 as u16)) {
                    if cur.is_none() {
                        cur = Some(s1);
                    }
                } else if let Some(st) = cur.take() {
                    iv.push((st, s1 - 1));
                }
            }
            if let Some(st) = cur {
                iv.push((st, 0xffff));
            }
            ctx.emit(
                &format!("c03 v6sweep1 {} {} {} {} {} {} {}", s0, tail[0], tail[1], tail[2], tail[3], tail[4], tail[5]),
                &fmt_intervals(&iv),
            );
            ctx.stat_add("v6_addresses_classified", 65536);
        }
    }

    // (iv) destination selection through the real TcpForwarder::connect, resolver scripted,
    // outbound connect stubbed (recorded, fails with ENETUNREACH)
    let rt = tokio::runtime::Builder::new_current_thread().enable_all().build().unwrap();
    let pool: Vec<IpAddr> = vec![
        "8.8.8.8".parse().unwrap(),
        "1.1.1.1".parse().unwrap(),
        "127.0.0.1".parse().unwrap(),
        "127.8.9.10".parse().unwrap(),
        "10.1.2.3".parse().unwrap(),
        "192.168.1.1".parse().unwrap(),
        "169.254.169.254".parse().unwrap(),
        "100.64.0.1".parse().unwrap(),
        "192.0.0.9".parse().unwrap(),
        "192.0.0.8".parse().unwrap(),
        "0.0.0.0".parse().unwrap(),
        "255.255.255.255".parse().unwrap(),
        "::1".parse().unwrap(),
        "::".parse().unwrap(),
        "2001:4860:4860::8888".parse().unwrap(),
        "2001:db8::1".parse().unwrap(),
        "fe80::1".parse().unwrap(),
        "fe8e::1".parse().unwrap(),
        "fd0e::1".parse().unwrap(),
        "fc00::1".parse().unwrap(),
        "::ffff:127.0.0.1".parse().unwrap(),
        "::ffff:10.0.0.1".parse().unwrap(),
        "::ffff:8.8.8.8".parse().unwrap(),
        "2606:4700::1111".parse().unwrap(),
        "ff0e::1".parse().unwrap(),
        "ff02::1".parse().unwrap(),
    ];
    let mut host_seq = 0u64;
    for allow in [false, true] {
        for v6ok in [false, true] {
            let core = make_core(allow, v6ok);
            // literals
            for ip in &pool {
                let port = 1000 + ctx.rng.below(60000) as u16;
                verif::hooks::reset();
                verif::hooks::STATE.lock().unwrap().stub_tcp_connect_errno = Some(libc::ENETUNREACH);
                let o = rt.block_on(verif::tcp_forwarder_connect(
                    &core,
                    verif::VTcpDestination::Address(SocketAddr::new(*ip, port)),
                ));
                let attempts = verif::hooks::STATE.lock().unwrap().tcp_connects.clone();
                let ans = outcome_str(&o, &attempts);
                ctx.emit(
                    &format!("c03 connect {} {} addr {} {}", allow as u8, v6ok as u8, ip_tokens(ip), port),
                    &ans,
                );
                ctx.stat(&format!("literal_{}", ans.split(' ').next().unwrap()));
            }
            // an IP literal that arrives as a host name (`GET http://127.0.0.1/` without a port, a CONNECT
            // authority the socket-address parser does not take): the name goes through the real resolver
            // call (no script for it), which answers with the literal itself - the policy applies as to any name
            for ip in &pool {
                let mut texts = vec![ip.to_string()];
                if ip.is_ipv6() {
                    texts.push(format!("[{}]", ip));
                }
                for text in texts {
                    let port = 1000 + ctx.rng.below(60000) as u16;
                    verif::hooks::reset();
                    verif::hooks::STATE.lock().unwrap().stub_tcp_connect_errno = Some(libc::ENETUNREACH);
                    let o = rt.block_on(verif::tcp_forwarder_connect(
                        &core,
                        verif::VTcpDestination::HostName(text.clone(), port),
                    ));
                    let attempts = verif::hooks::STATE.lock().unwrap().tcp_connects.clone();
                    let ans = outcome_str(&o, &attempts);
                    ctx.emit(
                        &format!("c03 connect {} {} host 1 {} {}", allow as u8, v6ok as u8, ip_tokens(ip), port),
                        &ans,
                    );
                    ctx.stat(&format!("literal_as_host_name_{}", ans.split(' ').next().unwrap()));
                }
            }
            // host names: all answer lists of length 0..2 over the pool (quick: sampled), random longer ones
            let mut lists: Vec<Vec<IpAddr>> = vec![vec![]];
            for a in &pool {
                lists.push(vec![*a]);
            }
            let n_pairs = if ctx.thorough() { pool.len() * pool.len() } else { 150 };
            if ctx.thorough() {
                for a in &pool {
                    for b in &pool {
                        lists.push(vec![*a, *b]);
                    }
                }
            } else {
                for _ in 0..n_pairs {
                    lists.push(vec![*ctx.rng.pick(&pool), *ctx.rng.pick(&pool)]);
                }
            }
            let n_long = if ctx.thorough() { 3000 } else { 150 };
            for _ in 0..n_long {
                let n = ctx.rng.range(3, 6) as usize;
                lists.push((0..n).map(|_| *ctx.rng.pick(&pool)).collect());
            }
            for l in &lists {
                host_seq += 1;
                let name = format!("h{}.verif.test", host_seq);
                let port = 1000 + ctx.rng.below(60000) as u16;
                verif::hooks::reset();
                {
                    let mut st = verif::hooks::STATE.lock().unwrap();
                    st.stub_tcp_connect_errno = Some(libc::ENETUNREACH);
                    st.resolver
                        .insert(name.clone(), Ok(l.iter().map(|ip| SocketAddr::new(*ip, port)).collect()));
                }
                let o = rt.block_on(verif::tcp_forwarder_connect(
                    &core,
                    verif::VTcpDestination::HostName(name.clone(), port),
                ));
                let attempts = verif::hooks::STATE.lock().unwrap().tcp_connects.clone();
                let ans = outcome_str(&o, &attempts);
                let mut q = format!("c03 connect {} {} host {}", allow as u8, v6ok as u8, l.len());
                for ip in l {
                    q.push_str(&format!(" {} {}", ip_tokens(ip), port));
                }
                ctx.emit(&q, &ans);
                ctx.stat(&format!("host_{}", ans.split(' ').next().unwrap()));
            }
            // resolver failure
            host_seq += 1;
            let name = format!("h{}.verif.test", host_seq);
            verif::hooks::reset();
            {
                let mut st = verif::hooks::STATE.lock().unwrap();
                st.stub_tcp_connect_errno = Some(libc::ENETUNREACH);
                st.resolver.insert(name.clone(), Err("scripted resolver failure".into()));
            }
            let o = rt.block_on(verif::tcp_forwarder_connect(&core, verif::VTcpDestination::HostName(name, 80)));
            let attempts = verif::hooks::STATE.lock().unwrap().tcp_connects.clone();
            ctx.emit(
                &format!("c03 connect {} {} hostfail", allow as u8, v6ok as u8),
                &outcome_str(&o, &attempts),
            );
        }
    }

    // (iv-b) the policy switches as a settings *file* gives them: written out, and left out (the documented defaults are
    // allow_private_network_connections = false, ipv6_available = true)
    for (text, allow, v6ok) in [
        ("", false, true),
        ("allow_private_network_connections = false\n", false, true),
        ("allow_private_network_connections = true\n", true, true),
        ("ipv6_available = false\n", false, false),
        ("allow_private_network_connections = true\nipv6_available = false\n", true, false),
        ("ipv6_available = true\nallow_private_network_connections = false\n", false, true),
    ] {
        let toml_text = format!("listen_address = \"127.0.0.1:1\"\n{}[listen_protocols]\n[listen_protocols.http1]\n", text);
        let settings: trusttunnel::settings::Settings = match toml::from_str(&toml_text) {
            Ok(s) => s,
            Err(e) => {
                ctx.oracle_failure("settings_file", &format!("settings file {:?} was not read: {}", toml_text, e));
                continue;
            }
        };
        let hosts = trusttunnel::settings::TlsHostsSettings::builder()
            .main_hosts(vec![trusttunnel::settings::TlsHostInfo { hostname: "localhost".into(), cert_chain_path: FIXTURE_PEM.into(), private_key_path: FIXTURE_PEM.into(), allowed_sni: vec![] }])
            .build()
            .unwrap();
        let core = match Core::new(settings, None, hosts, trusttunnel::shutdown::Shutdown::new()) {
            Ok(c) => c,
            Err(e) => {
                ctx.oracle_failure("settings_file", &format!("settings file {:?}: the endpoint does not start: {:?}", toml_text, e));
                continue;
            }
        };
        for ip in &pool {
            let port = 1000 + ctx.rng.below(60000) as u16;
            verif::hooks::reset();
            verif::hooks::STATE.lock().unwrap().stub_tcp_connect_errno = Some(libc::ENETUNREACH);
            let o = rt.block_on(verif::tcp_forwarder_connect(&core, verif::VTcpDestination::Address(SocketAddr::new(*ip, port))));
            let attempts = verif::hooks::STATE.lock().unwrap().tcp_connects.clone();
            ctx.emit(&format!("c03 connect {} {} addr {} {}", allow as u8, v6ok as u8, ip_tokens(ip), port), &outcome_str(&o, &attempts));
            ctx.stat("policy_from_settings_file");
        }
    }

    // (v) canary listeners on this machine's non-global addresses, real connects (no stub):
    // with the restrictive policy no spelling may reach them
    verif::hooks::reset();
    let accepts = Arc::new(Mutex::new(Vec::<String>::new()));
    rt.block_on(async {
        let mut targets: Vec<SocketAddr> = vec![];
        for bind in ["127.0.0.1:0", "[::1]:0", "192.0.2.2:0", "[fd00::2]:0", "0.0.0.0:0", "[::]:0"] {
            if let Ok(l) = tokio::net::TcpListener::bind(bind).await {
                let local = l.local_addr().unwrap();
                targets.push(local);
                let accepts = accepts.clone();
                tokio::spawn(async move {
                    loop {
                        if let Ok((_s, peer)) = l.accept().await {
                            accepts.lock().unwrap().push(format!("{} <- {}", local, peer));
                        }
                    }
                });
            }
        }
        let core = make_core(false, true);
        let mut spellings: Vec<SocketAddr> = vec![];
        for t in &targets {
            let p = t.port();
            spellings.push(SocketAddr::new(t.ip(), p));
            for s in ["127.0.0.1", "127.1.2.3", "::1", "::ffff:127.0.0.1", "::ffff:192.0.2.2", "0.0.0.0", "::",
                      "192.0.2.2", "fd00::2", "::ffff:0.0.0.0", "::ffff:7f00:1"] {
                if let Ok(ip) = s.parse::<IpAddr>() {
                    spellings.push(SocketAddr::new(ip, p));
                }
            }
        }
        for sp in &spellings {
            let _ = tokio::time::timeout(
                std::time::Duration::from_millis(500),
                verif::tcp_forwarder_connect(&core, verif::VTcpDestination::Address(*sp)),
            )
            .await;
        }
        // the same spellings as host names (IP literal text, bracketed for IPv6)
        for sp in &spellings {
            let mut texts = vec![sp.ip().to_string()];
            if sp.is_ipv6() {
                texts.push(format!("[{}]", sp.ip()));
            }
            for text in texts {
                let _ = tokio::time::timeout(
                    std::time::Duration::from_millis(500),
                    verif::tcp_forwarder_connect(&core, verif::VTcpDestination::HostName(text, sp.port())),
                )
                .await;
            }
        }
        // host names resolving to the canaries
        for (i, t) in targets.iter().enumerate() {
            let name = format!("canary{}.verif.test", i);
            verif::hooks::STATE.lock().unwrap().resolver.insert(name.clone(), Ok(vec![*t]));
            let _ = tokio::time::timeout(
                std::time::Duration::from_millis(500),
                verif::tcp_forwarder_connect(&core, verif::VTcpDestination::HostName(name, t.port())),
            )
            .await;
        }
        // names whose answer lists a global address that cannot be reached first and a canary second: the failed attempt
        // is the end of it - no other address of the answer is tried behind the policy's back
        for (i, t) in targets.iter().enumerate() {
            for (k, first) in ["[ff0e::1234]:443", "8.8.8.8:443", "[2606:4700:4700::1111]:443"].iter().enumerate() {
                let name = format!("fallback{}x{}.verif.test", i, k);
                let first: SocketAddr = first.parse().unwrap();
                verif::hooks::STATE.lock().unwrap().resolver.insert(name.clone(), Ok(vec![SocketAddr::new(first.ip(), t.port()), *t]));
                let _ = tokio::time::timeout(
                    std::time::Duration::from_millis(700),
                    verif::tcp_forwarder_connect(&core, verif::VTcpDestination::HostName(name, t.port())),
                )
                .await;
                ctx.stat("canary_behind_failing_global_address");
            }
        }
        tokio::time::sleep(std::time::Duration::from_millis(100)).await;
        ctx.stat_add("canary_listeners", targets.len() as u64);
        ctx.stat_add("canary_spellings_tried", spellings.len() as u64 + targets.len() as u64);
    });
    let acc = accepts.lock().unwrap().clone();
    for a in acc {
        ctx.oracle_failure("canary_accept", &format!("policy=deny but a local listener was reached: {}", a));
    }
}
