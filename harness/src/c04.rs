//! C04: connection filtering rules
use crate::common::*;
use std::io::Write;
use std::net::{IpAddr, SocketAddr};
use std::sync::Arc;
use trusttunnel::core::Core;
use trusttunnel::rules::{Rule, RuleAction, RuleEvaluation, RulesConfig, RulesEngine};
use trusttunnel::settings::{Http1Settings, ListenProtocolSettings, Settings, TlsHostInfo, TlsHostsSettings};
use trusttunnel::shutdown::Shutdown;

fn cidr_token(c: &Option<String>) -> String {
    match c {
        None => "a".into(),
        Some(s) => match s.parse::<ipnet::IpNet>() {
            Err(_) => "i".into(),
            Ok(ipnet::IpNet::V4(n)) => format!("n4 {} {}", u32::from(n.addr()), n.prefix_len()),
            Ok(ipnet::IpNet::V6(n)) => format!("n6 {} {}", u128::from(n.addr()), n.prefix_len()),
        },
    }
}

pub fn ip_token(ip: &Option<IpAddr>) -> String {
    match ip {
        None => "none".into(),
        Some(IpAddr::V4(x)) => format!("4 {}", u32::from(*x)),
        Some(IpAddr::V6(x)) => format!("6 {}", u128::from(*x)),
    }
}

pub fn rules_tokens(rules: &[Rule]) -> String {
    let mut s = format!("{}", rules.len());
    for r in rules {
        s.push_str(&format!(
            " {} {} {}",
            cidr_token(&r.cidr),
            match &r.client_random_prefix {
                None => "-".to_string(),
                Some(p) => format!("p{}", if p.is_empty() { String::new() } else { hex(p.as_bytes()) }),
            },
            if r.action == RuleAction::Allow { "a" } else { "d" }
        ));
    }
    s
}

pub fn make_core(rules: Option<Vec<Rule>>, listen: SocketAddr) -> Core {
    let mut b = Settings::builder()
        .listen_address(listen)
        .unwrap()
        .listen_protocols(ListenProtocolSettings {
            http1: Some(Http1Settings::builder().build()),
            ..Default::default()
        })
        .tls_handshake_timeout(std::time::Duration::from_secs(2));
    if let Some(r) = rules {
        b = b.rules_engine(RulesEngine::from_config(RulesConfig { rule: r }));
    }
    let settings = b.build().unwrap();
    let hosts = TlsHostsSettings::builder()
        .main_hosts(vec![TlsHostInfo {
            hostname: "localhost".into(),
            cert_chain_path: FIXTURE_PEM.into(),
            private_key_path: FIXTURE_PEM.into(),
            allowed_sni: vec![],
        }])
        .build()
        .unwrap();
    Core::new(settings, None, hosts, Shutdown::new()).unwrap()
}

fn client_hello(sni: &str) -> Vec<u8> {
    let config = rustls::ClientConfig::builder()
        .with_safe_defaults()
        .with_custom_certificate_verifier(Arc::new(NoVerify))
        .with_no_client_auth();
    let mut conn = rustls::ClientConnection::new(Arc::new(config), sni.try_into().unwrap()).unwrap();
    let mut buf = Vec::new();
    conn.write_tls(&mut buf).unwrap();
    buf
}

/// a ClientHello made long by its ALPN list (`extra` unknown protocol names after http/1.1): larger than one read of the
/// endpoint's look at the first bytes
fn client_hello_big(sni: &str, extra: usize) -> Vec<u8> {
    let mut config = rustls::ClientConfig::builder()
        .with_safe_defaults()
        .with_custom_certificate_verifier(Arc::new(NoVerify))
        .with_no_client_auth();
    config.alpn_protocols.push(b"http/1.1".to_vec());
    for i in 0..extra {
        config.alpn_protocols.push(format!("x-verif-padding-protocol-{:04}", i).into_bytes());
    }
    let mut conn = rustls::ClientConnection::new(Arc::new(config), sni.try_into().unwrap()).unwrap();
    let mut buf = Vec::new();
    while conn.wants_write() {
        if conn.write_tls(&mut buf).is_err() {
            break;
        }
    }
    buf
}

struct NoVerify;
impl rustls::client::ServerCertVerifier for NoVerify {
    fn verify_server_cert(
        &self,
        _: &rustls::Certificate,
        _: &[rustls::Certificate],
        _: &rustls::ServerName,
        _: &mut dyn Iterator<Item = &[u8]>,
        _: &[u8],
        _: std::time::SystemTime,
    ) -> Result<rustls::client::ServerCertVerified, rustls::Error> {
        Ok(rustls::client::ServerCertVerified::assertion())
    }
}

pub fn run(ctx: &mut Ctx) {
    let cidrs: Vec<Option<String>> = vec![
        None,
        Some("10.0.0.0/8".into()),
        Some("10.1.2.3/8".into()),
        Some("192.168.1.0/24".into()),
        Some("0.0.0.0/0".into()),
        Some("10.1.2.3/32".into()),
        Some("2001:db8::/32".into()),
        Some("::/0".into()),
        Some("::ffff:10.0.0.0/104".into()),
        Some("10.0.0.0".into()),
        Some("10.0.0.0/33".into()),
        Some("banana".into()),
        Some("".into()),
    ];
    let patterns: Vec<Option<String>> = vec![
        None,
        Some("aabbcc".into()),
        Some("AABBCC".into()),
        Some("aa".into()),
        Some("a0b0/f0f0".into()),
        Some("12345678/ffff0000".into()),
        Some("a0b0/f0".into()),
        Some("a0/f0f0".into()),
        Some("abc".into()),
        Some("zz".into()),
        Some("aabbcc/".into()),
        Some("/ff".into()),
        Some("".into()),
        Some("/".into()),
        Some("aa/ff/ff".into()),
        Some("aa /ff".into()),
        Some("00/00".into()),
        Some("ffffffffffffffffffffffffffffffffffffffffffffffffffffffffffffffffff".into()),
    ];
    let ips: Vec<Option<IpAddr>> = vec![
        Some("10.1.2.3".parse().unwrap()),
        Some("::ffff:10.1.2.3".parse().unwrap()),
        Some("192.168.1.77".parse().unwrap()),
        Some("::ffff:192.168.1.77".parse().unwrap()),
        Some("127.0.0.1".parse().unwrap()),
        Some("2001:db8::5".parse().unwrap()),
        Some("::1".parse().unwrap()),
        Some("8.8.8.8".parse().unwrap()),
        None,
    ];
    let mut randoms: Vec<Option<Vec<u8>>> = vec![
        None,
        Some(vec![]),
        Some(vec![0xaa]),
        Some(vec![0xaa, 0xbb, 0xcc, 0xdd]),
        Some(vec![0xa5, 0xb5, 0x11]),
        Some(vec![0x12, 0x34, 0xaa, 0xaa]),
        Some(vec![0xff; 32]),
        Some(vec![0x00; 32]),
    ];
    for _ in 0..4 {
        randoms.push(Some(ctx.rng.bytes(32)));
    }
    let gen_rule = |ctx: &mut Ctx| Rule {
        cidr: ctx.rng.pick(&cidrs).clone(),
        client_random_prefix: ctx.rng.pick(&patterns).clone(),
        action: if ctx.rng.chance(1, 2) { RuleAction::Allow } else { RuleAction::Deny },
    };
    let mut lists: Vec<Vec<Rule>> = vec![vec![]];
    // every single rule
    for c in &cidrs {
        for p in &patterns {
            for a in [RuleAction::Allow, RuleAction::Deny] {
                lists.push(vec![Rule { cidr: c.clone(), client_random_prefix: p.clone(), action: a }]);
            }
        }
    }
    let n_rand = if ctx.thorough() { 20_000 } else { 1_500 };
    for _ in 0..n_rand {
        let n = ctx.rng.range(2, if ctx.thorough() { 12 } else { 5 }) as usize;
        lists.push((0..n).map(|_| gen_rule(ctx)).collect());
    }
    for (li, rules) in lists.iter().enumerate() {
        let engine = RulesEngine::from_config(RulesConfig { rule: rules.clone() });
        let core = if li % 7 == 0 || rules.len() <= 1 {
            Some(make_core(Some(rules.clone()), "127.0.0.1:1".parse().unwrap()))
        } else {
            None
        };
        let rt = rules_tokens(rules);
        let combos: Vec<(usize, usize)> = if rules.len() <= 1 {
            (0..ips.len()).flat_map(|i| (0..randoms.len()).map(move |r| (i, r))).collect()
        } else {
            (0..10).map(|_| (ctx.rng.below(ips.len() as u64) as usize, ctx.rng.below(randoms.len() as u64) as usize)).collect()
        };
        for (i, r) in combos {
            let ip = &ips[i];
            let rnd = &randoms[r];
            let rtok = match rnd {
                None => "none".to_string(),
                Some(b) => hex(b),
            };
            if let Some(ipv) = ip {
                let q = format!("c04 eval 0 {} {} {}", ip_token(ip), rtok, rt);
                match catch(std::panic::AssertUnwindSafe(|| engine.evaluate(ipv, rnd.as_deref()))) {
                    Ok(v) => {
                        let ans = if v == RuleEvaluation::Allow { "allow" } else { "deny" };
                        ctx.emit(&q, ans);
                        ctx.stat(&format!("engine_{}", ans));
                    }
                    Err(m) => {
                        ctx.emit(&q, "panic");
                        ctx.oracle_failure("panic", &format!("RulesEngine::evaluate panicked ({}) on {}", m, q));
                    }
                }
            }
            if let Some(core) = &core {
                let q = format!("c04 eval 1 {} {} {}", ip_token(ip), rtok, rt);
                match catch(std::panic::AssertUnwindSafe(|| core.verif_evaluate_connection_rules(*ip, rnd.as_deref()))) {
                    Ok(ok) => {
                        let ans = if ok { "allow" } else { "deny" };
                        ctx.emit(&q, ans);
                        ctx.stat(&format!("connection_{}", ans));
                    }
                    Err(m) => {
                        ctx.emit(&q, "panic");
                        ctx.oracle_failure("panic", &format!("evaluate_connection_rules panicked ({}) on {}", m, q));
                    }
                }
            }
        }
    }
    // no rules engine configured at all (rules_file absent -> default allow engine; builder default too)
    let core = make_core(None, "127.0.0.1:1".parse().unwrap());
    for ip in &ips {
        let ok = core.verif_evaluate_connection_rules(*ip, None);
        ctx.emit(&format!("c04 eval 1 {} none 0", ip_token(ip)), if ok { "allow" } else { "deny" });
    }

    // rules files through the real Settings deserialiser
    let dir = std::env::temp_dir().join(format!("tt_c04_{}", std::process::id()));
    std::fs::create_dir_all(&dir).unwrap();
    let files: Vec<(&str, String)> = vec![
        ("two", "[[rule]]\ncidr = \"10.0.0.0/8\"\naction = \"deny\"\n\n[[rule]]\nclient_random_prefix = \"aabb/ff00\"\naction = \"allow\"\n".into()),
        ("unknown_action", "[[rule]]\ncidr = \"10.0.0.0/8\"\naction = \"reject\"\n\n[[rule]]\naction = \"deny\"\n".into()),
        ("no_action", "[[rule]]\ncidr = \"10.0.0.0/8\"\n".into()),
        ("nonstring", "[[rule]]\ncidr = 5\nclient_random_prefix = true\naction = \"deny\"\n".into()),
        ("empty", "".into()),
        ("garbage", "[[rule\nthis is not toml".into()),
        ("literal", "[[rule]]\ncidr = '192.168.1.0/24'\nclient_random_prefix = 'AB'\naction = 'allow'\n[[rule]]\naction = \"deny\"\n".into()),
        // a field given as the empty string is a given field: an empty CIDR matches nobody, an empty prefix still asks for a random
        ("empty_cidr", "[[rule]]\ncidr = \"\"\naction = \"allow\"\n\n[[rule]]\ncidr = \"10.0.0.0/8\"\naction = \"deny\"\n".into()),
        ("empty_prefix", "[[rule]]\ncidr = \"192.168.0.0/16\"\nclient_random_prefix = \"\"\naction = \"deny\"\n\n[[rule]]\nclient_random_prefix = \"\"\naction = \"allow\"\n\n[[rule]]\naction = \"deny\"\n".into()),
    ];
    for (name, content) in &files {
        let path = dir.join(format!("{}.toml", name));
        std::fs::File::create(&path).unwrap().write_all(content.as_bytes()).unwrap();
        let st = format!(
            "listen_address = \"127.0.0.1:1\"\nrules_file = \"{}\"\n[listen_protocols.http1]\n",
            path.display()
        );
        match toml::from_str::<Settings>(&st) {
            Ok(settings) => {
                let engine = settings.get_rules_engine().as_ref().unwrap();
                let rules = &engine.config().rule;
                // expected reading of the file, independent of the endpoint: see `expected_rules`
                let exp = expected_rules(name);
                let got = rules_tokens(rules);
                let want = rules_tokens(&exp);
                if got != want {
                    ctx.oracle_failure("rules_file", &format!("rules file {:?} read as [{}], expected [{}]", content, got, want));
                }
                for ip in &ips {
                    if let Some(ipv) = ip {
                        for rnd in &randoms {
                            let v = engine.evaluate(ipv, rnd.as_deref());
                            let rtok = match rnd {
                                None => "none".to_string(),
                                Some(b) => hex(b),
                            };
                            ctx.emit(
                                &format!("c04 eval 0 {} {} {}", ip_token(ip), rtok, got),
                                if v == RuleEvaluation::Allow { "allow" } else { "deny" },
                            );
                        }
                    }
                }
                ctx.stat("rules_files_read");
            }
            Err(e) => ctx.oracle_failure("rules_file", &format!("settings with rules file {} rejected: {}", name, e)),
        }
    }
    let _ = std::fs::remove_dir_all(&dir);

    // wiring: a denied TCP peer gets no ServerHello byte; an allowed one does
    let rt = tokio::runtime::Builder::new_multi_thread().worker_threads(2).enable_all().build().unwrap();
    rt.block_on(async {
        for (deny, sni) in [(true, "localhost"), (false, "localhost"), (true, "x.localhost")] {
            let port = {
                let l = std::net::TcpListener::bind("127.0.0.1:0").unwrap();
                l.local_addr().unwrap().port()
            };
            let addr: SocketAddr = format!("127.0.0.1:{}", port).parse().unwrap();
            let rules = if deny {
                vec![Rule { cidr: Some("127.0.0.0/8".into()), client_random_prefix: None, action: RuleAction::Deny }]
            } else {
                vec![Rule { cidr: Some("10.0.0.0/8".into()), client_random_prefix: None, action: RuleAction::Deny }]
            };
            let core = Arc::new(make_core(Some(rules), addr));
            let c2 = core.clone();
            let task = tokio::spawn(async move {
                let _ = c2.listen().await;
            });
            let mut got: Option<Vec<u8>> = None;
            for _ in 0..50 {
                tokio::time::sleep(std::time::Duration::from_millis(20)).await;
                if let Ok(mut s) = tokio::net::TcpStream::connect(addr).await {
                    use tokio::io::{AsyncReadExt, AsyncWriteExt};
                    let _ = s.write_all(&client_hello(sni)).await;
                    let mut buf = vec![0u8; 4096];
                    let mut all = vec![];
                    loop {
                        match tokio::time::timeout(std::time::Duration::from_millis(1500), s.read(&mut buf)).await {
                            Ok(Ok(0)) | Ok(Err(_)) => break,
                            Ok(Ok(n)) => {
                                all.extend_from_slice(&buf[..n]);
                                break;
                            }
                            Err(_) => {
                                all.extend_from_slice(b"<stalled>");
                                break;
                            }
                        }
                    }
                    got = Some(all);
                    break;
                }
            }
            task.abort();
            match got {
                None => ctx.notes.push("accept-path probe: could not connect to the test listener".into()),
                Some(bytes) => {
                    if deny && !bytes.is_empty() {
                        ctx.oracle_failure("deny_not_early", &format!("denied peer received {} byte(s) from the endpoint: {}", bytes.len(), hex(&bytes[..bytes.len().min(16)])));
                    }
                    if !deny && (bytes.is_empty() || bytes[0] != 0x16) {
                        ctx.oracle_failure("allow_no_handshake", &format!("allowed peer did not receive a TLS handshake record: {}", hex(&bytes[..bytes.len().min(16)])));
                    }
                    ctx.stat(if deny { "wiring_denied_probe" } else { "wiring_allowed_probe" });
                }
            }
        }
    });
}

/// what CONFIGURATION.md says each test rules file means
fn expected_rules(name: &str) -> Vec<Rule> {
    let r = |c: Option<&str>, p: Option<&str>, a: RuleAction| Rule {
        cidr: c.map(String::from),
        client_random_prefix: p.map(String::from),
        action: a,
    };
    match name {
        "two" => vec![r(Some("10.0.0.0/8"), None, RuleAction::Deny), r(None, Some("aabb/ff00"), RuleAction::Allow)],
        "unknown_action" => vec![r(None, None, RuleAction::Deny)],
        "no_action" => vec![],
        "nonstring" => vec![r(None, None, RuleAction::Deny)],
        "empty" => vec![],
        "garbage" => vec![],
        "literal" => vec![r(Some("192.168.1.0/24"), Some("AB"), RuleAction::Allow), r(None, None, RuleAction::Deny)],
        "empty_cidr" => vec![r(Some(""), None, RuleAction::Allow), r(Some("10.0.0.0/8"), None, RuleAction::Deny)],
        "empty_prefix" => vec![r(Some("192.168.0.0/16"), Some(""), RuleAction::Deny), r(None, Some(""), RuleAction::Allow), r(None, None, RuleAction::Deny)],
        _ => vec![],
    }
}

/// C04 live: the real `Core::listen` (TCP + QUIC, on 127.0.0.1 and on the dual-stack `[::]`) with a
/// rules engine; TCP clients send a real ClientHello carrying a chosen random and watch for the
/// ServerHello, QUIC clients complete their handshake (the random is whatever quiche drew) and ask for
/// a health check. Admitted or dropped, compared with the rules model for the peer's actual address.
const TAIL28: &str = "0000000000000000000000000000000000000000000000000000000000000000/0000000000000000000000000000000000000000000000000000000080000000";
const TAIL31: &str = "0000000000000000000000000000000000000000000000000000000000000000/0000000000000000000000000000000000000000000000000000000000000001";

pub fn run_live(ctx: &mut Ctx) {
    use crate::c02h3::LiveEndpoint;
    use crate::h3cli::H3Client;
    use std::io::{Read, Write};
    use std::time::Duration;
    quiet_panics();
    let r = |c: Option<&str>, p: Option<&str>, a: RuleAction| Rule { cidr: c.map(String::from), client_random_prefix: p.map(String::from), action: a };
    use RuleAction::{Allow, Deny};
    let mut lists: Vec<Vec<Rule>> = vec![
        vec![r(Some("127.0.0.0/8"), None, Deny)],
        vec![r(Some("10.0.0.0/8"), None, Deny)],
        vec![r(Some("::ffff:127.0.0.1/128"), None, Deny)],
        vec![r(Some("::1/128"), None, Deny), r(Some("0.0.0.0/8"), None, Deny)],
        vec![r(None, Some("00/80"), Deny)],
        vec![r(Some("127.0.0.1/32"), Some("80/80"), Allow), r(None, None, Deny)],
        vec![r(Some("10.0.0.0/8"), Some("00/00"), Deny), r(None, Some("00/00"), Allow), r(None, None, Deny)],
        vec![r(None, Some("0/f"), Deny), r(Some("127.0.0.0/8"), Some("c0/c0"), Deny)],
        vec![r(None, Some("zz"), Deny), r(Some("banana"), None, Deny), r(Some("127.0.0.1/32"), Some("40/c0"), Deny)],
        // patterns over the whole 32-byte random that look at its last bytes only (a bit of byte 28, of byte 31)
        vec![r(None, Some(TAIL28), Deny)],
        vec![r(None, Some(TAIL31), Allow), r(None, None, Deny)],
    ];
    if ctx.thorough() {
        let cidrs = [None, Some("127.0.0.0/8"), Some("127.0.0.1/32"), Some("::ffff:127.0.0.0/104"), Some("10.0.0.0/8"), Some("::/0"), Some("0.0.0.0/0")];
        let pats = [None, Some("00/80"), Some("80/80"), Some("c0/c0"), Some("00/00"), Some("a"), Some("0000/c000")];
        for _ in 0..16 {
            let n = ctx.rng.range(1, 4);
            lists.push((0..n).map(|_| r(*ctx.rng.pick(&cidrs), *ctx.rng.pick(&pats), if ctx.rng.chance(1, 2) { Allow } else { Deny })).collect());
        }
    }
    let peer: Option<IpAddr> = Some("127.0.0.1".parse().unwrap());
    // an origin for the reverse-proxy host, so that an admitted request is answered
    let origin_l = std::net::TcpListener::bind("127.0.0.1:0").unwrap();
    let origin = origin_l.local_addr().unwrap();
    std::thread::spawn(move || {
        for s in origin_l.incoming() {
            let Ok(mut s) = s else { continue };
            let _ = s.set_read_timeout(Some(Duration::from_secs(1)));
            let mut buf = [0u8; 2048];
            let _ = s.read(&mut buf);
            let _ = s.write_all(b"HTTP/1.1 200 OK\r\ncontent-length: 0\r\nconnection: close\r\n\r\n");
        }
    });
    for (li, rules) in lists.iter().enumerate() {
        let dual = li % 2 == 1;
        let rules2 = rules.clone();
        let Some(ep) = LiveEndpoint::start_on(dual, move |addr| {
            let settings = Settings::builder()
                .listen_address(addr)
                .unwrap()
                .listen_protocols(ListenProtocolSettings {
                    http1: Some(Http1Settings::builder().build()),
                    http2: Some(trusttunnel::settings::Http2Settings::builder().build()),
                    quic: Some(trusttunnel::settings::QuicSettings::builder().build()),
                })
                .tls_handshake_timeout(Duration::from_secs(2))
                .clients(vec![trusttunnel::authentication::registry_based::Client { username: "u".into(), password: "p".into() }])
                .reverse_proxy(trusttunnel::settings::ReverseProxySettings::builder().server_address(origin).unwrap().path_mask("/rp".to_string()).build().unwrap())
                .rules_engine(RulesEngine::from_config(RulesConfig { rule: rules2.clone() }))
                .build()
                .unwrap();
            // every class of host entry: the rules come before any of them is looked at
            const FIX: &str = concat!(env!("CARGO_MANIFEST_DIR"), "/fixtures/");
            let h = |n: &str, f: &str| TlsHostInfo { hostname: n.into(), cert_chain_path: format!("{}{}", FIX, f), private_key_path: format!("{}{}", FIX, f), allowed_sni: vec![] };
            let hosts = TlsHostsSettings::builder()
                .main_hosts(vec![h("localhost", "localhost.pem")])
                .ping_hosts(vec![h("ping.verif.test", "c05_ping.pem")])
                .speedtest_hosts(vec![h("speed.verif.test", "c05_speed.pem")])
                .reverse_proxy_hosts(vec![h("rproxy.verif.test", "c05_rproxy.pem")])
                .build()
                .unwrap();
            Core::new(settings, None, hosts, Shutdown::new()).unwrap()
        }) else {
            ctx.notes.push(format!("c04live: the endpoint's listener did not come up ({}); skipped", if dual { "dual-stack [::]" } else { "127.0.0.1" }));
            continue;
        };
        let rt = rules_tokens(rules);
        // ---- TCP: a chosen random in a real ClientHello ----
        let mut randoms: Vec<Vec<u8>> = vec![vec![0x00; 32], vec![0xff; 32], vec![0x7f; 32], vec![0x80; 32], vec![0x40; 32], vec![0xc0; 32], vec![0x0f; 32]];
        randoms.push(ctx.rng.bytes(32));
        let snis = ["localhost", "ping.verif.test", "speed.verif.test", "rproxy.verif.test", "user.localhost"];
        for (ri, rnd) in randoms.iter().enumerate() {
            let mut hello = client_hello(snis[(ri + li) % snis.len()]);
            hello[11..43].copy_from_slice(rnd);
            let Ok(mut s) = std::net::TcpStream::connect(ep.addr) else { continue };
            let _ = s.set_read_timeout(Some(Duration::from_millis(1500)));
            let _ = s.write_all(&hello);
            let mut buf = [0u8; 4096];
            let ans = match s.read(&mut buf) {
                Ok(0) | Err(_) => "deny",
                Ok(_) if buf[0] == 0x16 => "allow",
                Ok(_) => "other",
            };
            ctx.emit(&format!("c04 eval 1 {} {} {}", ip_token(&peer), hex(rnd), rt), ans);
            ctx.stat(&format!("live_tcp_{}{}", ans, if dual { "_dual_stack" } else { "" }));
        }
        // ---- TCP: long hellos (about 2, 6 and 14 KiB in one record): the random is in the first 43 bytes whatever follows ----
        for (ri, rnd) in randoms.iter().enumerate().take(if ctx.thorough() { 8 } else { 3 }) {
            let mut hello = client_hello_big(snis[(ri + li) % snis.len()], [60usize, 200, 480][ri % 3]);
            if hello.len() < 1100 || hello[0] != 22 || hello[5] != 1 || 5 + u16::from_be_bytes([hello[3], hello[4]]) as usize != hello.len() {
                ctx.notes.push(format!("c04live: unexpected shape of the long hello ({} bytes)", hello.len()));
                continue;
            }
            hello[11..43].copy_from_slice(rnd);
            let Ok(mut s) = std::net::TcpStream::connect(ep.addr) else { continue };
            let _ = s.set_read_timeout(Some(Duration::from_millis(1500)));
            let _ = s.write_all(&hello);
            let mut buf = [0u8; 4096];
            let ans = match s.read(&mut buf) {
                Ok(0) | Err(_) => "deny",
                Ok(_) if buf[0] == 0x16 => "allow",
                Ok(_) => "other",
            };
            ctx.emit(&format!("c04 eval 1 {} {} {}", ip_token(&peer), hex(rnd), rt), ans);
            ctx.stat(&format!("live_tcp_long_hello_{}", ans));
        }
        // ---- TCP: the same hello spread over two TLS records: the endpoint's look at the first record cannot determine
        // the random (C12), so the rules see it as unavailable - lists with a random pattern fail closed ----
        for (ri, rnd) in randoms.iter().enumerate().take(if ctx.thorough() { 8 } else { 3 }) {
            let mut hello = client_hello(snis[(ri + li) % snis.len()]);
            hello[11..43].copy_from_slice(rnd);
            let k = [4usize, 20, 39][ri % 3];
            let body = hello[5..].to_vec();
            let mut framed = vec![];
            for part in [&body[..k], &body[k..]] {
                framed.extend_from_slice(&[22, hello[1], hello[2]]);
                framed.extend_from_slice(&(part.len() as u16).to_be_bytes());
                framed.extend_from_slice(part);
            }
            let Ok(mut s) = std::net::TcpStream::connect(ep.addr) else { continue };
            let _ = s.set_read_timeout(Some(Duration::from_millis(1500)));
            let _ = s.write_all(&framed);
            let mut buf = [0u8; 4096];
            let ans = match s.read(&mut buf) {
                Ok(0) | Err(_) => "deny",
                Ok(_) if buf[0] == 0x16 => "allow",
                Ok(_) => "other",
            };
            ctx.emit(&format!("c04 eval 1 {} none {}", ip_token(&peer), rt), ans);
            ctx.stat(&format!("live_tcp_fragmented_hello_{}", ans));
        }
        // ---- QUIC: the random of the handshake ----
        for k in 0..(if ctx.thorough() { 12 } else { 6 }) {
            let sni = snis[(k + li) % 4];
            let (ans, rnd) = match H3Client::connect(ep.addr, Some(sni), &[b"h3"], 1 << 20, Duration::from_millis(1500)) {
                Err(_) => continue, // the QUIC handshake itself is not subject to the rules
                Ok(mut cl) => {
                    let rnd = cl.client_random();
                    // any answer at all means the connection was admitted (tunnel: health check 200; ping: 200; speedtest: 400;
                    // reverse proxy: whatever its dead origin makes of it)
                    let id = if sni == "localhost" { cl.request("CONNECT", None, "_check", None, &[], false) } else { cl.request("GET", Some("https"), sni, Some("/"), &[], true) };
                    cl.wait(Duration::from_millis(700), |c| id.and_then(|i| c.streams.get(&i)).map(|s| s.status.is_some()).unwrap_or(false));
                    let served = id.map(|i| cl.stream(i).status.is_some()).unwrap_or(false);
                    ctx.stat(&format!("live_quic_sni_{}", sni.split('.').next().unwrap_or("")));
                    if !served {
                        // denied means dropped: a peer that keeps talking (a PING every 100 ms) sees the endpoint close the
                        // connection - it is not left established, acknowledged and buffered for as long as the peer likes
                        let t0 = std::time::Instant::now();
                        let mut closed = false;
                        while t0.elapsed() < Duration::from_millis(2000) {
                            if cl.conn.is_closed() || cl.conn.is_draining() || cl.conn.peer_error().is_some() {
                                closed = true;
                                break;
                            }
                            let _ = cl.conn.send_ack_eliciting();
                            cl.pump();
                            std::thread::sleep(Duration::from_millis(100));
                        }
                        ctx.stat(if closed { "live_quic_denied_and_closed" } else { "live_quic_denied_left_open" });
                        if !closed {
                            ctx.oracle_failure(
                                "denied_connection_left_open",
                                &format!("QUIC connection with SNI {} from {} got no answer to its request (denied), but 2 s and 20 PINGs later the endpoint had not closed it: it is still established (rules [{}])", sni, peer.map(|p| p.to_string()).unwrap_or_default(), rt),
                            );
                        }
                    }
                    cl.close();
                    (if served { "allow" } else { "deny" }, rnd)
                }
            };
            ctx.emit(&format!("c04 eval 1 {} {} {}", ip_token(&peer), hex(&rnd), rt), ans);
            ctx.stat(&format!("live_quic_{}{}", ans, if dual { "_dual_stack" } else { "" }));
        }
    }
}
