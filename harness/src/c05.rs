//! C05: SNI/ALPN demultiplexing and hot reload of TLS host settings
use crate::common::*;
use std::path::PathBuf;
use std::sync::Arc;
use trusttunnel::core::Core;
use trusttunnel::settings::*;
use trusttunnel::shutdown::Shutdown;
use trusttunnel::verif;

#[derive(Clone, Debug, Default)]
pub struct Hosts {
    main: Vec<String>,
    ping: Vec<String>,
    speed: Vec<String>,
    rproxy: Vec<String>,
    alt: Vec<(String, String)>,
}

impl Hosts {
    fn tokens(&self) -> String {
        let mut s = String::new();
        for l in [&self.main, &self.ping, &self.speed, &self.rproxy] {
            s.push_str(&format!("{} ", l.len()));
            for x in l {
                s.push_str(x);
                s.push(' ');
            }
        }
        s.push_str(&format!("{}", self.alt.len()));
        for (a, m) in &self.alt {
            s.push_str(&format!(" {} {}", a, m));
        }
        s
    }
    fn names_valid(&self) -> bool {
        let mut all: Vec<&String> = vec![];
        all.extend(&self.main);
        all.extend(&self.ping);
        all.extend(&self.speed);
        all.extend(&self.rproxy);
        let n = all.len();
        all.sort();
        all.dedup();
        !self.main.is_empty() && all.len() == n
    }
}

struct Files {
    dir: PathBuf,
}

impl Files {
    fn new() -> Self {
        let dir = std::env::temp_dir().join(format!("tt_c05_{}", std::process::id()));
        std::fs::create_dir_all(&dir).unwrap();
        std::fs::write(dir.join("garbage.pem"), b"this is not a certificate").unwrap();
        Files { dir }
    }
    /// per-host copy of the fixture so that the certificate path identifies the host entry
    fn pem(&self, class: &str, host: &str) -> String {
        let p = self.dir.join(format!("{}__{}.pem", class, host));
        if !p.exists() {
            std::fs::copy(FIXTURE_PEM, &p).unwrap();
        }
        p.display().to_string()
    }
    fn garbage(&self) -> String {
        self.dir.join("garbage.pem").display().to_string()
    }
}

impl Drop for Files {
    fn drop(&mut self) {
        let _ = std::fs::remove_dir_all(&self.dir);
    }
}

fn host_infos(files: &Files, class: &str, names: &[String], alt: &[(String, String)], garbage: bool) -> Vec<TlsHostInfo> {
    names
        .iter()
        .map(|n| {
            let pem = if garbage { files.garbage() } else { files.pem(class, n) };
            TlsHostInfo {
                hostname: n.clone(),
                cert_chain_path: pem.clone(),
                private_key_path: pem,
                allowed_sni: if class == "tunnel" { alt.iter().filter(|(_, m)| m == n).map(|(a, _)| a.clone()).collect() } else { vec![] },
            }
        })
        .collect()
}

fn built_hosts(files: &Files, h: &Hosts) -> Result<TlsHostsSettings, String> {
    TlsHostsSettings::builder()
        .main_hosts(host_infos(files, "tunnel", &h.main, &h.alt, false))
        .ping_hosts(host_infos(files, "ping", &h.ping, &[], false))
        .speedtest_hosts(host_infos(files, "speedtest", &h.speed, &[], false))
        .reverse_proxy_hosts(host_infos(files, "reverseproxy", &h.rproxy, &[], false))
        .build()
        .map_err(|e| format!("{:?}", e))
}

/// deserialised (not "built") settings: validation happens inside `reload_tls_hosts_settings`
fn toml_hosts(files: &Files, h: &Hosts, garbage: bool) -> Result<TlsHostsSettings, String> {
    let mut t = String::new();
    if h.main.is_empty() {
        t.push_str("main_hosts = []\n");
    }
    let mut sect = |key: &str, infos: Vec<TlsHostInfo>| {
        for i in infos {
            t.push_str(&format!(
                "[[{}]]\nhostname = \"{}\"\ncert_chain_path = \"{}\"\nprivate_key_path = \"{}\"\nallowed_sni = [{}]\n\n",
                key,
                i.hostname,
                i.cert_chain_path,
                i.private_key_path,
                i.allowed_sni.iter().map(|x| format!("\"{}\"", x)).collect::<Vec<_>>().join(", ")
            ));
        }
    };
    sect("main_hosts", host_infos(files, "tunnel", &h.main, &h.alt, garbage));
    sect("ping_hosts", host_infos(files, "ping", &h.ping, &[], false));
    sect("speedtest_hosts", host_infos(files, "speedtest", &h.speed, &[], false));
    sect("reverse_proxy_hosts", host_infos(files, "reverseproxy", &h.rproxy, &[], false));
    toml::from_str::<TlsHostsSettings>(&t).map_err(|e| e.to_string())
}

fn make_core(files: &Files, enabled: (bool, bool, bool), rp: bool, h: &Hosts) -> Option<Core> {
    let mut b = Settings::builder()
        .listen_address(("127.0.0.1", 1))
        .unwrap()
        .listen_protocols(ListenProtocolSettings {
            http1: if enabled.0 { Some(Http1Settings::builder().build()) } else { None },
            http2: if enabled.1 { Some(Http2Settings::builder().build()) } else { None },
            quic: if enabled.2 { Some(QuicSettings::builder().build()) } else { None },
        });
    if rp {
        b = b.reverse_proxy(
            ReverseProxySettings::builder().server_address("127.0.0.1:8080").unwrap().path_mask("/rp".into()).build().unwrap(),
        );
    }
    let settings = b.build().ok()?;
    let hosts = built_hosts(files, h).ok()?;
    Core::new(settings, None, hosts, Shutdown::new()).ok()
}

fn alpn_token(a: &[u8]) -> &'static str {
    match a {
        b"http/1.1" => "1",
        b"h2" => "2",
        b"h3" => "3",
        _ => "u",
    }
}

fn fmt_result(files: &Files, r: &Result<verif::VConnectionMeta, String>) -> String {
    match r {
        Err(_) => "refused".into(),
        Ok(m) => {
            let prefix = format!("{}/", files.dir.display());
            let id = m.cert_chain_path.strip_prefix(&prefix).unwrap_or(&m.cert_chain_path).trim_end_matches(".pem").replace("__", ":");
            format!("{} {} {} {} {}", m.protocol, m.channel, id, m.sni_auth_creds.clone().unwrap_or_else(|| "-".into()), if m.sni.is_empty() { "-" } else { &m.sni })
        }
    }
}

/// copy a name of one class into another (or the same) class: the configuration must be refused
fn inject_duplicate(ctx: &mut Ctx, h: &mut Hosts) -> Option<String> {
    let from = ctx.rng.below(4) as usize;
    let to = ctx.rng.below(4) as usize;
    let names: Vec<String> = [&h.main, &h.ping, &h.speed, &h.rproxy][from].clone();
    let name = names.first()?.clone();
    let cls = ["main", "ping", "speedtest", "reverse_proxy"];
    match to {
        0 => h.main.push(name.clone()),
        1 => h.ping.push(name.clone()),
        2 => h.speed.push(name.clone()),
        _ => h.rproxy.push(name.clone()),
    }
    Some(format!("{} of {} also in {}", name, cls[from], cls[to]))
}

fn gen_hosts(ctx: &mut Ctx) -> Hosts {
    let pool = ["a", "b", "main", "ping", "x", "a.b", "b.main", "x.a.b", "main.example", "alt.main.example", "ping.example", "p.q.r"];
    let mut h = Hosts::default();
    let mut used: Vec<String> = vec![];
    let mut take = |ctx: &mut Ctx, n: u64, used: &mut Vec<String>| -> Vec<String> {
        let mut v = vec![];
        for _ in 0..n {
            let c = ctx.rng.pick(&pool).to_string();
            if !used.contains(&c) {
                used.push(c.clone());
                v.push(c);
            }
        }
        v
    };
    let n_main = ctx.rng.range(1, 3);
    h.main = take(ctx, n_main, &mut used);
    let n = ctx.rng.below(3);
    h.ping = take(ctx, n, &mut used);
    let n = ctx.rng.below(2);
    h.speed = take(ctx, n, &mut used);
    let n = ctx.rng.below(3);
    h.rproxy = take(ctx, n, &mut used);
    // alternative SNIs: plain, of the form <l>.<main>, or colliding with another class
    let n_alt = ctx.rng.below(3);
    let mut alts: Vec<String> = vec![];
    for _ in 0..n_alt {
        if h.main.is_empty() {
            break;
        }
        let m = ctx.rng.pick(&h.main).clone();
        let a = match ctx.rng.below(4) {
            0 => format!("alt.{}", m),
            1 => ctx.rng.pick(&pool).to_string(),
            2 => "cdn.other.net".to_string(),
            _ => format!("l.{}", m),
        };
        if !alts.contains(&a) {
            alts.push(a.clone());
            h.alt.push((a, m));
        }
    }
    h
}

pub fn run(ctx: &mut Ctx) {
    let files = Files::new();
    // the three identifiers (twice, to keep them frequent), and unknown ones - among them look-alikes that extend, shorten or
    // re-case a known identifier (matching is by equality)
    let alpn_pool: Vec<Vec<u8>> = vec![
        b"h3".to_vec(), b"h2".to_vec(), b"http/1.1".to_vec(), b"h3".to_vec(), b"h2".to_vec(), b"http/1.1".to_vec(),
        b"spdy/3".to_vec(), vec![0xff, 0xfe], b"H2".to_vec(), b"h3-29".to_vec(), b"h3x".to_vec(), b"h2c".to_vec(), b"h22".to_vec(),
        b"http/1.10".to_vec(), b"http/1.0".to_vec(), b"http/1".to_vec(), b"HTTP/1.1".to_vec(), b"h".to_vec(), b"H3".to_vec(), b"xh3".to_vec(),
        vec![b'h', b'3', 0], b" h2".to_vec(),
    ];
    let n_cfg = if ctx.thorough() { 1500 } else { 150 };
    // the same host name in two entries, for every pair of classes: refused at build time and at reload
    for from in 0..4usize {
        for to in 0..4usize {
            let mut h = Hosts { main: vec!["m.example".into()], ping: vec!["p.example".into()], speed: vec!["s.example".into()], rproxy: vec!["r.example".into()], alt: vec![] };
            let name = [&h.main, &h.ping, &h.speed, &h.rproxy][from][0].clone();
            match to {
                0 => h.main.push(name.clone()),
                1 => h.ping.push(name.clone()),
                2 => h.speed.push(name.clone()),
                _ => h.rproxy.push(name.clone()),
            }
            let cls = ["main", "ping", "speedtest", "reverse_proxy"];
            let d = format!("{} of {} also in {}", name, cls[from], cls[to]);
            ctx.stat("duplicate_pairs");
            if built_hosts(&files, &h).is_ok() {
                ctx.oracle_failure("duplicate_host_accepted", &format!("TLS hosts configuration with the same host name in two entries ({}) passed validation", d));
            }
            if let Ok(ths) = toml_hosts(&files, &h, false) {
                let valid = Hosts { main: vec!["m.example".into()], ping: vec![], speed: vec![], rproxy: vec![], alt: vec![] };
                if let Some(core) = make_core(&files, (true, true, true), true, &valid) {
                    if core.reload_tls_hosts_settings(ths).is_ok() {
                        ctx.oracle_failure("duplicate_host_accepted", &format!("reload with the same host name in two entries ({}) was accepted", d));
                    }
                }
            }
        }
    }
    for k in 0..n_cfg {
        let mut h = gen_hosts(ctx);
        if k % 6 == 5 {
            if let Some(d) = inject_duplicate(ctx, &mut h) {
                ctx.stat(&format!("config_duplicate_{}", d.split(" of ").nth(1).unwrap_or("").replace(" also in ", "_")));
                if built_hosts(&files, &h).is_ok() {
                    ctx.oracle_failure("duplicate_host_accepted", &format!("TLS hosts configuration with the same host name in two entries ({}) passed validation: {:?}", d, h));
                }
                if let Ok(ths) = toml_hosts(&files, &h, false) {
                    let mut valid = gen_hosts(ctx);
                    valid.alt.clear();
                    if let Some(core) = make_core(&files, (true, true, true), true, &valid) {
                        if core.reload_tls_hosts_settings(ths).is_ok() {
                            ctx.oracle_failure("duplicate_host_accepted", &format!("reload with the same host name in two entries ({}) was accepted: {:?}", d, h));
                        }
                    }
                }
                continue;
            }
        }
        let e = loop {
            let e = (ctx.rng.chance(2, 3), ctx.rng.chance(2, 3), ctx.rng.chance(1, 2));
            if e.0 || e.1 || e.2 {
                break e;
            }
        };
        let rp = ctx.rng.chance(2, 3);
        let core = match make_core(&files, e, rp, &h) {
            Some(c) => c,
            None => {
                ctx.stat("config_rejected");
                continue;
            }
        };
        ctx.stat("configs");
        let etok = format!("{}{}{}", e.0 as u8, e.1 as u8, e.2 as u8);
        // SNI candidates: every configured name, alt, creds forms, near misses
        let mut snis: Vec<String> = vec![];
        for l in [&h.main, &h.ping, &h.speed, &h.rproxy] {
            for x in l {
                snis.push(x.clone());
                snis.push(format!("user.{}", x));
                snis.push(format!("{}.", x));
                snis.push(format!(".{}", x));
                snis.push(x.to_uppercase());
            }
        }
        for (a, _) in &h.alt {
            snis.push(a.clone());
            snis.push(format!("u.{}", a));
        }
        snis.extend(["".to_string(), "nope".to_string(), "a.b.c.d".to_string(), "user.pass.main".to_string()]);
        snis.sort();
        snis.dedup();
        // ALPN lists: all of length <= 1, sampled longer
        let mut alpns: Vec<Vec<Vec<u8>>> = vec![vec![]];
        for a in &alpn_pool {
            alpns.push(vec![a.clone()]);
        }
        for _ in 0..8 {
            let n = ctx.rng.range(2, 3);
            alpns.push((0..n).map(|_| ctx.rng.pick(&alpn_pool).clone()).collect());
        }
        for sni in &snis {
            for alpn in &alpns {
                if !ctx.thorough() && ctx.rng.chance(1, 2) {
                    continue;
                }
                let r = verif::tls_select(&core, alpn, sni);
                let ans = fmt_result(&files, &r);
                let q = format!(
                    "c05 select {} {} {} {}{} {}",
                    etok,
                    rp as u8,
                    h.tokens(),
                    alpn.len(),
                    alpn.iter().map(|a| format!(" {}", alpn_token(a))).collect::<String>(),
                    if sni.is_empty() { "-" } else { sni }
                );
                ctx.stat(&format!("select_{}", ans.split(' ').nth(1).unwrap_or("refused")));
                ctx.emit(&q, &ans);
            }
        }
    }

    // ---- reload histories on one Core ----------------------------------------------------------------
    let n_hist = if ctx.thorough() { 300 } else { 40 };
    for _ in 0..n_hist {
        let h0 = gen_hosts(ctx);
        let e = (true, ctx.rng.chance(1, 2), ctx.rng.chance(1, 2));
        let rp = ctx.rng.chance(1, 2);
        let core = match make_core(&files, e, rp, &h0) {
            Some(c) => c,
            None => continue,
        };
        let etok = format!("{}{}{}", e.0 as u8, e.1 as u8, e.2 as u8);
        let mut q = format!("c05 run {} {} {}", etok, rp as u8, h0.tokens());
        let mut answers: Vec<String> = vec![];
        let n_ev = ctx.rng.range(3, 8);
        let mut evs = String::new();
        let mut count = 0;
        let mut known: Vec<Hosts> = vec![h0.clone()];
        for _ in 0..n_ev {
            if ctx.rng.chance(2, 5) {
                // reload: valid, duplicate names, empty main, or unloadable certificate
                let mut h = gen_hosts(ctx);
                let mut garbage = false;
                match ctx.rng.below(5) {
                    0 => {
                        if let Some(d) = inject_duplicate(ctx, &mut h) {
                            ctx.stat(&format!("reload_duplicate_{}", d.split(" of ").nth(1).unwrap_or("").replace(" also in ", "_")));
                        }
                    }
                    1 => {
                        h.main.clear();
                        h.alt.clear();
                    }
                    2 => garbage = true,
                    _ => {}
                }
                match toml_hosts(&files, &h, garbage) {
                    Ok(ths) => {
                        let res = core.reload_tls_hosts_settings(ths);
                        let expect_ok = h.names_valid() && !garbage;
                        if res.is_ok() != expect_ok {
                            ctx.oracle_failure("reload_verdict", &format!("reload of {:?} (garbage cert: {}) returned {:?}", h, garbage, res.is_ok()));
                        }
                        evs.push_str(&format!(" R {} {}", h.tokens(), (!garbage) as u8));
                        count += 1;
                        known.push(h);
                        ctx.stat(if res.is_ok() { "reload_ok" } else { "reload_rejected" });
                    }
                    Err(_) => {
                        ctx.stat("reload_settings_not_parsed");
                    }
                }
            } else {
                let hsrc = ctx.rng.pick(&known).clone();
                let mut cands: Vec<String> = vec![];
                for l in [&hsrc.main, &hsrc.ping, &hsrc.speed, &hsrc.rproxy] {
                    for x in l {
                        cands.push(x.clone());
                        cands.push(format!("user.{}", x));
                    }
                }
                for (a, _) in &hsrc.alt {
                    cands.push(a.clone());
                }
                cands.push("nope".into());
                let sni = ctx.rng.pick(&cands).clone();
                let alpn: Vec<Vec<u8>> = (0..ctx.rng.below(3)).map(|_| ctx.rng.pick(&alpn_pool).clone()).collect();
                let r = verif::tls_select(&core, &alpn, &sni);
                answers.push(fmt_result(&files, &r));
                evs.push_str(&format!(" S {}{} {}", alpn.len(), alpn.iter().map(|a| format!(" {}", alpn_token(a))).collect::<String>(), sni));
                count += 1;
            }
        }
        q.push_str(&format!(" {}{}", count, evs));
        ctx.emit(&q, &if answers.is_empty() { "-".to_string() } else { answers.join(";") });
        ctx.stat("reload_histories");
    }

    // ---- concurrent reloads and selections: every answer comes wholly from one configuration ----------
    {
        let a = Hosts { main: vec!["main.example".into()], ping: vec!["x".into()], ..Default::default() };
        let b = Hosts { main: vec!["other.example".into()], speed: vec!["x".into()], alt: vec![("main.example".into(), "other.example".into())], ..Default::default() };
        if let Some(core) = make_core(&files, (true, true, false), false, &a) {
            let core = Arc::new(core);
            let probes: Vec<(Vec<Vec<u8>>, String)> = vec![
                (vec![b"h2".to_vec()], "x".into()),
                (vec![b"http/1.1".to_vec()], "main.example".into()),
                (vec![], "u.main.example".into()),
            ];
            let quiescent = |core: &Core, files: &Files| -> Vec<String> { probes.iter().map(|(al, s)| fmt_result(files, &verif::tls_select(core, al, s))).collect() };
            let ra = quiescent(&core, &files);
            core.reload_tls_hosts_settings(toml_hosts(&files, &b, false).unwrap()).unwrap();
            let rb = quiescent(&core, &files);
            let stop = Arc::new(std::sync::atomic::AtomicBool::new(false));
            let rounds = if ctx.thorough() { 400 } else { 60 };
            let torn = std::thread::scope(|s| {
                let mut hs = vec![];
                for _ in 0..4 {
                    let core = core.clone();
                    let stop = stop.clone();
                    let probes = &probes;
                    let files = &files;
                    let (ra, rb) = (&ra, &rb);
                    hs.push(s.spawn(move || {
                        let mut bad: Vec<String> = vec![];
                        let mut n = 0u64;
                        while !stop.load(std::sync::atomic::Ordering::Relaxed) {
                            for (i, (al, sn)) in probes.iter().enumerate() {
                                let r = fmt_result(files, &verif::tls_select(&core, al, sn));
                                n += 1;
                                if r != ra[i] && r != rb[i] && bad.len() < 5 {
                                    bad.push(format!("probe {} answered {:?}, neither old {:?} nor new {:?}", sn, r, ra[i], rb[i]));
                                }
                            }
                        }
                        (bad, n)
                    }));
                }
                for i in 0..rounds {
                    let h = if i % 2 == 0 { &a } else { &b };
                    let _ = core.reload_tls_hosts_settings(toml_hosts(&files, h, false).unwrap());
                    // an invalid reload in between must not disturb anything
                    let mut bad = a.clone();
                    bad.ping.push("main.example".into());
                    let _ = core.reload_tls_hosts_settings(toml_hosts(&files, &bad, false).unwrap());
                }
                stop.store(true, std::sync::atomic::Ordering::Relaxed);
                let mut all = vec![];
                let mut total = 0;
                for h in hs {
                    let (b, n) = h.join().unwrap();
                    all.extend(b);
                    total += n;
                }
                (all, total)
            });
            ctx.stat_add("concurrent_selects", torn.1);
            for t in torn.0 {
                ctx.oracle_failure("torn_reload", &t);
            }
        }
    }
}
