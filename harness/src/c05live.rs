//! C05 (live part): the real `Core::listen` (TCP + QUIC) on a loopback port with four host entries
//! that have four different certificates, a reverse-proxy origin of the harness and a scripted
//! forwarder. TLS clients (rustls over TCP, quiche over QUIC) connect with every SNI form and ALPN
//! list of a small pool and observe what only a live connection shows: the certificate actually
//! presented, the protocol actually negotiated, and the channel that actually answers a probe
//! request. The observation is compared with the model's `tcpAccept` / `quicAccept`.
use crate::c02h3::LiveEndpoint;
use crate::common::*;
use crate::h3cli::H3Client;
use base64::Engine;
use std::io::{Read, Write};
use std::net::{SocketAddr, TcpListener};
use std::sync::Arc;
use std::time::Duration;
use trusttunnel::core::Core;
use trusttunnel::settings::*;
use trusttunnel::shutdown::Shutdown;
use trusttunnel::verif::{self, vtunnel::*};

const FIX: &str = concat!(env!("CARGO_MANIFEST_DIR"), "/fixtures/");

fn der_of(pem_path: &str) -> Vec<u8> {
    let t = std::fs::read_to_string(pem_path).unwrap();
    let a = t.find("-----BEGIN CERTIFICATE-----").unwrap() + 27;
    let b = t.find("-----END CERTIFICATE-----").unwrap();
    let b64: String = t[a..b].chars().filter(|c| !c.is_whitespace()).collect();
    base64::engine::general_purpose::STANDARD.decode(b64).unwrap()
}

#[derive(Clone)]
struct Entry {
    class: &'static str,
    name: String,
    pem: String,
    alt: Vec<String>,
}

fn entries(swapped: bool) -> Vec<Entry> {
    let f = |n: &str| format!("{}c05_{}.pem", FIX, n);
    if !swapped {
        vec![
            Entry { class: "tunnel", name: "main.verif.test".into(), pem: f("main"), alt: vec!["alt.verif.test".into()] },
            Entry { class: "ping", name: "ping.verif.test".into(), pem: f("ping"), alt: vec![] },
            Entry { class: "speedtest", name: "speed.verif.test".into(), pem: f("speed"), alt: vec![] },
            Entry { class: "reverseproxy", name: "rproxy.verif.test".into(), pem: f("rproxy"), alt: vec![] },
        ]
    } else {
        // after the reload: the ping and speedtest names trade places (and certificates), the alternative SNI is gone,
        // the old reverse-proxy name is now a ping host
        vec![
            Entry { class: "tunnel", name: "main.verif.test".into(), pem: f("main"), alt: vec![] },
            Entry { class: "ping", name: "speed.verif.test".into(), pem: f("ping"), alt: vec![] },
            Entry { class: "ping", name: "rproxy.verif.test".into(), pem: f("rproxy"), alt: vec![] },
            Entry { class: "speedtest", name: "ping.verif.test".into(), pem: f("speed"), alt: vec![] },
        ]
    }
}

fn hosts_of(es: &[Entry]) -> TlsHostsSettings {
    let of = |class: &str| -> Vec<TlsHostInfo> {
        es.iter()
            .filter(|e| e.class == class)
            .map(|e| TlsHostInfo { hostname: e.name.clone(), cert_chain_path: e.pem.clone(), private_key_path: e.pem.clone(), allowed_sni: e.alt.clone() })
            .collect()
    };
    TlsHostsSettings::builder()
        .main_hosts(of("tunnel"))
        .ping_hosts(of("ping"))
        .speedtest_hosts(of("speedtest"))
        .reverse_proxy_hosts(of("reverseproxy"))
        .build()
        .unwrap()
}

/// the hosts part of a `c05` query
fn hosts_tokens(es: &[Entry]) -> String {
    let mut s = String::new();
    for class in ["tunnel", "ping", "speedtest", "reverseproxy"] {
        let l: Vec<&Entry> = es.iter().filter(|e| e.class == class).collect();
        s.push_str(&format!("{} ", l.len()));
        for e in l {
            s.push_str(&e.name);
            s.push(' ');
        }
    }
    let alts: Vec<(String, String)> = es.iter().flat_map(|e| e.alt.iter().map(move |a| (a.clone(), e.name.clone()))).collect();
    s.push_str(&format!("{}", alts.len()));
    for (a, m) in alts {
        s.push_str(&format!(" {} {}", a, m));
    }
    s
}

fn make_core(addr: SocketAddr, enabled: (bool, bool, bool), origin: SocketAddr) -> Core {
    let settings = Settings::builder()
        .listen_address(addr)
        .unwrap()
        .listen_protocols(ListenProtocolSettings {
            http1: if enabled.0 { Some(Http1Settings::builder().build()) } else { None },
            http2: if enabled.1 { Some(Http2Settings::builder().build()) } else { None },
            quic: if enabled.2 { Some(QuicSettings::builder().build()) } else { None },
        })
        .reverse_proxy(ReverseProxySettings::builder().server_address(origin).unwrap().path_mask("/rp".into()).build().unwrap())
        .allow_private_network_connections(true)
        .build()
        .unwrap();
    Core::new(settings, None, hosts_of(&entries(false)), Shutdown::new()).unwrap()
}

struct NoVerify;
impl rustls::client::ServerCertVerifier for NoVerify {
    fn verify_server_cert(
        &self,
        _: &rustls::Certificate,
        _: &[rustls::Certificate],
        _: &rustls::ServerName,
        _: &mut dyn Iterator<Item = &[u8]>,
        _: &[u8],
        _: std::time::SystemTime,
    ) -> Result<rustls::client::ServerCertVerified, rustls::Error> {
        Ok(rustls::client::ServerCertVerified::assertion())
    }
}

/// what a client saw: certificate (DER), negotiated ALPN, (status, came from the reverse-proxy origin) of the probe
#[derive(Debug, Default)]
struct Seen {
    cert: Option<Vec<u8>>,
    alpn: Option<Vec<u8>>,
    probe: Option<(u16, bool)>,
}

async fn tcp_client(addr: SocketAddr, sni: Option<&str>, alpn: &[Vec<u8>]) -> Option<Seen> {
    use tokio::io::{AsyncReadExt, AsyncWriteExt};
    let mut config = rustls::ClientConfig::builder().with_safe_defaults().with_custom_certificate_verifier(Arc::new(NoVerify)).with_no_client_auth();
    config.alpn_protocols = alpn.to_vec();
    config.enable_sni = sni.is_some();
    let name: rustls::ServerName = sni.unwrap_or("unused.invalid").try_into().ok()?;
    let tcp = tokio::net::TcpStream::connect(addr).await.ok()?;
    let connector = tokio_rustls::TlsConnector::from(Arc::new(config));
    let mut tls = match tokio::time::timeout(Duration::from_secs(3), connector.connect(name, tcp)).await {
        Ok(Ok(t)) => t,
        _ => return None,
    };
    let mut seen = Seen::default();
    {
        let (_, conn) = tls.get_ref();
        seen.cert = conn.peer_certificates().and_then(|c| c.first()).map(|c| c.0.clone());
        seen.alpn = conn.alpn_protocol().map(|a| a.to_vec());
    }
    let host = sni.unwrap_or("main.verif.test").to_string();
    if seen.alpn.as_deref() == Some(b"h2") {
        let (send, conn) = match tokio::time::timeout(Duration::from_secs(2), h2::client::handshake(tls)).await {
            Ok(Ok(x)) => x,
            _ => return Some(seen),
        };
        let driver = tokio::spawn(async move {
            let _ = conn.await;
        });
        let req = http::Request::builder().method("GET").uri(format!("http://{}/verif-probe", host)).header("x-verif", "1").body(()).ok()?;
        if let Ok(mut send) = send.ready().await {
            if let Ok((resp, _)) = send.send_request(req, true) {
                if let Ok(Ok(r)) = tokio::time::timeout(Duration::from_secs(3), resp).await {
                    seen.probe = Some((r.status().as_u16(), r.headers().contains_key("x-verif-origin")));
                }
            }
        }
        driver.abort();
    } else {
        let req = format!("GET /verif-probe HTTP/1.1\r\nHost: {}\r\nx-verif: 1\r\n\r\n", host);
        if tls.write_all(req.as_bytes()).await.is_err() {
            return Some(seen);
        }
        let mut got = vec![];
        let mut buf = [0u8; 4096];
        let _ = tokio::time::timeout(Duration::from_secs(3), async {
            while !got.windows(4).any(|w| w == b"\r\n\r\n") {
                match tls.read(&mut buf).await {
                    Ok(0) | Err(_) => break,
                    Ok(n) => got.extend_from_slice(&buf[..n]),
                }
            }
        })
        .await;
        let text = String::from_utf8_lossy(&got).to_lowercase();
        if let Some(status) = text.strip_prefix("http/1.1 ").and_then(|t| t.get(..3)).and_then(|s| s.parse::<u16>().ok()) {
            seen.probe = Some((status, text.contains("x-verif-origin")));
        }
    }
    Some(seen)
}

fn quic_client(addr: SocketAddr, sni: Option<&str>) -> Option<Seen> {
    let mut cl = H3Client::connect(addr, sni, &[b"h3"], 1 << 20, Duration::from_secs(3)).ok()?;
    let mut seen = Seen { cert: cl.peer_cert(), alpn: Some(cl.alpn()), probe: None };
    let host = sni.unwrap_or("main.verif.test");
    if let Some(id) = cl.request("GET", Some("https"), host, Some("/verif-probe"), &[("x-verif".to_string(), b"1".to_vec())], true) {
        cl.wait(Duration::from_secs(3), |c| c.streams.get(&id).map(|s| s.status.is_some() || s.reset.is_some()).unwrap_or(false));
        let s = cl.stream(id);
        if let Some(st) = s.status {
            seen.probe = Some((st, s.headers.iter().any(|(n, _)| n == "x-verif-origin")));
        }
    }
    cl.close();
    Some(seen)
}

/// "<rank> <channel> <class>:<name>" as the model prints it, from what the client saw
fn describe(es: &[Entry], seen: &Option<Seen>) -> String {
    let Some(s) = seen else { return "refused".to_string() };
    let rank = match s.alpn.as_deref() {
        Some(b"h3") => 3,
        Some(b"h2") => 2,
        _ => 1,
    };
    let entry = match &s.cert {
        None => "nocert".to_string(),
        Some(der) => {
            // several entries may share a certificate file after the reload: the class is then told by the probe
            let m: Vec<&Entry> = es.iter().filter(|e| der_of(&e.pem) == *der).collect();
            match m.len() {
                0 => "unknown-certificate".to_string(),
                _ => m.iter().map(|e| format!("{}:{}", e.class, e.name)).collect::<Vec<_>>().join("|"),
            }
        }
    };
    // channel fingerprints of the probe `GET /verif-probe`: the tunnel hands it to the (scripted, refusing) forwarder -> 502;
    // the ping handler answers anything with 200; the speedtest handler answers an unknown path with 400; the reverse proxy
    // relays it to its origin, whose answer carries `x-verif-origin`
    let channel = match s.probe {
        Some((502, false)) => "tunnel".to_string(),
        Some((200, true)) => "reverseproxy".to_string(),
        Some((200, false)) => "ping".to_string(),
        Some((400, false)) => "speedtest".to_string(),
        Some((st, o)) => format!("unknown-channel({}{})", st, if o { ",origin" } else { "" }),
        None => "no-answer".to_string(),
    };
    format!("{} {} {}", rank, channel, entry)
}

fn alpn_token(a: &[u8]) -> &'static str {
    match a {
        b"http/1.1" => "1",
        b"h2" => "2",
        b"h3" => "3",
        _ => "u",
    }
}

pub fn run(ctx: &mut Ctx) {
    quiet_panics();
    // the reverse-proxy origin
    let origin_l = TcpListener::bind("127.0.0.1:0").unwrap();
    let origin = origin_l.local_addr().unwrap();
    std::thread::spawn(move || {
        for s in origin_l.incoming() {
            let Ok(mut s) = s else { continue };
            std::thread::spawn(move || {
                let _ = s.set_read_timeout(Some(Duration::from_secs(2)));
                let mut got = vec![];
                let mut buf = [0u8; 2048];
                while !got.windows(4).any(|w| w == b"\r\n\r\n") {
                    match s.read(&mut buf) {
                        Ok(0) | Err(_) => break,
                        Ok(n) => got.extend_from_slice(&buf[..n]),
                    }
                }
                let _ = s.write_all(b"HTTP/1.1 200 OK\r\nx-verif-origin: 1\r\ncontent-length: 2\r\nconnection: close\r\n\r\nRP");
            });
        }
    });
    let snis: Vec<Option<&str>> = vec![
        Some("main.verif.test"),
        Some("alt.verif.test"),
        Some("user.main.verif.test"),
        Some("ping.verif.test"),
        Some("speed.verif.test"),
        Some("rproxy.verif.test"),
        Some("nope.verif.test"),
        Some("user.ping.verif.test"),
        Some("verif.test"),
        None,
    ];
    let alpns: Vec<Vec<Vec<u8>>> = vec![
        vec![],
        vec![b"http/1.1".to_vec()],
        vec![b"h2".to_vec()],
        vec![b"h2".to_vec(), b"http/1.1".to_vec()],
        vec![b"http/1.1".to_vec(), b"h2".to_vec()],
        vec![b"h3".to_vec()],
        vec![b"h3".to_vec(), b"http/1.1".to_vec()],
        vec![b"h3".to_vec(), b"h2".to_vec(), b"http/1.1".to_vec()],
        vec![b"spdy/3".to_vec()],
        vec![b"spdy/3".to_vec(), b"h2".to_vec()],
    ];
    // (false, true, true): with HTTP/1.1 off an empty ALPN offer selects nothing - the QUIC certificate callback must not depend on it
    let enabled_sets: &[(bool, bool, bool)] =
        if ctx.thorough() { &[(true, true, true), (true, false, true), (false, true, true), (true, true, false), (false, false, true)] } else { &[(true, true, true), (true, false, true), (false, true, true)] };
    let crt = tokio::runtime::Builder::new_current_thread().enable_all().build().unwrap();
    for &e in enabled_sets {
        let Some(ep) = LiveEndpoint::start(move |addr| make_core(addr, e, origin)) else {
            ctx.notes.push("c05live: the endpoint's listener did not come up on loopback; nothing was run".to_string());
            return;
        };
        let etok = format!("{}{}{}", e.0 as u8, e.1 as u8, e.2 as u8);
        // the tunnel channel hands the probe to the forwarder: scripted, refuses every connection
        verif::hooks::reset();
        verif::hooks::STATE.lock().unwrap().forwarder = Some(FwdScript { default_connect: ConnectScript::Refused, ..FwdScript::default() });
        for phase in 0..2 {
            let es = entries(phase == 1);
            if phase == 1 {
                if let Err(err) = ep.core.reload_tls_hosts_settings(hosts_of(&es)) {
                    ctx.oracle_failure("reload_refused", &format!("a valid host configuration was refused at reload: {}", err));
                    break;
                }
                ctx.stat("live_reloads");
            }
            let htok = hosts_tokens(&es);
            for sni in &snis {
                for (ai, alpn) in alpns.iter().enumerate() {
                    if !ctx.thorough() && (ai + sni.map(|s| s.len()).unwrap_or(0) + phase) % 2 == 1 {
                        continue;
                    }
                    let seen = crt.block_on(tcp_client(ep.addr, *sni, alpn));
                    let q = format!(
                        "c05 tcplive {} 1 {} {}{} {}",
                        etok,
                        htok,
                        alpn.len(),
                        alpn.iter().map(|a| format!(" {}", alpn_token(a))).collect::<String>(),
                        sni.unwrap_or("-")
                    );
                    ctx.stat(if seen.is_some() { "tcp_connections_accepted" } else { "tcp_connections_refused" });
                    ctx.emit(&q, &describe(&es, &seen));
                }
                if e.2 {
                    let seen = quic_client(ep.addr, *sni);
                    let q = format!("c05 quiclive {} 1 {} {}", etok, htok, sni.unwrap_or("-"));
                    ctx.stat(if seen.is_some() { "quic_connections_accepted" } else { "quic_connections_refused" });
                    ctx.emit(&q, &describe(&es, &seen));
                }
            }
        }
        drop(ep);
    }
    verif::hooks::reset();
}
