//! C06: UDP multiplexer wire codec (PROTOCOL.md 6.3 / 6.4)
use crate::common::*;
use std::net::{IpAddr, SocketAddr};
use trusttunnel::verif;

pub fn put_ip16(out: &mut Vec<u8>, ip: &IpAddr) {
    match ip {
        IpAddr::V4(x) => {
            out.extend_from_slice(&[0u8; 12]);
            out.extend_from_slice(&x.octets());
        }
        IpAddr::V6(x) => out.extend_from_slice(&x.octets()),
    }
}

/// client-side 6.3 record with an explicit (possibly lying) length field and app-length byte
pub fn record(len_field: u32, src: SocketAddr, dst: SocketAddr, applen: u8, app: &[u8], payload: &[u8]) -> Vec<u8> {
    let mut v = vec![];
    v.extend_from_slice(&len_field.to_be_bytes());
    put_ip16(&mut v, &src.ip());
    v.extend_from_slice(&src.port().to_be_bytes());
    put_ip16(&mut v, &dst.ip());
    v.extend_from_slice(&dst.port().to_be_bytes());
    v.push(applen);
    v.extend_from_slice(app);
    v.extend_from_slice(payload);
    v
}

pub fn sock_tokens(s: &SocketAddr) -> String {
    format!("{} {}", ip_tokens(&s.ip()), s.port())
}

pub fn fmt_dgs(d: &[verif::VUdpIn]) -> String {
    if d.is_empty() {
        return "-".into();
    }
    d.iter()
        .map(|x| {
            format!(
                "{}>{} {} {}",
                sock_tokens(&x.source),
                sock_tokens(&x.destination),
                hex(x.app_name.clone().unwrap_or_default().as_bytes()),
                hex(&x.payload)
            )
        })
        .collect::<Vec<_>>()
        .join(";")
}

fn gen_addr(ctx: &mut Ctx) -> SocketAddr {
    let ips = [
        "1.2.3.4", "0.0.0.0", "255.255.255.255", "10.0.0.1", "2001:db8::1", "::1:0:0:1", "fe80::1", "ffff::",
        "1::", "0:0:0:0:0:1::", "::ffff:192.0.2.7", "::ffff:0.0.0.0", "::ffff:255.255.255.255", "::192.0.2.7", "::1", "::",
        "64:ff9b::102:304", "::fffe:192.0.2.7", "0:0:0:0:ffff::",
    ];
    let ip: IpAddr = ctx.rng.pick(&ips).parse().unwrap();
    let port = *ctx.rng.pick(&[0u16, 1, 53, 443, 65535, 12345]);
    SocketAddr::new(ip, port)
}

/// one record of a chosen kind; returns (bytes, kind)
fn gen_record(ctx: &mut Ctx) -> (Vec<u8>, &'static str) {
    let src = gen_addr(ctx);
    let dst = gen_addr(ctx);
    let names: [&[u8]; 6] = [b"", b"a", b"test", "\u{e9}\u{1F600}".as_bytes(), b"com.example.app", b"x y"];
    let app = ctx.rng.pick(&names).to_vec();
    let plen = *ctx.rng.pick(&[0usize, 0, 1, 2, 5, 12, 40]);
    let payload = ctx.rng.bytes(plen);
    let k = ctx.rng.below(100);
    if k < 55 {
        let total = 37 + app.len() + payload.len();
        (record(total as u32, src, dst, app.len() as u8, &app, &payload), "valid")
    } else if k < 65 {
        // declared length shorter than the fixed header: `len` arbitrary bytes follow
        // the values next to the header size are drawn as often as all others together
        let len = if ctx.rng.chance(1, 2) { *ctx.rng.pick(&[0u32, 1, 35, 36]) } else { ctx.rng.below(37) as u32 };
        let mut v = len.to_be_bytes().to_vec();
        v.extend(ctx.rng.bytes(len as usize));
        (v, "short")
    } else if k < 72 {
        // header ok but length < header + app name
        let l = 1 + ctx.rng.below(20) as u8;
        let total = 37 + ctx.rng.below(l as u64) as usize;
        let body = ctx.rng.bytes(total - 37);
        let mut v = record(total as u32, src, dst, l, &[], &[]);
        v.extend(body);
        (v, "short_name")
    } else if k < 84 {
        // non UTF-8 name
        // (the last four are valid up to their end and stop in the middle of a character)
        let bad: [&[u8]; 9] = [&[0xff], &[0xc0, 0x80], &[0xe0, 0x80, 0x80], &[0xed, 0xa0, 0x80], &[0x61, 0xf5], &[0x61, 0x70, 0x70, 0xe2, 0x82], &[0xc3], &[0xf0, 0x9f, 0x98], &[0xd0, 0x9f, 0xd0]];
        let app = ctx.rng.pick(&bad).to_vec();
        let total = 37 + app.len() + payload.len();
        (record(total as u32, src, dst, app.len() as u8, &app, &payload), "bad_utf8")
    } else if k < 90 {
        // too large (bigger than a UDP payload allows); the body really follows so that the
        // stream stays well delimited
        let total = 65472 - app.len() + ctx.rng.below(3) as usize;
        let body = vec![0xabu8; total - 37 - app.len()];
        (record(total as u32, src, dst, app.len() as u8, &app, &body), "too_large")
    } else if k < 95 {
        // largest accepted
        let total = 65471 - app.len();
        let body = vec![0xcdu8; total - 37 - app.len()];
        (record(total as u32, src, dst, app.len() as u8, &app, &body), "max_ok")
    } else {
        // zero name, zero payload
        (record(37, src, dst, 0, &[], &[]), "valid_empty")
    }
}

fn chunks_query(chunks: &[Vec<u8>]) -> String {
    let mut q = String::from("c06 decode");
    for c in chunks {
        q.push(' ');
        q.push_str(&hex(c));
    }
    q
}

fn split_at(stream: &[u8], cuts: &[usize]) -> Vec<Vec<u8>> {
    let mut out = vec![];
    let mut prev = 0;
    for &c in cuts {
        out.push(stream[prev..c].to_vec());
        prev = c;
    }
    out.push(stream[prev..].to_vec());
    out
}

pub fn run(ctx: &mut Ctx) {
    quiet_panics();
    // pure parser calls: a case that takes this long is a busy loop (the watchdog names it)
    set_stall_limit(40);
    let rt = tokio::runtime::Builder::new_current_thread().enable_all().build().unwrap();
    let n_streams = if ctx.thorough() { 400 } else { 60 };
    let mut run_case = |ctx: &mut Ctx, chunks: Vec<Vec<u8>>| {
        let q = chunks_query(&chunks);
        begin_case(&q);
        let c2 = chunks.clone();
        let r = catch(std::panic::AssertUnwindSafe(|| rt.block_on(verif::udp_decode_stream(c2))));
        match r {
            Ok(d) => ctx.emit(&q, &fmt_dgs(&d)),
            Err(m) => {
                ctx.emit(&q, "panic");
                ctx.oracle_failure("panic", &format!("udp decoder panicked ({}) on {}", m, q));
            }
        }
    };
    for si in 0..n_streams {
        let nrec = ctx.rng.range(1, 4);
        let mut stream = vec![];
        let mut kinds = vec![];
        let mut big = false;
        for _ in 0..nrec {
            let (r, k) = gen_record(ctx);
            if r.len() > 1000 {
                if big {
                    continue; // at most one huge record per stream
                }
                big = true;
            }
            kinds.push(k);
            ctx.stat(&format!("record_{}", k));
            stream.extend(r);
        }
        // sometimes a truncated trailing record
        if ctx.rng.chance(1, 5) {
            let (r, _) = gen_record(ctx);
            if r.len() < 1000 {
                let cut = ctx.rng.below(r.len() as u64) as usize;
                stream.extend(&r[..cut]);
                ctx.stat("record_truncated_tail");
            }
        }
        let n = stream.len();
        ctx.stat("streams");
        // whole
        run_case(ctx, vec![stream.clone()]);
        if n <= 400 {
            // every 1-cut
            for c in 1..n {
                run_case(ctx, split_at(&stream, &[c]));
            }
            ctx.stat_add("one_cut_segmentations", n.saturating_sub(1) as u64);
            // byte at a time
            run_case(ctx, stream.iter().map(|b| vec![*b]).collect());
            ctx.stat("byte_at_a_time");
            // 2- and 3-cuts: all when the stream is short (thorough), sampled otherwise
            let samples = if ctx.thorough() { 400 } else { 60 };
            if n <= 48 && ctx.thorough() {
                for a in 1..n {
                    for b in a..n {
                        run_case(ctx, split_at(&stream, &[a, b]));
                    }
                }
            }
            for _ in 0..samples {
                let mut cuts: Vec<usize> = (0..ctx.rng.range(2, 3)).map(|_| ctx.rng.below(n as u64 + 1) as usize).collect();
                cuts.sort();
                run_case(ctx, split_at(&stream, &cuts));
                ctx.stat("multi_cut_segmentations");
            }
        } else {
            // long streams: random segmentations with realistic chunk sizes and cuts near boundaries
            for _ in 0..6 {
                let mut cuts: Vec<usize> = (0..ctx.rng.range(1, 6)).map(|_| ctx.rng.below(n as u64 + 1) as usize).collect();
                for x in [3usize, 4, 5, 40, 41, 42] {
                    if ctx.rng.chance(1, 3) && x < n {
                        cuts.push(x);
                    }
                }
                cuts.sort();
                run_case(ctx, split_at(&stream, &cuts));
                ctx.stat("long_stream_segmentations");
            }
        }
        let _ = si;
    }
    // encoder 6.4
    let n_enc = if ctx.thorough() { 3000 } else { 300 };
    for _ in 0..n_enc {
        let src = gen_addr(ctx);
        let dst = gen_addr(ctx);
        let plen = *ctx.rng.pick(&[0usize, 1, 2, 17, 100, 1472]);
        let payload = ctx.rng.bytes(plen);
        let q = format!("c06 encode {} {} {}", sock_tokens(&src), sock_tokens(&dst), hex(&payload));
        begin_case(&q);
        match verif::udp_encode(src, dst, &payload) {
            Some(b) => ctx.emit(&q, &hex(&b)),
            None => ctx.emit(&q, "none"),
        }
        ctx.stat("encode");
    }
    // the largest datagrams a UDP socket can deliver (the forwarder reads with a 65508-byte buffer): around the decoder's
    // limit for client records (65471 bytes of payload), which is not the encoder's, up to the UDP maximum
    for plen in [9000usize, 65470, 65471, 65472, 65473, 65500, 65506, 65507] {
        for v6 in [false, true] {
            let src: SocketAddr = if v6 { "[2001:db8::7]:53".parse().unwrap() } else { "198.51.100.7:53".parse().unwrap() };
            let dst: SocketAddr = "10.1.0.1:40000".parse().unwrap();
            let payload: Vec<u8> = (0..plen).map(|i| (i * 31 % 251) as u8).collect();
            let q = format!("c06 encode {} {} {}", sock_tokens(&src), sock_tokens(&dst), hex(&payload));
            begin_case(&q);
            match verif::udp_encode(src, dst, &payload) {
                Some(b) => ctx.emit(&q, &hex(&b)),
                None => ctx.emit(&q, "none"),
            }
            ctx.stat("encode_large");
        }
    }
}
