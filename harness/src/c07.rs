//! C07: histories of client datagrams / replies / time advances / per-flow failures through the
//! real `udp_pipe::DuplexPipe` wired to the real direct forwarder multiplexer, against loopback
//! UDP servers, under tokio's paused clock.
use crate::common::*;
use std::net::{SocketAddr, UdpSocket};
use std::time::{Duration, Instant};
use trusttunnel::core::Core;
use trusttunnel::settings::*;
use trusttunnel::shutdown::Shutdown;
use trusttunnel::verif::vudp::{self, VDatagram};

pub const ND: usize = 5;

fn make_core() -> Core {
    let settings = Settings::builder()
        .listen_address(("127.0.0.1", 1))
        .unwrap()
        .listen_protocols(ListenProtocolSettings {
            http1: Some(Http1Settings::builder().build()),
            http2: Some(Http2Settings::builder().build()),
            quic: None,
        })
        .allow_private_network_connections(true)
        .build()
        .unwrap();
    let hosts = TlsHostsSettings::builder()
        .main_hosts(vec![TlsHostInfo {
            hostname: "localhost".into(),
            cert_chain_path: FIXTURE_PEM.into(),
            private_key_path: FIXTURE_PEM.into(),
            allowed_sni: vec![],
        }])
        .build()
        .unwrap();
    Core::new(settings, None, hosts, Shutdown::new()).unwrap()
}

#[derive(Clone, Debug)]
pub enum Op {
    Dg(usize, usize),
    Reply(usize, usize),
    Adv(u64),
    Close,
}

fn op_tok(o: &Op) -> String {
    match o {
        Op::Dg(f, l) => format!("d.{}.{}", f, l),
        Op::Reply(f, l) => format!("r.{}.{}", f, l),
        Op::Adv(ms) => format!("a.{}", ms),
        Op::Close => "c".into(),
    }
}

pub struct World {
    /// destination kinds: L live server, N live server on port 53, X dead port, U not connectable
    pub kinds: Vec<char>,
    pub dst: Vec<SocketAddr>,
    pub srv: Vec<Option<UdpSocket>>,
    pub src: Vec<SocketAddr>,
}

pub fn make_world(nsrc: usize) -> World {
    make_world_opts(nsrc, true)
}

/// `with_v6`: one live server on `[::1]` and IPv6 source labels (the SOCKS5 relay of the harness is IPv4-only)
pub fn make_world_opts(nsrc: usize, with_v6: bool) -> World {
    let mut kinds = vec![];
    let mut dst = vec![];
    let mut srv = vec![];
    for k in 0..2 {
        // the second live server is an IPv6 one where the machine has IPv6 loopback
        let s = if k == 1 && with_v6 { UdpSocket::bind("[::1]:0").or_else(|_| UdpSocket::bind("127.0.0.1:0")).unwrap() } else { UdpSocket::bind("127.0.0.1:0").unwrap() };
        s.set_nonblocking(true).unwrap();
        kinds.push('L');
        dst.push(s.local_addr().unwrap());
        srv.push(Some(s));
    }
    // a plain-DNS destination (port 53) on its own loopback address
    let mut dns = None;
    for host in 2..60u8 {
        if let Ok(s) = UdpSocket::bind(SocketAddr::from(([127, 0, 0, host], 53))) {
            dns = Some(s);
            break;
        }
    }
    match dns {
        Some(s) => {
            s.set_nonblocking(true).unwrap();
            kinds.push('N');
            dst.push(s.local_addr().unwrap());
            srv.push(Some(s));
        }
        None => {
            let s = UdpSocket::bind("127.0.0.1:0").unwrap();
            s.set_nonblocking(true).unwrap();
            kinds.push('L');
            dst.push(s.local_addr().unwrap());
            srv.push(Some(s));
        }
    }
    // a port nobody listens on
    let dead = {
        let s = UdpSocket::bind("127.0.0.1:0").unwrap();
        s.local_addr().unwrap()
    };
    kinds.push('X');
    dst.push(dead);
    srv.push(None);
    // connect() of a UDP socket to the broadcast address is refused (no SO_BROADCAST)
    kinds.push('U');
    dst.push(SocketAddr::from(([255, 255, 255, 255], 9)));
    srv.push(None);
    // client-side source labels: IPv4, and every second one IPv6
    let src = (0..nsrc)
        .map(|i| {
            if i % 2 == 1 && with_v6 {
                SocketAddr::from((std::net::Ipv6Addr::new(0xfd00, 1, 0, 0, 0, 0, 0, 2 + i as u16), 4000 + i as u16))
            } else {
                SocketAddr::from(([10, 1, 0, 1 + i as u8], 4000 + i as u16))
            }
        })
        .collect();
    World { kinds, dst, srv, src }
}

fn open_fds() -> usize {
    std::fs::read_dir("/proc/self/fd").map(|d| d.count()).unwrap_or(0)
}

struct Hist<'a> {
    w: &'a World,
    mux: vudp::Mux,
    peer: Vec<Option<SocketAddr>>,
    srv_seen: Vec<String>,
    fd_base: usize,
    /// replies shorter than the 3-byte tag that were sent and not yet seen by the client: (flow, sequence number, length)
    short_replies: Vec<(usize, u8, usize)>,
}

impl<'a> Hist<'a> {
    fn drain_servers(&mut self) -> usize {
        let mut n = 0;
        let mut buf = vec![0u8; 70000];
        for (d, s) in self.w.srv.iter().enumerate() {
            if let Some(s) = s {
                while let Ok((len, from)) = s.recv_from(&mut buf) {
                    n += 1;
                    if len >= 3 {
                        let f = buf[0] as usize;
                        if f < self.peer.len() {
                            self.peer[f] = Some(from);
                        }
                        self.srv_seen.push(format!("{}/{}.{}.{}", d, f, buf[1], len));
                    } else {
                        self.srv_seen.push(format!("{}/short.{}", d, len));
                    }
                }
            }
        }
        n
    }

    async fn settle(&mut self) {
        let start = Instant::now();
        let mut last = (usize::MAX, 0usize, 0i64, 0usize, false);
        let mut stable_since = Instant::now();
        loop {
            for _ in 0..100 {
                tokio::task::yield_now().await;
            }
            self.drain_servers();
            let snap = (self.srv_seen.len(), self.mux.delivered_len(), self.mux.gauge(), self.mux.flows(), self.mux.finished());
            if snap != last {
                last = snap;
                stable_since = Instant::now();
            } else if stable_since.elapsed() >= Duration::from_millis(3) && (self.mux.left_idle() || self.mux.finished()) {
                break;
            }
            if start.elapsed() > Duration::from_secs(3) {
                break;
            }
        }
    }

    fn flow_of_labels(&self, source: &SocketAddr, destination: &SocketAddr) -> String {
        let d = self.w.dst.iter().position(|a| a == source);
        let s = self.w.src.iter().position(|a| a == destination);
        match (s, d) {
            (Some(s), Some(d)) => format!("{}", s * ND + d),
            _ => "?".into(),
        }
    }

    fn observe(&mut self, show_fds: bool) -> String {
        let mut srv = std::mem::take(&mut self.srv_seen);
        srv.sort();
        let mut cli: Vec<String> = self
            .mux
            .take_delivered()
            .iter()
            .map(|d| {
                let lf = self.flow_of_labels(&d.source, &d.destination);
                let tag = if d.payload.len() >= 3 {
                    format!("{}.{}", d.payload[0], d.payload[1])
                } else {
                    // too short for a tag: it is the oldest short reply of that length sent on the flow its labels name
                    match self.short_replies.iter().position(|(f, _, l)| f.to_string() == lf && *l == d.payload.len()) {
                        Some(k) => {
                            let (f, seq, _) = self.short_replies.remove(k);
                            format!("{}.{}", f, seq)
                        }
                        None => "short".into(),
                    }
                };
                format!("{}/{}.{}", lf, tag, d.payload.len())
            })
            .collect();
        cli.sort();
        // a short reply that has not come out by the time its step has settled never will (its flow was gone): it must not
        // lend its label to a later reply of the same length
        self.short_replies.clear();
        let (u, v) = self.mux.relayed();
        // a socket closed by the pipe stays referenced by the forwarder source's pending poll until
        // that is rebuilt, which the expiry timer does at the latest: descriptors are compared
        // after a tick only
        let fds = if show_fds { format!("{}", open_fds() as i64 - self.fd_base as i64) } else { "-".to_string() };
        format!(
            "S[{}] C[{}] g{} t{} o{} u{} v{} f{}",
            srv.join(","),
            cli.join(","),
            self.mux.gauge(),
            self.mux.flows(),
            fds,
            u,
            v,
            self.mux.finished() as u8
        )
    }
}

pub fn exec(w: &World, timeout_ms: u64, ops: &[Op]) -> Result<String, String> {
    let rt = tokio::runtime::Builder::new_current_thread().enable_all().start_paused(true).build().unwrap();
    rt.block_on(async {
        let core = make_core();
        let fd_base = open_fds();
        let mux = vudp::spawn(&core, Duration::from_millis(timeout_ms)).map_err(|e| format!("spawn: {}", e))?;
        let nflows = w.src.len() * ND;
        let mut h = Hist { w, mux, peer: vec![None; nflows], srv_seen: vec![], fd_base, short_replies: vec![] };
        // stale datagrams of an earlier history
        h.settle().await;
        h.srv_seen.clear();
        let mut outs = vec![];
        let mut closed = false;
        for (i, op) in ops.iter().enumerate() {
            let seq = (i % 250) as u8;
            match op {
                Op::Dg(f, len) => {
                    let mut p = vec![0u8; (*len).max(3)];
                    p[0] = *f as u8;
                    p[1] = seq;
                    p[2] = 0;
                    h.mux.send(VDatagram { source: w.src[f / ND], destination: w.dst[f % ND], payload: p });
                }
                Op::Reply(f, len) => {
                    if let (Some(to), Some(s)) = (h.peer[*f], w.srv[f % ND].as_ref()) {
                        if *len < 3 {
                            // an empty / tiny reply is a datagram like any other
                            h.short_replies.push((*f, seq, *len));
                            let _ = s.send_to(&vec![0u8; *len], to);
                        } else {
                            let mut p = vec![0u8; *len];
                            p[0] = *f as u8;
                            p[1] = seq;
                            p[2] = 1;
                            let _ = s.send_to(&p, to);
                        }
                    }
                }
                Op::Adv(ms) => {
                    tokio::time::advance(Duration::from_millis(*ms)).await;
                }
                Op::Close => {
                    closed = true;
                    break;
                }
            }
            h.settle().await;
            outs.push(h.observe(matches!(op, Op::Adv(ms) if *ms >= timeout_ms / 4)));
        }
        if closed {
            let Hist { mux, .. } = h;
            let gauge_probe = core_gauge(&core);
            let res = mux.close().await;
            for _ in 0..50 {
                tokio::task::yield_now().await;
            }
            let fds = open_fds() as i64 - fd_base as i64;
            outs.push(format!("closed:{} g{} o{}", res, gauge_probe(), fds));
        }
        Ok(outs.join(" | "))
    })
}

fn core_gauge(core: &Core) -> impl Fn() -> i64 + '_ {
    move || {
        let text = trusttunnel::verif::metrics_text(core);
        text.lines()
            .find(|l| l.starts_with("outbound_udp_sockets "))
            .and_then(|l| l.split(' ').nth(1))
            .and_then(|x| x.parse().ok())
            .unwrap_or(-1)
    }
}

pub fn gen_ops_pub(rng: &mut Rng, nflows: usize, t: u64, n: usize) -> Vec<Op> {
    gen_ops(rng, nflows, t, n)
}

fn gen_ops(rng: &mut Rng, nflows: usize, t: u64, n: usize) -> Vec<Op> {
    // a history concentrates on a few flows so that reuse, expiry and mixing actually happen
    let k = rng.range(1, 4) as usize;
    let focus: Vec<usize> = (0..k).map(|_| rng.below(nflows as u64) as usize).collect();
    let lens = [3usize, 4, 17, 100, 1200, 9000];
    let advs = [1u64, t / 8, t / 4 - 1, t / 4, t / 4 + 1, t / 2, t - 1, t, t + 1, t + t / 4, t + t / 4 + 1, 2 * t, 3 * t];
    let mut ops = vec![];
    for _ in 0..n {
        let f = if rng.chance(5, 6) { *rng.pick(&focus) } else { rng.below(nflows as u64) as usize };
        match rng.below(10) {
            0..=3 => ops.push(Op::Dg(f, *rng.pick(&lens))),
            4..=6 => ops.push(Op::Reply(f, if rng.chance(1, 5) { rng.below(3) as usize } else if rng.chance(1, 12) { *rng.pick(&[65000usize, 65497]) } else { *rng.pick(&lens) })),
            _ => ops.push(Op::Adv(*rng.pick(&advs))),
        }
    }
    ops.push(Op::Close);
    ops
}

pub fn case_line(w: &World, t: u64, ops: &[Op]) -> String {
    format!(
        "c07 run T={} K={} S={} ops={}",
        t,
        w.kinds.iter().collect::<String>(),
        w.src.len(),
        ops.iter().map(op_tok).collect::<Vec<_>>().join(";")
    )
}

/// A destination that restarts: the flow's socket gets an error on *receive* (the client's datagram to the closed port
/// left an ICMP error pending on the connected socket; the restarted destination's datagram makes the endpoint read it).
/// The flow is over then - for the table, the socket and the `outbound_udp_sockets` gauge alike - and the client's next
/// datagram on the pair starts a fresh flow that works.
pub fn destination_restarts(ctx: &mut Ctx) {
    let rt = tokio::runtime::Builder::new_current_thread().enable_all().start_paused(true).build().unwrap();
    let r: Result<(), String> = rt.block_on(async {
        let core = make_core();
        let mux = vudp::spawn(&core, Duration::from_millis(8000)).map_err(|e| format!("spawn: {}", e))?;
        let srv = UdpSocket::bind("127.0.0.1:0").map_err(|e| e.to_string())?;
        srv.set_nonblocking(true).map_err(|e| e.to_string())?;
        let dst = srv.local_addr().unwrap();
        let src: SocketAddr = "10.1.0.9:4009".parse().unwrap();
        let settle = |mux: &vudp::Mux| {
            let _ = mux;
            async {
                let t = Instant::now();
                while t.elapsed() < Duration::from_millis(40) {
                    for _ in 0..100 {
                        tokio::task::yield_now().await;
                    }
                }
            }
        };
        let mut buf = [0u8; 2048];
        // 1. the flow comes up
        mux.send(VDatagram { source: src, destination: dst, payload: b"one".to_vec() });
        settle(&mux).await;
        let (_, flow_socket) = srv.recv_from(&mut buf).map_err(|_| "the destination did not get the first datagram".to_string())?;
        if (mux.gauge(), mux.flows()) != (1, 1) {
            return Err(format!("after the first datagram: gauge {} flows {}", mux.gauge(), mux.flows()));
        }
        // 2. the destination goes away; a datagram to the closed port
        drop(srv);
        mux.send(VDatagram { source: src, destination: dst, payload: b"two".to_vec() });
        settle(&mux).await;
        // 3. it comes back on the same port and sends something to the flow
        let srv = match UdpSocket::bind(dst) {
            Ok(s) => s,
            Err(_) => return Ok(()), // the port was taken meanwhile: nothing to observe
        };
        srv.set_nonblocking(true).map_err(|e| e.to_string())?;
        let _ = srv.send_to(b"back", flow_socket);
        settle(&mux).await;
        let after_error = (mux.gauge(), mux.flows());
        // 4. the client's next datagram
        mux.send(VDatagram { source: src, destination: dst, payload: b"three".to_vec() });
        settle(&mux).await;
        let got_three = matches!(srv.recv_from(&mut buf), Ok((5, _)));
        let after_retry = (mux.gauge(), mux.flows());
        // whatever the endpoint made of the error, the three views agree and the pair works again
        if after_error.0 != after_error.1 as i64 {
            return Err(format!("after the flow's socket reported an error on receive: outbound_udp_sockets = {}, flows in the pipe's table = {}", after_error.0, after_error.1));
        }
        if !got_three {
            return Err(format!("after the destination came back, the client's next datagram did not reach it (gauge / flows after the error {:?}, after the datagram {:?})", after_error, after_retry));
        }
        if after_retry != (1, 1) {
            return Err(format!("after the retry on the pair: outbound_udp_sockets = {}, flows = {} (one live flow)", after_retry.0, after_retry.1));
        }
        Ok(())
    });
    match r {
        Ok(()) => ctx.stat("destination_restarts"),
        Err(e) => ctx.oracle_failure("flow_after_receive_error", &format!("UDP flow to a destination that restarts (close, client datagram, re-bind, datagram from the destination, client datagram): {}", e)),
    }
}

/// Replies that the client's sink drops (a congested client stream: the codecs' datagram sinks never block): a dropped
/// datagram is not relayed, but it *was* an answer - the flow's activity and, on a port-53 flow, the count of open queries
/// move as for a delivered one. A plain-DNS flow whose only query was answered is released although the answer was
/// dropped (and a late datagram from the server then finds no flow); an ordinary flow stays and delivers the next reply.
pub fn dropped_answers(ctx: &mut Ctx) {
    let w = make_world(1);
    let Some(dns_k) = w.kinds.iter().position(|k| *k == 'N') else {
        ctx.notes.push("no port-53 server could be bound: dropped-answer scenario skipped".into());
        return;
    };
    let rt = tokio::runtime::Builder::new_current_thread().enable_all().start_paused(true).build().unwrap();
    let r: Result<(), String> = rt.block_on(async {
        let core = make_core();
        let mux = vudp::spawn(&core, Duration::from_millis(8000)).map_err(|e| format!("spawn: {}", e))?;
        let settle = || async {
            let t = Instant::now();
            while t.elapsed() < Duration::from_millis(40) {
                for _ in 0..100 {
                    tokio::task::yield_now().await;
                }
            }
        };
        let src: SocketAddr = "10.1.0.9:4010".parse().unwrap();
        let mut buf = [0u8; 2048];
        for (k, is_dns) in [(dns_k, true), (0usize, false)] {
            let srv = w.srv[k].as_ref().unwrap();
            let dst = w.dst[k];
            let what = if is_dns { "plain-DNS flow" } else { "ordinary flow" };
            let down0 = mux.relayed().1;
            mux.send(VDatagram { source: src, destination: dst, payload: b"query".to_vec() });
            settle().await;
            let (_, from) = srv.recv_from(&mut buf).map_err(|_| format!("{}: the server did not get the query", what))?;
            if (mux.gauge(), mux.flows()) != (1, 1) {
                return Err(format!("{}: after the query: gauge {} flows {}", what, mux.gauge(), mux.flows()));
            }
            mux.drop_next(1);
            let _ = srv.send_to(b"answer-that-is-dropped", from);
            settle().await;
            let delivered = mux.take_delivered();
            if !delivered.is_empty() {
                return Err(format!("{}: the dropped answer was handed to the client all the same", what));
            }
            if mux.relayed().1 != down0 {
                return Err(format!("{}: a dropped answer of 22 bytes was counted as relayed ({} bytes peer -> client)", what, mux.relayed().1 - down0));
            }
            let after = (mux.gauge(), mux.flows());
            let want = if is_dns { (0, 0) } else { (1, 1) };
            if after != want {
                return Err(format!(
                    "{}: after its only query was answered (the answer was dropped by the client's congested sink): outbound_udp_sockets = {}, flows = {}; {}",
                    what, after.0, after.1,
                    if is_dns { "all its queries are answered: the flow is to be released" } else { "the flow stays" }
                ));
            }
            let _ = srv.send_to(b"late", from);
            settle().await;
            let late = mux.take_delivered();
            if is_dns && !late.is_empty() {
                return Err(format!("{}: a datagram the server sent after the flow was done was relayed to the client", what));
            }
            if !is_dns && late.len() != 1 {
                return Err(format!("{}: the reply after a dropped one was not delivered ({} datagrams)", what, late.len()));
            }
        }
        let _ = mux.close().await;
        Ok(())
    });
    match r {
        Ok(()) => ctx.stat("dropped_answers"),
        Err(e) => ctx.oracle_failure("flow_after_dropped_answer", &e),
    }
}

pub fn run(ctx: &mut Ctx) {
    destination_restarts(ctx);
    dropped_answers(ctx);
    let nsrc = 2;
    let w = make_world(nsrc);
    ctx.notes.push(format!("destinations: {:?} kinds {:?}", w.dst, w.kinds));
    let nflows = nsrc * ND;
    let t = 8000u64;
    let mut hist: Vec<Vec<Op>> = vec![];
    // directed histories first (the defects this property was written around)
    let d = |f: usize| Op::Dg(f, 10);
    let r = |f: usize| Op::Reply(f, 12);
    let a = |ms: u64| Op::Adv(ms);
    hist.push(vec![d(0), r(0), a(t + t / 4 + 1), d(0), r(0), Op::Close]); // expiry then reuse
    hist.push(vec![d(0), d(1), d(5), r(0), r(1), r(5), r(0), Op::Close]); // mixing
    hist.push(vec![d(2), r(2), d(2), r(2), r(2), d(2), d(2), r(2), r(2), Op::Close]); // DNS completion and reuse
    hist.push(vec![d(0), d(4), d(4), d(0), r(0), Op::Close]); // not connectable
    hist.push(vec![d(0), d(3), d(3), d(3), d(0), r(0), Op::Close]); // dead port: socket error
    hist.push(vec![d(0), a(t / 4), a(t / 4), a(t / 4), a(t / 4), d(1), a(1), a(t / 4), r(0), d(0), Op::Close]);
    hist.push(vec![d(0), a(t - 1), d(0), a(t - 1), r(0), a(t - 1), a(t / 4), a(2), Op::Close]);
    // the direct path carries replies up to the maximal IPv4 UDP payload (the SOCKS relay's header leaves room for less)
    for len in 65498usize..=65507 {
        hist.push(vec![d(0), Op::Reply(0, len), Op::Reply(0, 65497), d(0), Op::Reply(0, len), Op::Close]);
    }
    let n_random = if ctx.thorough() { 1500 } else { 150 };
    for _ in 0..n_random {
        let n = ctx.rng.range(3, 14) as usize;
        let mut ops = gen_ops(&mut ctx.rng, nflows, t, n);
        for o in ops.iter_mut() {
            if let Op::Reply(_, l) = o {
                if *l >= 65000 && ctx.rng.chance(1, 2) {
                    *l = 65498 + ctx.rng.below(10) as usize;
                }
            }
        }
        hist.push(ops);
    }
    for ops in hist {
        for o in &ops {
            ctx.stat(match o {
                Op::Dg(f, _) => match w.kinds[f % ND] {
                    'L' => "op_dg_live",
                    'N' => "op_dg_dns",
                    'X' => "op_dg_dead",
                    _ => "op_dg_unconnectable",
                },
                Op::Reply(..) => "op_reply",
                Op::Adv(ms) if *ms > t => "op_adv_beyond_timeout",
                Op::Adv(_) => "op_adv_short",
                Op::Close => "op_close",
            });
        }
        let q = case_line(&w, t, &ops);
        match exec(&w, t, &ops) {
            Ok(out) => {
                if out.contains(" f1") {
                    ctx.stat("mux_ended_before_close");
                }
                ctx.emit(&q, &out)
            }
            Err(e) => ctx.oracle_failure("harness", &format!("{} :: {}", q, e)),
        }
    }
}
