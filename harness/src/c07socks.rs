//! C07 through the SOCKS5 forwarder: the same histories as `c07`, with the real
//! `udp_pipe::DuplexPipe` wired to the real SOCKS5 forwarder multiplexer and a small SOCKS5 proxy
//! (UDP ASSOCIATE only) of the harness between it and the loopback servers.
use crate::c07::{self, Op, World, ND};
use crate::common::*;
use std::io::{Read, Write};
use std::net::{SocketAddr, TcpListener, UdpSocket};
use std::sync::atomic::{AtomicBool, AtomicUsize, Ordering};
use std::sync::Arc;
use std::time::{Duration, Instant};
use trusttunnel::core::Core;
use trusttunnel::settings::*;
use trusttunnel::shutdown::Shutdown;
use trusttunnel::verif::vudp::{self, VDatagram};

pub struct Proxy {
    pub addr: SocketAddr,
    pub associations: Arc<AtomicUsize>,
    /// completed passes of the relay loops (every pass drains both sockets of its association)
    pub ticks: Arc<AtomicUsize>,
    stop: Arc<AtomicBool>,
}

impl Drop for Proxy {
    fn drop(&mut self) {
        self.stop.store(true, Ordering::SeqCst);
    }
}

fn serve(mut tcp: std::net::TcpStream, live: Arc<AtomicUsize>, stop: Arc<AtomicBool>, ticks: Arc<AtomicUsize>) {
    let _ = tcp.set_read_timeout(Some(Duration::from_secs(2)));
    let mut b = [0u8; 512];
    // greeting: VER NMETHODS METHODS...
    let mut hdr = [0u8; 2];
    if tcp.read_exact(&mut hdr).is_err() || hdr[0] != 5 {
        return;
    }
    if tcp.read_exact(&mut b[..hdr[1] as usize]).is_err() {
        return;
    }
    if tcp.write_all(&[5, 0]).is_err() {
        return;
    }
    // request: VER CMD RSV ATYP ADDR PORT
    let mut rq = [0u8; 4];
    if tcp.read_exact(&mut rq).is_err() || rq[1] != 3 {
        let _ = tcp.write_all(&[5, 7, 0, 1, 0, 0, 0, 0, 0, 0]);
        return;
    }
    let alen = match rq[3] {
        1 => 4,
        4 => 16,
        _ => return,
    };
    if tcp.read_exact(&mut b[..alen + 2]).is_err() {
        return;
    }
    let relay = match UdpSocket::bind("127.0.0.1:0") {
        Ok(s) => s,
        Err(_) => return,
    };
    let out = match UdpSocket::bind("127.0.0.1:0") {
        Ok(s) => s,
        Err(_) => return,
    };
    let _ = relay.set_nonblocking(true);
    let _ = out.set_nonblocking(true);
    let rp = relay.local_addr().unwrap().port();
    if tcp.write_all(&[5, 0, 0, 1, 127, 0, 0, 1, (rp >> 8) as u8, rp as u8]).is_err() {
        return;
    }
    live.fetch_add(1, Ordering::SeqCst);
    let _ = tcp.set_nonblocking(true);
    let mut client: Option<SocketAddr> = None;
    let mut buf = vec![0u8; 70000];
    loop {
        if stop.load(Ordering::SeqCst) {
            break;
        }
        let mut idle = true;
        // the association lives as long as its TCP connection
        match tcp.read(&mut b) {
            Ok(0) => break,
            Ok(_) => {}
            Err(e) if e.kind() == std::io::ErrorKind::WouldBlock => {}
            Err(_) => break,
        }
        while let Ok((n, from)) = relay.recv_from(&mut buf) {
            idle = false;
            client = Some(from);
            if n < 10 || buf[0] != 0 || buf[1] != 0 || buf[2] != 0 {
                continue;
            }
            let (dst, off) = match buf[3] {
                1 => (SocketAddr::from(([buf[4], buf[5], buf[6], buf[7]], u16::from_be_bytes([buf[8], buf[9]]))), 10),
                4 if n >= 22 => {
                    let mut a = [0u8; 16];
                    a.copy_from_slice(&buf[4..20]);
                    (SocketAddr::from((a, u16::from_be_bytes([buf[20], buf[21]]))), 22)
                }
                _ => continue,
            };
            let _ = out.send_to(&buf[off..n], dst);
        }
        while let Ok((n, from)) = out.recv_from(&mut buf) {
            idle = false;
            if let (Some(c), SocketAddr::V4(f)) = (client, from) {
                let mut w = vec![0, 0, 0, 1];
                w.extend_from_slice(&f.ip().octets());
                w.extend_from_slice(&f.port().to_be_bytes());
                w.extend_from_slice(&buf[..n]);
                let _ = relay.send_to(&w, c);
            }
        }
        ticks.fetch_add(1, Ordering::SeqCst);
        if idle {
            std::thread::sleep(Duration::from_micros(200));
        }
    }
    live.fetch_sub(1, Ordering::SeqCst);
}

pub fn start_proxy() -> Proxy {
    let l = TcpListener::bind("127.0.0.1:0").unwrap();
    let addr = l.local_addr().unwrap();
    l.set_nonblocking(true).unwrap();
    let associations = Arc::new(AtomicUsize::new(0));
    let stop = Arc::new(AtomicBool::new(false));
    let ticks = Arc::new(AtomicUsize::new(0));
    let t2 = ticks.clone();
    let (a2, s2) = (associations.clone(), stop.clone());
    std::thread::spawn(move || loop {
        if s2.load(Ordering::SeqCst) {
            break;
        }
        match l.accept() {
            Ok((c, _)) => {
                let _ = c.set_nonblocking(false);
                let (a3, s3, t3) = (a2.clone(), s2.clone(), t2.clone());
                std::thread::spawn(move || serve(c, a3, s3, t3));
            }
            Err(_) => std::thread::sleep(Duration::from_micros(300)),
        }
    });
    Proxy { addr, associations, ticks, stop }
}

fn make_core(proxy: SocketAddr) -> Core {
    let settings = Settings::builder()
        .listen_address(("127.0.0.1", 1))
        .unwrap()
        .listen_protocols(ListenProtocolSettings { http1: Some(Http1Settings::builder().build()), http2: Some(Http2Settings::builder().build()), quic: None })
        .forwarder_settings(ForwardProtocolSettings::Socks5(Socks5ForwarderSettings::builder().server_address(proxy).unwrap().build().unwrap()))
        .build()
        .unwrap();
    let hosts = TlsHostsSettings::builder()
        .main_hosts(vec![TlsHostInfo { hostname: "localhost".into(), cert_chain_path: FIXTURE_PEM.into(), private_key_path: FIXTURE_PEM.into(), allowed_sni: vec![] }])
        .build()
        .unwrap();
    Core::new(settings, None, hosts, Shutdown::new()).unwrap()
}

struct Hist<'a> {
    w: &'a World,
    mux: vudp::Mux,
    peer: Vec<Option<SocketAddr>>,
    srv_seen: Vec<String>,
    proxy: &'a Proxy,
    /// replies shorter than the 3-byte tag that were sent and not yet seen by the client: (flow, sequence number, length)
    short_replies: Vec<(usize, u8, usize)>,
}

impl<'a> Hist<'a> {
    fn drain_servers(&mut self) {
        let mut buf = vec![0u8; 70000];
        for (d, s) in self.w.srv.iter().enumerate() {
            if let Some(s) = s {
                while let Ok((len, from)) = s.recv_from(&mut buf) {
                    if len >= 3 {
                        let f = buf[0] as usize;
                        if f < self.peer.len() {
                            self.peer[f] = Some(from);
                        }
                        self.srv_seen.push(format!("{}/{}.{}.{}", d, f, buf[1], len));
                    }
                }
            }
        }
    }

    async fn settle(&mut self) {
        let start = Instant::now();
        let mut last = (usize::MAX, 0usize, 0i64, 0usize, 0usize, false);
        let mut stable_since = Instant::now();
        let mut ticks_at_change = self.proxy.ticks.load(Ordering::SeqCst);
        let mut relays_done_at: Option<Instant> = None;
        loop {
            for _ in 0..100 {
                tokio::task::yield_now().await;
            }
            self.drain_servers();
            let snap = (self.srv_seen.len(), self.mux.delivered_len(), self.mux.gauge(), self.mux.flows(), self.proxy.associations.load(Ordering::SeqCst), self.mux.finished());
            let ticks = self.proxy.ticks.load(Ordering::SeqCst);
            if snap != last {
                last = snap;
                stable_since = Instant::now();
                ticks_at_change = ticks;
                relays_done_at = None;
            } else if stable_since.elapsed() >= Duration::from_millis(8) && (self.mux.left_idle() || self.mux.finished()) {
                // the relay threads of the proxy must have had their turns since (they may be starved on a loaded machine),
                // and what they forwarded then needs a quiet moment of its own to come out at the other end
                if ticks.wrapping_sub(ticks_at_change) >= 4 * self.proxy.associations.load(Ordering::SeqCst) {
                    match relays_done_at {
                        None => relays_done_at = Some(Instant::now()),
                        Some(t) if t.elapsed() >= Duration::from_millis(8) => break,
                        Some(_) => {}
                    }
                }
            }
            if start.elapsed() > Duration::from_secs(3) {
                break;
            }
        }
    }

    fn observe(&mut self) -> String {
        let mut srv = std::mem::take(&mut self.srv_seen);
        srv.sort();
        let w = self.w;
        let mut cli: Vec<String> = self
            .mux
            .take_delivered()
            .iter()
            .map(|d| {
                let dd = w.dst.iter().position(|a| *a == d.source);
                let ss = w.src.iter().position(|a| *a == d.destination);
                let lbl = match (ss, dd) {
                    (Some(s), Some(dx)) => format!("{}", s * ND + dx),
                    _ => "?".into(),
                };
                let tag = if d.payload.len() >= 3 {
                    format!("{}.{}", d.payload[0], d.payload[1])
                } else {
                    match self.short_replies.iter().position(|(f, _, l)| f.to_string() == lbl && *l == d.payload.len()) {
                        Some(k) => {
                            let (f, seq, _) = self.short_replies.remove(k);
                            format!("{}.{}", f, seq)
                        }
                        None => "short".into(),
                    }
                };
                format!("{}/{}.{}", lbl, tag, d.payload.len())
            })
            .collect();
        cli.sort();
        // a short reply that has not come out by the time its step has settled never will (its flow was gone): it must not
        // lend its label to a later reply of the same length
        self.short_replies.clear();
        let (u, v) = self.mux.relayed();
        format!("S[{}] C[{}] g{} t{} o- u{} v{} f{}", srv.join(","), cli.join(","), self.mux.gauge(), self.mux.flows(), u, v, self.mux.finished() as u8)
    }
}

pub fn exec(w: &World, proxy: &Proxy, timeout_ms: u64, ops: &[Op]) -> Result<String, String> {
    let rt = tokio::runtime::Builder::new_current_thread().enable_all().start_paused(true).build().unwrap();
    rt.block_on(async {
        let core = make_core(proxy.addr);
        let mux = vudp::spawn(&core, Duration::from_millis(timeout_ms)).map_err(|e| format!("spawn: {}", e))?;
        let nflows = w.src.len() * ND;
        let mut h = Hist { w, mux, peer: vec![None; nflows], srv_seen: vec![], proxy, short_replies: vec![] };
        h.settle().await;
        h.srv_seen.clear();
        let mut outs = vec![];
        let mut closed = false;
        for (i, op) in ops.iter().enumerate() {
            let seq = (i % 250) as u8;
            match op {
                Op::Dg(f, len) => {
                    let mut p = vec![0u8; (*len).max(3)];
                    p[0] = *f as u8;
                    p[1] = seq;
                    h.mux.send(VDatagram { source: w.src[f / ND], destination: w.dst[f % ND], payload: p });
                }
                Op::Reply(f, len) => {
                    if let (Some(to), Some(s)) = (h.peer[*f], w.srv[f % ND].as_ref()) {
                        if *len < 3 {
                            h.short_replies.push((*f, seq, *len));
                            let _ = s.send_to(&vec![0u8; *len], to);
                        } else {
                            let mut p = vec![0u8; *len];
                            p[0] = *f as u8;
                            p[1] = seq;
                            p[2] = 1;
                            let _ = s.send_to(&p, to);
                        }
                    }
                }
                Op::Adv(ms) => tokio::time::advance(Duration::from_millis(*ms)).await,
                Op::Close => {
                    closed = true;
                    break;
                }
            }
            h.settle().await;
            outs.push(h.observe());
        }
        if closed {
            let Hist { mux, .. } = h;
            let res = mux.close().await;
            for _ in 0..50 {
                tokio::task::yield_now().await;
            }
            let text = trusttunnel::verif::metrics_text(&core);
            let g: i64 = text.lines().find(|l| l.starts_with("outbound_udp_sockets ")).and_then(|l| l.split(' ').nth(1)).and_then(|x| x.parse().ok()).unwrap_or(-1);
            outs.push(format!("closed:{} g{} o-", res, g));
        }
        Ok(outs.join(" | "))
    })
}

pub fn run(ctx: &mut Ctx) {
    let w = c07::make_world_opts(2, false);
    let proxy = start_proxy();
    ctx.notes.push(format!("SOCKS5 proxy of the harness at {}; destinations {:?}", proxy.addr, w.dst));
    let nflows = 2 * ND;
    let t = 8000u64;
    let d = |f: usize| Op::Dg(f, 10);
    let r = |f: usize| Op::Reply(f, 12);
    let a = |ms: u64| Op::Adv(ms);
    let mut hist: Vec<Vec<Op>> = vec![
        // two flows of one source share an association; one expires, the other goes on
        vec![d(0), d(1), a(t / 2), d(1), a(t / 2 + t / 4 + 1), d(1), r(1), r(0), a(t + t / 4 + 1), d(0), Op::Close],
        // port-53 flow completes next to a sibling flow
        vec![d(0), d(2), r(2), d(0), r(0), d(2), d(2), r(2), r(2), r(0), Op::Close],
        // two sources, two associations
        vec![d(0), d(5), d(1), d(6), r(0), r(5), a(t + t / 4 + 1), d(6), r(6), Op::Close],
        // destinations nobody answers from
        vec![d(3), d(3), d(4), d(0), r(0), a(t + t / 4 + 1), Op::Close],
    ];
    if let Ok(x) = std::env::var("C07_ONLY") {
        hist = vec![x.split(';').filter_map(|t| {
            let p: Vec<&str> = t.split('.').collect();
            let n = |i: usize| p.get(i).and_then(|v| v.parse::<usize>().ok()).unwrap_or(0);
            Some(match p[0] { "d" => Op::Dg(n(1), n(2)), "r" => Op::Reply(n(1), n(2)), "a" => Op::Adv(n(1) as u64), "c" => Op::Close, _ => return None })
        }).collect()];
    }
    let n_random = if std::env::var("C07_ONLY").is_ok() { 0 } else if ctx.thorough() { 800 } else { 100 };
    for _ in 0..n_random {
        let n = ctx.rng.range(3, 14) as usize;
        hist.push(c07::gen_ops_pub(&mut ctx.rng, nflows, t, n));
    }
    for ops in hist {
        let q = c07::case_line(&w, t, &ops).replacen("c07 run", "c07 socks", 1);
        match exec(&w, &proxy, t, &ops) {
            Ok(out) => ctx.emit(&q, &out),
            Err(e) => ctx.oracle_failure("harness", &format!("{} :: {}", q, e)),
        }
        ctx.stat("socks_histories");
    }
}
