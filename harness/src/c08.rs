//! C08: HTTP/1.1 codec - segmentation invariance, payload exactness, no spinning, bounded head
use crate::common::*;
use std::sync::Arc;
use trusttunnel::settings::{Http1Settings, ListenProtocolSettings, Settings};
use trusttunnel::verif::vh1;

fn settings() -> Arc<Settings> {
    Arc::new(
        Settings::builder()
            .listen_address(("127.0.0.1", 1))
            .unwrap()
            .listen_protocols(ListenProtocolSettings { http1: Some(Http1Settings::builder().build()), ..Default::default() })
            .build()
            .unwrap(),
    )
}

fn valid_heads(ctx: &mut Ctx) -> Vec<Vec<u8>> {
    let mut v: Vec<String> = vec![
        "CONNECT example.org:443 HTTP/1.1\r\nHost: example.org:443\r\n\r\n".into(),
        "CONNECT 93.184.216.34:80 HTTP/1.1\r\n\r\n".into(),
        "CONNECT _check:443 HTTP/1.1\r\nProxy-Authorization: Basic dTpw\r\nUser-Agent: agent/1 (x; y)\r\n\r\n".into(),
        "GET http://example.org/a/b?c=d HTTP/1.1\r\nHost: example.org\r\nAccept: */*\r\n\r\n".into(),
        "POST /upload.html HTTP/1.1\r\nHost: speed.example\r\nContent-Length: 5\r\n\r\n".into(),
        "GET / HTTP/1.0\r\nHost: h\r\n\r\n".into(),
        "OPTIONS * HTTP/1.1\r\nHost: h\r\n\r\n".into(),
        // origin-form targets with a query (the authority comes from Host, the path and the query from the target)
        "GET /ws/chat?room=42&token=abc HTTP/1.1\r\nHost: example.org\r\nUpgrade: websocket\r\n\r\n".into(),
        "POST /upload.html?x=1&y= HTTP/1.1\r\nHost: speed.example:8443\r\nContent-Length: 3\r\n\r\n".into(),
        "GET /? HTTP/1.1\r\nHost: h\r\n\r\n".into(),
        // line ends without the CR (the parser takes them): all of them, the last one only, the first one only, no header at all
        "CONNECT example.org:443 HTTP/1.1\nHost: example.org:443\n\n".into(),
        "CONNECT example.org:443 HTTP/1.1\r\nHost: example.org:443\r\n\n".into(),
        "GET http://example.org/x HTTP/1.1\nHost: example.org\r\nAccept: */*\r\n\r\n".into(),
        "CONNECT a.example:1 HTTP/1.1\n\n".into(),
    ];
    // many headers (up to the limit), long values
    let mut h = String::from("CONNECT a.example:1 HTTP/1.1\r\n");
    for i in 0..32 {
        h.push_str(&format!("X-H{}: v{}\r\n", i, i));
    }
    h.push_str("\r\n");
    v.push(h);
    let mut h = String::from("CONNECT a.example:1 HTTP/1.1\r\nX-Pad: ");
    let n = 1024 - h.len() - 4;
    h.push_str(&"p".repeat(n));
    h.push_str("\r\n\r\n");
    assert_eq!(h.len(), 1024);
    v.push(h);
    for _ in 0..6 {
        let n = ctx.rng.range(1, 6);
        let mut h = format!("CONNECT h{}.example:{} HTTP/1.1\r\n", ctx.rng.below(100), ctx.rng.range(1, 65535));
        for i in 0..n {
            h.push_str(&format!("X-R{}: {}\r\n", i, "z".repeat(ctx.rng.below(40) as usize)));
        }
        h.push_str("\r\n");
        v.push(h);
    }
    v.into_iter().map(String::into_bytes).collect()
}

fn invalid_heads() -> Vec<(&'static str, Vec<u8>)> {
    let mut v: Vec<(&'static str, Vec<u8>)> = vec![
        ("bad_version", b"CONNECT a:1 HTTP/2.0\r\n\r\n".to_vec()),
        ("no_version", b"CONNECT a:1\r\n\r\n".to_vec()),
        ("control_in_method", b"CO\x01NECT a:1 HTTP/1.1\r\n\r\n".to_vec()),
        ("header_without_colon", b"CONNECT a:1 HTTP/1.1\r\nbroken header\r\n\r\n".to_vec()),
        ("binary", vec![0x16, 0x03, 0x01, 0x00, 0x05, 1, 2, 3, 4, 5]),
        ("bad_uri", b"GET http://[::1 HTTP/1.1\r\n\r\n".to_vec()),
    ];
    let mut h = String::from("CONNECT a.example:1 HTTP/1.1\r\n");
    for i in 0..33 {
        h.push_str(&format!("X-H{}: v\r\n", i));
    }
    h.push_str("\r\n");
    v.push(("too_many_headers", h.into_bytes()));
    let mut h = String::from("CONNECT a.example:1 HTTP/1.1\r\nX-Pad: ");
    h.push_str(&"p".repeat(3000));
    v.push(("endless_head", h.into_bytes()));
    // complete, well-formed heads just over and well over the size limit (1024 bytes): rejected however they arrive
    for (name, total) in [("oversize_head_1025", 1025usize), ("oversize_head_1100", 1100), ("oversize_head_1500", 1500), ("oversize_head_2000", 2000), ("oversize_head_5000", 5000)] {
        let fixed = "CONNECT a.example:1 HTTP/1.1\r\nHost: a.example:1\r\nX-Pad: \r\n\r\n".len();
        let h = format!("CONNECT a.example:1 HTTP/1.1\r\nHost: a.example:1\r\nX-Pad: {}\r\n\r\n", "p".repeat(total - fixed));
        assert_eq!(h.len(), total);
        v.push((name, h.into_bytes()));
    }
    v
}

fn split_at(stream: &[u8], cuts: &[usize]) -> Vec<Vec<u8>> {
    let mut out = vec![];
    let mut prev = 0;
    for &c in cuts {
        if c > prev {
            out.push(stream[prev..c].to_vec());
            prev = c;
        }
    }
    if prev < stream.len() {
        out.push(stream[prev..].to_vec());
    }
    out
}

pub fn run(mut ctx0: Ctx) {
    let st = settings();
    let rt = tokio::runtime::Builder::new_multi_thread().worker_threads(6).enable_all().build().unwrap();
    let ctx = &mut ctx0;
    let heads = valid_heads(ctx);
    let mut jobs: Vec<(String, Vec<Vec<u8>>, Option<usize>)> = vec![]; // (class, chunks, head length if valid)
    for h in &heads {
        let payloads: Vec<Vec<u8>> = vec![vec![], b"x".to_vec(), (0..40u8).collect(), ctx.rng.bytes(300)];
        for p in &payloads {
            let mut stream = h.clone();
            stream.extend(p);
            let n = stream.len();
            jobs.push(("whole".into(), vec![stream.clone()], Some(h.len())));
            let step = if ctx.thorough() { 1 } else if n < 120 { 2 } else { 23 };
            let mut c = 1;
            while c < n {
                jobs.push(("one_cut".into(), split_at(&stream, &[c]), Some(h.len())));
                c += step;
            }
            // cuts right at / around the end of the head
            for c in [h.len() - 4, h.len() - 2, h.len() - 1, h.len(), h.len() + 1] {
                if c > 0 && c < n {
                    jobs.push(("cut_near_head_end".into(), split_at(&stream, &[c]), Some(h.len())));
                }
            }
            if n <= 160 {
                jobs.push(("byte_at_a_time".into(), stream.iter().map(|b| vec![*b]).collect(), Some(h.len())));
            }
            let m = if ctx.thorough() { 60 } else { 8 };
            for _ in 0..m {
                let mut cuts: Vec<usize> = (0..ctx.rng.range(2, 3)).map(|_| ctx.rng.range(1, n as u64 - 1) as usize).collect();
                cuts.sort();
                cuts.dedup();
                jobs.push(("multi_cut".into(), split_at(&stream, &cuts), Some(h.len())));
            }
        }
    }
    // payload pipelined with the head and large enough to fill the 1 KiB head buffer (exactly, by one byte
    // more, several times over): the bytes of the read that completed the head are the first payload bytes
    for (k, h) in heads.iter().enumerate() {
        if h.len() >= 1024 || (!ctx.thorough() && k % 3 != 0) {
            continue;
        }
        let room = 1024 - h.len();
        for plen in [room - 1, room, room + 1, 1500, 3000, 9000] {
            let mut stream = h.clone();
            let p = ctx.rng.bytes(plen);
            stream.extend(&p);
            let n = stream.len();
            jobs.push(("whole_large_payload".into(), vec![stream.clone()], Some(h.len())));
            for c in [h.len() - 2, h.len() - 1, h.len(), h.len() + 1, 1023, 1024, 1025] {
                if c > 0 && c < n {
                    jobs.push(("large_payload_one_cut".into(), split_at(&stream, &[c]), Some(h.len())));
                }
            }
            for _ in 0..(if ctx.thorough() { 12 } else { 3 }) {
                let mut cuts: Vec<usize> = (0..ctx.rng.range(2, 4)).map(|_| ctx.rng.range(1, n as u64 - 1) as usize).collect();
                cuts.sort();
                cuts.dedup();
                jobs.push(("large_payload_multi_cut".into(), split_at(&stream, &cuts), Some(h.len())));
            }
        }
    }
    for (class, h) in invalid_heads() {
        jobs.push((format!("invalid_{}", class), vec![h.clone()], None));
        for _ in 0..6 {
            let c = ctx.rng.range(1, h.len() as u64 - 1) as usize;
            jobs.push((format!("invalid_{}", class), split_at(&h, &[c]), None));
        }
        if h.len() >= 2000 {
            // delivered in 100-byte reads: must be rejected around the 1 KiB limit
            jobs.push((format!("invalid_{}", class), h.chunks(100).map(|c| c.to_vec()).collect(), None));
        }
        if h.len() > 1024 {
            for c in [1023usize, 1024, 1000, 512] {
                jobs.push((format!("invalid_{}", class), split_at(&h, &[c]), None));
            }
            jobs.push((format!("invalid_{}", class), split_at(&h, &[300, 600, 900]), None));
        }
    }
    // incomplete head then EOF
    for h in heads.iter().take(4) {
        for c in [1usize, 10, h.len() - 1] {
            jobs.push(("truncated_head".into(), split_at(&h[..c], &[c / 2]), None));
        }
    }

    let mut handles: std::collections::VecDeque<tokio::task::JoinHandle<vh1::H1Obs>> = Default::default();
    let mut next_to_spawn = 0usize;
    let all_chunks: Vec<Vec<Vec<u8>>> = jobs.iter().map(|j| j.1.clone()).collect();
    for (class, chunks, head_len) in jobs {
        // keep up to 48 sessions in flight
        while next_to_spawn < all_chunks.len() && handles.len() < 48 {
            let st2 = st.clone();
            let c2 = all_chunks[next_to_spawn].clone();
            handles.push_back(rt.spawn(async move { vh1::session(st2, c2, true, b"DOWNLOAD".to_vec()).await }));
            next_to_spawn += 1;
        }
        let stream: Vec<u8> = chunks.concat();
        let handle = handles.pop_front().unwrap();
        let obs = rt.block_on(async { tokio::time::timeout(std::time::Duration::from_secs(4), handle).await });
        let mut q = String::from("c08 listen");
        for c in &chunks {
            q.push(' ');
            q.push_str(&hex(c));
        }
        let obs = match obs {
            Ok(Ok(o)) => o,
            Ok(Err(e)) => {
                ctx.oracle_failure("panic", &format!("HTTP/1.1 session panicked ({}) on {}", e, q));
                ctx.emit(&q, "panic");
                continue;
            }
            Err(_) => {
                ctx.oracle_failure(
                    "spin_or_hang",
                    &format!("HTTP/1.1 session made no progress for 4 s (request head split across reads is never completed / busy loop) on {}", q),
                );
                ctx.emit(&q, "hang");
                // a worker thread is stuck in the codec: nothing more can be run in this process
                ctx0.finish();
                std::process::exit(0);
            }
        };
        ctx.stat(&format!("seg_{}", class));
        match head_len {
            Some(hl) => {
                let ans = if obs.listen == "request" {
                    if obs.upload_end != "eof" {
                        ctx.oracle_failure("upload_not_ended", &format!("upload side ended with {:?} on {}", obs.upload_end, q));
                    }
                    // well-formed response followed by the relayed download bytes
                    let out = &obs.transport_out;
                    let ok = out.starts_with(b"HTTP/1.1 200 OK\r\n")
                        && out.windows(4).position(|w| w == b"\r\n\r\n").map(|p| b"DOWNLOAD".starts_with(&out[p + 4..])).unwrap_or(false);
                    // (the session ends when the client closes its side, so the relayed bytes may be cut short - never altered)
                    if !ok {
                        ctx.oracle_failure("bad_response", &format!("transport received {:?} on {}", String::from_utf8_lossy(out), q));
                    }
                    // the request is the same for every segmentation: compare with an independent reading of the head
                    let head = String::from_utf8_lossy(&stream[..hl]).to_string();
                    // (a line ends with LF, with or without a CR in front of it)
                    let mut lines = head.split('\n').map(|l| l.strip_suffix('\r').unwrap_or(l));
                    let rl: Vec<&str> = lines.next().unwrap().split(' ').collect();
                    if obs.method != rl[0] {
                        ctx.oracle_failure("request_differs", &format!("method {:?} for head {:?}", obs.method, head));
                    }
                    // the target: path and query as the client wrote them (origin-form, or behind the authority of an absolute
                    // form), the authority from the target or else from Host
                    if let Ok(u) = obs.uri.parse::<http::Uri>() {
                        let got_pq = u.path_and_query().map(|p| p.as_str().to_string()).unwrap_or_default();
                        let want_pq = if rl[1].starts_with('/') {
                            rl[1].to_string()
                        } else if let Some(rest) = rl[1].strip_prefix("http://") {
                            rest.find('/').map(|i| rest[i..].to_string()).unwrap_or_else(|| "/".to_string())
                        } else {
                            String::new()
                        };
                        if !want_pq.is_empty() && got_pq != want_pq {
                            ctx.oracle_failure("request_differs", &format!("target {:?} recognised with path and query {:?} (URI {}) for {}", rl[1], got_pq, obs.uri, q));
                        }
                    } else if rl[1] != "*" {
                        ctx.oracle_failure("request_differs", &format!("target {:?} recognised as {:?} for {}", rl[1], obs.uri, q));
                    }
                    let want_headers: Vec<String> = lines
                        .filter(|l| !l.is_empty())
                        .filter_map(|l| l.split_once(": ").map(|(n, v)| (n.to_lowercase(), v.to_string())))
                        // the Host header becomes the URI authority only for origin-form / asterisk-form targets
                        .filter(|(n, _)| n != "host" || !(rl[1].starts_with('/') || rl[1] == "*"))
                        .map(|(n, v)| format!("{}: {}", n, v))
                        .collect();
                    let mut got = obs.headers.clone();
                    let mut want = want_headers.clone();
                    got.sort();
                    want.sort();
                    if got != want {
                        ctx.oracle_failure("request_differs", &format!("headers {:?}, expected {:?} for {}", got, want, q));
                    }
                    format!("request {} {}", stream.len() - obs.upload.len(), hex(&obs.upload))
                } else {
                    obs.listen.clone()
                };
                ctx.emit(&q, &ans);
            }
            None => {
                if obs.listen == "request" {
                    ctx.oracle_failure("invalid_head_accepted", &format!("{} accepted as {} {}", q, obs.method, obs.uri));
                }
                ctx.stat(&format!("invalid_{}", obs.listen));
            }
        }
    }
    // ---- the encoders: every header line of a head is written, once, in the order the lines of a name were given
    // (a name may be repeated: Set-Cookie, Cookie, Via, ...), the head ends with an empty line --------------------------------
    {
        let ctx = &mut ctx0;
        let names = ["set-cookie", "cookie", "via", "accept", "x-a", "content-type", "cache-control"];
        let n_heads = if ctx.thorough() { 2000 } else { 300 };
        for i in 0..n_heads {
            let k = ctx.rng.below(7) as usize;
            let headers: Vec<(String, Vec<u8>)> = (0..k).map(|j| (ctx.rng.pick(&names).to_string(), format!("v{}-{}", j, ctx.rng.below(50)).into_bytes())).collect();
            let (what, out) = if i % 2 == 0 {
                ("response 200", vh1::encode_response_bytes(200, &headers))
            } else {
                ("request GET http://origin.example/p?q=1", vh1::encode_request_bytes("GET", "http://origin.example/p?q=1", &headers))
            };
            ctx.stat("encoded_heads");
            let Some(out) = out else { continue };
            let text = String::from_utf8_lossy(&out).to_string();
            let mut problem = None;
            if !text.ends_with("\r\n\r\n") || text[..text.len() - 2].contains("\r\n\r\n") {
                problem = Some("the head does not end with exactly one empty line".to_string());
            }
            let lines: Vec<(String, String)> = text.split("\r\n").skip(1).filter(|l| !l.is_empty()).filter_map(|l| l.split_once(": ").map(|(n, v)| (n.to_lowercase(), v.to_string()))).filter(|(n, _)| n != "host").collect();
            for name in names {
                let want: Vec<String> = headers.iter().filter(|(n, _)| n == name).map(|(_, v)| String::from_utf8_lossy(v).to_string()).collect();
                let got: Vec<String> = lines.iter().filter(|(n, _)| n == name).map(|(_, v)| v.clone()).collect();
                if want != got {
                    problem = Some(format!("the lines of {} are {:?}, the head has {:?}", name, got, want));
                }
            }
            if let Some(p) = problem {
                ctx.oracle_failure("encoded_head_differs", &format!("{} with headers {:?} encoded as {:?}: {}", what, headers.iter().map(|(n, v)| format!("{}: {}", n, String::from_utf8_lossy(v))).collect::<Vec<_>>(), text, p));
            }
        }
    }
    // ---- the download side towards a slow client: the codec blocks in its transport write while the
    // payload, the end of stream and possibly the drop of the sink arrive -------------------------------
    {
        let ctx = &mut ctx0;
        let head = b"CONNECT example.org:443 HTTP/1.1\r\nHost: example.org:443\r\n\r\n".to_vec();
        for size in [0usize, 10, 4096, 70000] {
            for capacity in [64usize, 1000] {
                for read_step in [16usize, 64] {
                    for drop_sink in [false, true] {
                        let download: Vec<u8> = (0..size).map(|i| b'a' + (i % 26) as u8).collect();
                        let opts = vh1::ClientOpts { capacity, read_step, drop_sink_after_eof: drop_sink, client_closes_last: true, peer_script: vec![], abort_relay: false };
                        let desc = format!("CONNECT answered 200, {} payload bytes towards a client reading {} bytes at a time over a {}-byte transport, sink {} after eof()", size, read_step, capacity, if drop_sink { "dropped" } else { "flushed" });
                        let st2 = st.clone();
                        let (h2, d2) = (head.clone(), download.clone());
                        let handle = rt.spawn(async move { vh1::session_with(st2, vec![h2], true, d2, opts).await });
                        let obs = rt.block_on(async { tokio::time::timeout(std::time::Duration::from_secs(8), handle).await });
                        ctx.stat("slow_client_sessions");
                        match obs {
                            Ok(Ok(o)) => {
                                let out = &o.transport_out;
                                let body_ok = out.starts_with(b"HTTP/1.1 200 OK\r\n")
                                    && out.windows(4).position(|w| w == b"\r\n\r\n").map(|p| out[p + 4..] == download[..]).unwrap_or(false);
                                if !body_ok || !o.transport_eof || !o.session_ok {
                                    ctx.oracle_failure(
                                        "download_not_finished",
                                        &format!("{}: client got {} bytes (complete and unaltered: {}), end of stream seen: {}, session ended gracefully: {}", desc, out.len(), body_ok, o.transport_eof, o.session_ok),
                                    );
                                }
                            }
                            Ok(Err(e)) => ctx.oracle_failure("panic", &format!("HTTP/1.1 session panicked ({}): {}", e, desc)),
                            Err(_) => ctx.oracle_failure("spin_or_hang", &format!("HTTP/1.1 session did not finish in 8 s: {}", desc)),
                        }
                    }
                }
            }
        }
    }
    // ---- the relay side goes away without an orderly end (aborted origin, pipe error, idle timeout): the response sink and the
    // upload source are dropped without eof() while the client keeps its connection open and says nothing more. The session
    // must end there and then - the client sees its connection closed - not when the client next moves -------------------
    {
        let ctx = &mut ctx0;
        for (whole_head, size) in [(true, 0usize), (true, 5), (false, 5), (true, 3000)] {
            let head = b"CONNECT example.org:443 HTTP/1.1\r\nHost: example.org:443\r\n\r\n".to_vec();
            let chunks = if whole_head { vec![head.clone()] } else { vec![head[..20].to_vec(), head[20..].to_vec()] };
            let download: Vec<u8> = (0..size).map(|i| b'a' + (i % 26) as u8).collect();
            let opts = vh1::ClientOpts { capacity: 1 << 20, read_step: 0, drop_sink_after_eof: false, client_closes_last: true, peer_script: vec![], abort_relay: true };
            let desc = format!("CONNECT ({}) answered 200 and {} payload bytes, then the relay side is dropped without eof(); the client stays connected and silent", if whole_head { "head in one read" } else { "head in two reads" }, size);
            let st2 = st.clone();
            let d2 = download.clone();
            let handle = rt.spawn(async move { vh1::session_with(st2, chunks, true, d2, opts).await });
            let obs = rt.block_on(async { tokio::time::timeout(std::time::Duration::from_secs(12), handle).await });
            ctx.stat("aborted_relay_sessions");
            match obs {
                Ok(Ok(o)) => {
                    if !o.session_ok || !o.transport_eof {
                        ctx.oracle_failure(
                            "session_outlives_its_relay",
                            &format!("{}: 5 s later the session {} and the client {} its connection closed", desc, if o.session_ok { "had ended" } else { "was still running" }, if o.transport_eof { "had seen" } else { "had not seen" }),
                        );
                    }
                }
                Ok(Err(e)) => ctx.oracle_failure("panic", &format!("HTTP/1.1 session panicked ({}): {}", e, desc)),
                Err(_) => ctx.oracle_failure("spin_or_hang", &format!("HTTP/1.1 session did not finish in 12 s: {}", desc)),
            }
        }
    }
    // ---- interleavings of the two directions: payload segments arrive while the peer is slow to take them and
    // writes its own payload towards the client in between (every segment must come out of the upload side, every
    // written byte must reach the client, whatever the order in which the codec's loop sees the events) -------------
    {
        let ctx = &mut ctx0;
        let n_cases = if ctx.thorough() { 1500 } else { 200 };
        for case in 0..n_cases {
            let head = b"CONNECT example.org:443 HTTP/1.1\r\nHost: example.org:443\r\n\r\n".to_vec();
            let nseg = 1 + ctx.rng.below(5) as usize;
            let mut segs: Vec<Vec<u8>> = vec![];
            for k in 0..nseg {
                let len = *ctx.rng.pick(&[1usize, 4, 4, 17, 300, 5000]);
                segs.push((0..len).map(|i| b'A' + ((k * 7 + i) % 26) as u8).collect());
            }
            let total: usize = segs.iter().map(|s| s.len()).sum();
            let mut script = vec![];
            let mut written: Vec<u8> = vec![];
            // the first directed shape: every segment is in before the peer moves, one write, then the reads
            if case % 4 == 0 {
                script.push(vh1::PeerStep::Yield(8 * nseg + 8));
            }
            let nsteps = 2 + ctx.rng.below(8);
            for j in 0..nsteps {
                match ctx.rng.below(3) {
                    0 => {
                        let len = *ctx.rng.pick(&[1usize, 4, 64, 2000]);
                        let b: Vec<u8> = (0..len).map(|i| b'a' + ((j as usize * 5 + i) % 26) as u8).collect();
                        written.extend_from_slice(&b);
                        script.push(vh1::PeerStep::Write(b));
                    }
                    1 => script.push(vh1::PeerStep::Read(total)),
                    _ => script.push(vh1::PeerStep::Yield(*ctx.rng.pick(&[1usize, 3, 8, 20]))),
                }
            }
            // how the session ends: the peer's orderly end (3 in 5), the relay side dropped without one, the client's end of
            // stream (then the peer writes nothing: what reaches a client that is closing is a race by design)
            let ending = match case % 5 {
                1 => "gone.0",
                3 => "ce",
                _ => "eof.-",
            };
            if ending == "ce" {
                script.retain(|s| !matches!(s, vh1::PeerStep::Write(_)));
                written.clear();
            }
            // the peer ends its side only when it has everything the client sent (an HTTP/1.1 tunnel has no half-close:
            // the end of the peer's stream ends the session)
            script.push(vh1::PeerStep::ReadUntil(total));
            let events: Vec<String> = segs
                .iter()
                .map(|s| format!("u.{}", hex(s)))
                .chain(script.iter().filter_map(|s| match s {
                    vh1::PeerStep::Write(b) => Some(format!("d.{}", hex(b))),
                    _ => None,
                }))
                .chain(std::iter::once(ending.to_string()))
                .collect();
            let relay_q = format!("c08 relay {}", events.join(";"));
            let mut chunks = vec![head.clone()];
            chunks.extend(segs.iter().cloned());
            let shape: Vec<String> = script
                .iter()
                .map(|s| match s {
                    vh1::PeerStep::Write(b) => format!("write {}", b.len()),
                    vh1::PeerStep::Read(_) => "read".to_string(),
                    vh1::PeerStep::Yield(n) => format!("yield {}", n),
                    vh1::PeerStep::ReadUntil(_) => "read the rest".to_string(),
                })
                .collect();
            let desc = format!(
                "CONNECT answered 200; the client sends payload segments of {:?} bytes; the peer does [{}], then ends its side",
                segs.iter().map(|s| s.len()).collect::<Vec<_>>(),
                shape.join(", ")
            );
            let opts = vh1::ClientOpts { capacity: 1 << 20, read_step: 0, drop_sink_after_eof: false, client_closes_last: ending != "ce", peer_script: script, abort_relay: ending == "gone.0" };
            let st2 = st.clone();
            let handle = rt.spawn(async move { vh1::session_with(st2, chunks, true, vec![], opts).await });
            let obs = rt.block_on(async { tokio::time::timeout(std::time::Duration::from_secs(8), handle).await });
            ctx.stat("interleaved_sessions");
            match obs {
                Ok(Ok(o)) => {
                    // the same session put to the model of the relaying loop (TT/Model/H1Relay.lean)
                    {
                        let out = &o.transport_out;
                        let body = out.windows(4).position(|w| w == b"\r\n\r\n").map(|p| out[p + 4..].to_vec());
                        let end = match o.session_end.as_str() {
                            "ok" => "graceful",
                            "err" => "failed",
                            x => x,
                        };
                        ctx.stat(&format!("relay_ending_{}", ending.split('.').next().unwrap()));
                        ctx.emit(&relay_q, &format!("up={} down={} end={}", hexd(&o.upload), body.map(|b| hexd(&b)).unwrap_or("no-response".into()), end));
                    }
                    let expect_up: Vec<u8> = segs.concat();
                    let out = &o.transport_out;
                    let down_ok = out.starts_with(b"HTTP/1.1 200 OK\r\n")
                        && out.windows(4).position(|w| w == b"\r\n\r\n").map(|p| out[p + 4..] == written[..]).unwrap_or(false);
                    if o.upload != expect_up {
                        ctx.oracle_failure(
                            "upload_bytes_lost",
                            &format!(
                                "{}: the upload side delivered {} of the {} payload bytes (first difference at {:?}, ended with {})",
                                desc,
                                o.upload.len(),
                                expect_up.len(),
                                o.upload.iter().zip(expect_up.iter()).position(|(a, b)| a != b).or(Some(o.upload.len().min(expect_up.len()))),
                                o.upload_end
                            ),
                        );
                    } else if !down_ok || !o.transport_eof {
                        ctx.oracle_failure(
                            "download_not_finished",
                            &format!("{}: the client got {} bytes (the 200 head and the {} written bytes unaltered: {}), end of stream seen: {}", desc, out.len(), written.len(), down_ok, o.transport_eof),
                        );
                    }
                }
                Ok(Err(e)) => ctx.oracle_failure("panic", &format!("HTTP/1.1 session panicked ({}): {}", e, desc)),
                Err(_) => ctx.oracle_failure("spin_or_hang", &format!("HTTP/1.1 session did not finish in 8 s: {}", desc)),
            }
        }
    }
    ctx0.finish();
}

fn hexd(b: &[u8]) -> String {
    if b.is_empty() {
        "-".into()
    } else {
        hex(b)
    }
}
