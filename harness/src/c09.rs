//! C09: every parser of untrusted bytes on exhaustive short strings over a reduced alphabet
//! (appended to valid prefixes) and on structural mutations, under catch_unwind.
//! Queries reuse the formats of the c06 / c11 / c12 / c15 suites so the Lean models answer them.
use crate::common::*;
use std::io::Write;
use trusttunnel::verif::{self, VSocksAuth, VSocksRequest};

const ALPHA: [u8; 9] = [0, 1, 2, 0x3a, 0x3c, 0x40, 0x45, 0x60, 0xff];

fn strings(max_len: usize) -> Vec<Vec<u8>> {
    let mut out: Vec<Vec<u8>> = vec![vec![]];
    let mut frontier: Vec<Vec<u8>> = vec![vec![]];
    for _ in 0..max_len {
        let mut next = vec![];
        for s in &frontier {
            for a in ALPHA {
                let mut t = s.clone();
                t.push(a);
                next.push(t);
            }
        }
        out.extend(next.iter().cloned());
        frontier = next;
    }
    out
}

pub fn run(ctx: &mut Ctx) {
    // pure parser calls: a case that takes this long is a busy loop (the watchdog names it)
    set_stall_limit(40);
    quiet_panics();
    let rt = tokio::runtime::Builder::new_current_thread().enable_all().build().unwrap();
    let max_len = if ctx.thorough() { 5 } else { 4 };
    let tails = strings(max_len);

    // ---- UDP multiplexer stream: prefixes = nothing, a length field, a complete fixed header --------
    let src: std::net::SocketAddr = "1.2.3.4:5".parse().unwrap();
    let good = crate::c06::record(37 + 1 + 2, src, src, 1, b"a", b"xy");
    let udp_prefixes: Vec<Vec<u8>> = vec![vec![], vec![0, 0, 0, 40], good[..41].to_vec(), good.clone(), vec![0, 0, 0, 3], vec![0, 0, 0xff, 0xff]];
    for (pi, pre) in udp_prefixes.iter().enumerate() {
        for t in &tails {
            if pi >= 2 && t.len() > 3 {
                continue;
            }
            let mut s = pre.clone();
            s.extend(t);
            // two segmentations: whole and split inside the tail
            let segs: Vec<Vec<Vec<u8>>> = if s.len() > 1 { vec![vec![s.clone()], vec![s[..s.len() - 1].to_vec(), s[s.len() - 1..].to_vec()]] } else { vec![vec![s.clone()]] };
            for chunks in segs {
                let mut q = String::from("c06 decode");
                for c in &chunks {
                    q.push(' ');
                    q.push_str(&hex(c));
                }
                begin_case(&q);
                let c2 = chunks.clone();
                match catch(std::panic::AssertUnwindSafe(|| rt.block_on(verif::udp_decode_stream(c2)))) {
                    Ok(d) => ctx.emit(&q, &crate::c06::fmt_dgs(&d)),
                    Err(m) => {
                        ctx.emit(&q, "panic");
                        ctx.oracle_failure("panic", &format!("udp decoder panicked ({}) on {}", m, q));
                    }
                }
                ctx.stat("udp_stream");
            }
        }
    }
    // ---- UDP multiplexer stream: every declared length around the header sizes, with enough bytes behind it
    // that a wrong threshold reads or skips into the following record --------------------------------------
    for l in 0u32..=90 {
        for app_len in [0u8, 1, 4, 40, 255] {
            let mut s = l.to_be_bytes().to_vec();
            s.extend_from_slice(&[0u8; 12]);
            s.extend_from_slice(&[1, 2, 3, 4, 0, 5]);
            s.extend_from_slice(&[0u8; 12]);
            s.extend_from_slice(&[1, 2, 3, 4, 0, 5]);
            s.push(app_len);
            s.extend((0..60u8).map(|i| b'a' + i % 26));
            // cut to what the declared length covers when that is more than the fixed header, so that the
            // stream stays delimited; shorter declarations keep everything (the decoder must drop `l` bytes)
            if (l as usize) >= 37 {
                s.truncate(4 + l as usize);
            } else {
                s.truncate(4 + (l as usize).max(38));
            }
            s.extend_from_slice(&good);
            for chunks in [vec![s.clone()], vec![s[..5].to_vec(), s[5..].to_vec()]] {
                let mut q = String::from("c06 decode");
                for c in &chunks {
                    q.push(' ');
                    q.push_str(&hex(c));
                }
                begin_case(&q);
                let c2 = chunks.clone();
                match catch(std::panic::AssertUnwindSafe(|| rt.block_on(verif::udp_decode_stream(c2)))) {
                    Ok(d) => ctx.emit(&q, &crate::c06::fmt_dgs(&d)),
                    Err(m) => {
                        ctx.emit(&q, "panic");
                        ctx.oracle_failure("panic", &format!("udp decoder panicked ({}) on {}", m, q));
                    }
                }
                ctx.stat("udp_length_boundary");
            }
        }
    }
    // ---- connection filter: the client random comes from the network; every prefix / mask length of a rule
    // against every short random and a full 32-byte one -------------------------------------------------
    {
        use trusttunnel::rules::{Rule, RuleAction, RuleEvaluation, RulesConfig, RulesEngine};
        let ip: std::net::IpAddr = "203.0.113.9".parse().unwrap();
        let randoms: Vec<Vec<u8>> = vec![vec![], vec![0xaa], vec![0xaa, 0xbb], vec![0xaa, 0xbb, 0xcc], (0..32).map(|i| 0xaa ^ (i as u8 & 1)).collect()];
        for plen in 0..=4usize {
            for mlen in 0..=6usize {
                for masked in [false, true] {
                    if !masked && mlen > 0 {
                        continue;
                    }
                    let prefix: String = (0..plen).map(|i| format!("{:02x}", 0xaa ^ (i as u8 & 1))).collect();
                    let mask: String = (0..mlen).map(|_| "ff".to_string()).collect();
                    let pat = if masked { format!("{}/{}", prefix, mask) } else { prefix.clone() };
                    let rules = vec![Rule { cidr: None, client_random_prefix: Some(pat), action: RuleAction::Deny }];
                    let engine = RulesEngine::from_config(RulesConfig { rule: rules.clone() });
                    for rnd in &randoms {
                        let q = format!("c04 eval 0 {} {} {}", crate::c04::ip_token(&Some(ip)), if rnd.is_empty() { "-".to_string() } else { hex(rnd) }, crate::c04::rules_tokens(&rules));
                        begin_case(&q);
                        match catch(std::panic::AssertUnwindSafe(|| engine.evaluate(&ip, Some(rnd)))) {
                            Ok(v) => ctx.emit(&q, if v == RuleEvaluation::Allow { "allow" } else { "deny" }),
                            Err(m) => {
                                ctx.emit(&q, "panic");
                                ctx.oracle_failure("panic", &format!("RulesEngine::evaluate panicked ({}) on {}", m, q));
                            }
                        }
                        ctx.stat("rule_pattern_lengths");
                    }
                }
            }
        }
    }
    // ---- ICMP multiplexer stream ------------------------------------------------------------------------
    for t in &tails {
        let q = format!("c11 decode {}", hex(t));
        begin_case(&q);
        match catch(std::panic::AssertUnwindSafe(|| rt.block_on(verif::icmp_decode_stream(vec![t.clone()])))) {
            Ok(r) => ctx.emit(&q, if r.is_empty() { "-" } else { "nonempty" }),
            Err(m) => {
                ctx.emit(&q, "panic");
                ctx.oracle_failure("panic", &format!("icmp request decoder panicked ({}) on {}", m, q));
            }
        }
        ctx.stat("icmp_stream");
    }
    // whole request frames delivered in pieces, with the tails behind them (a frame reassembled from chunks, then more input)
    {
        let frame: Vec<u8> = {
            let mut f = vec![0x12, 0x34];
            f.extend_from_slice(&[0u8; 12]);
            f.extend_from_slice(&[127, 0, 0, 1, 0, 7, 64, 0, 8]);
            f
        };
        for cut in [1usize, 10, 22] {
            for t in tails.iter().take(if ctx.thorough() { tails.len() } else { 60 }) {
                let mut rest = frame[cut..].to_vec();
                rest.extend_from_slice(t);
                let chunks = vec![frame[..cut].to_vec(), rest, frame.clone()];
                let q = format!("c11 decode {}", chunks.iter().map(|c| hex(c)).collect::<Vec<_>>().join(" "));
                begin_case(&q);
                let c2 = chunks.clone();
                match catch(std::panic::AssertUnwindSafe(|| rt.block_on(verif::icmp_decode_stream(c2)))) {
                    Ok(r) => {
                        if r.len() > 2 + t.len() / 23 {
                            ctx.oracle_failure("panic", &format!("icmp request decoder produced {} requests from {} bytes: {}", r.len(), 46 + t.len(), q));
                        }
                    }
                    Err(m) => ctx.oracle_failure("panic", &format!("icmp request decoder panicked ({}) on {}", m, q)),
                }
                ctx.stat("icmp_stream_fragmented_frame");
            }
        }
    }
    // ---- raw ICMP / ICMPv6 packets: each error type + quoted IP header prefix + tail --------------------
    let mut v4hdr = vec![0u8; 20];
    v4hdr[0] = 0x45;
    v4hdr[9] = 1;
    let mut v6hdr = vec![0u8; 40];
    v6hdr[0] = 0x60;
    v6hdr[6] = 0; // hop-by-hop follows
    for v6 in [false, true] {
        let types: &[u8] = if v6 { &[1, 2, 3, 4, 128, 129] } else { &[0, 3, 4, 5, 8, 11, 12, 13, 15] };
        for ty in types {
            let base: Vec<u8> = {
                let mut b = vec![*ty, 0, 0, 0, 0, 0, 0, 0];
                b.extend(if v6 { v6hdr.clone() } else { v4hdr.clone() });
                b
            };
            for t in &tails {
                for pre in [&base[..1], &base[..8], &base[..]] {
                    let mut p = pre.to_vec();
                    p.extend(t);
                    let h = hex(&p);
                    let q = format!("c11 responded {} {}", v6 as u8, h);
                    begin_case(&q);
                    match catch(|| verif::icmp_responded(v6, &p)) {
                        Ok(None) => ctx.emit(&q, "rejected"),
                        Ok(Some(None)) => ctx.emit(&q, "none"),
                        Ok(Some(Some((code, id, seq, data)))) => ctx.emit(&q, &format!("{} {} {} {}", code, id, seq, hex(&data))),
                        Err(m) => {
                            ctx.emit(&q, "panic");
                            ctx.oracle_failure("panic", &format!("icmp deserialize/responded v6={} panicked ({}) on {}", v6, m, h));
                        }
                    }
                    ctx.stat("icmp_packet");
                }
            }
        }
        // error messages whose quoted datagram ends at, just before and just after the end of its IP header
        // (every IPv4 header length; IPv6 with no / one / two extension headers): nothing, or only the first
        // bytes, of the quoted ICMP message is there
        {
            let err_types: &[u8] = if v6 { &[1, 2, 3, 4] } else { &[3, 4, 5, 11, 12] };
            let mut quoted: Vec<Vec<u8>> = vec![];
            if v6 {
                for nexts in [vec![58u8], vec![0, 58], vec![0, 60, 58], vec![43, 58], vec![17]] {
                    let mut h = v6hdr.clone();
                    h[6] = nexts[0];
                    for w in nexts.windows(2) {
                        h.extend_from_slice(&[w[1], 0, 0, 0, 0, 0, 0, 0]);
                    }
                    quoted.push(h);
                }
            } else {
                for ihl in 5u8..=15 {
                    for proto in [1u8, 17] {
                        let mut h = vec![0u8; ihl as usize * 4];
                        h[0] = 0x40 | ihl;
                        h[2] = 0;
                        h[3] = ihl * 4;
                        h[8] = 64;
                        h[9] = proto;
                        h[12..16].copy_from_slice(&[10, 0, 0, 1]);
                        h[16..20].copy_from_slice(&[10, 0, 0, 2]);
                        quoted.push(h);
                    }
                }
            }
            let echo: [u8; 12] = [if v6 { 128 } else { 8 }, 0, 0x12, 0x34, 0xab, 0xcd, 0, 7, 1, 2, 3, 4];
            for ty in err_types {
                for h in &quoted {
                    for extra in -2i32..=12 {
                        let mut p = vec![*ty, 0, 0, 0, 0, 0, 0, 0];
                        if extra < 0 {
                            p.extend_from_slice(&h[..h.len() - (-extra) as usize]);
                        } else {
                            p.extend_from_slice(h);
                            p.extend_from_slice(&echo[..extra as usize]);
                        }
                        let hx = hex(&p);
                        let q = format!("c11 responded {} {}", v6 as u8, hx);
                        begin_case(&q);
                        match catch(|| verif::icmp_responded(v6, &p)) {
                            Ok(None) => ctx.emit(&q, "rejected"),
                            Ok(Some(None)) => ctx.emit(&q, "none"),
                            Ok(Some(Some((code, id, seq, data)))) => ctx.emit(&q, &format!("{} {} {} {}", code, id, seq, hex(&data))),
                            Err(m) => {
                                ctx.emit(&q, "panic");
                                ctx.oracle_failure("panic", &format!("icmp deserialize/responded v6={} panicked ({}) on {}", v6, m, hx));
                            }
                        }
                        ctx.stat("icmp_error_quote_boundary");
                    }
                }
            }
        }
        // IP header skipping on its own
        for t in &tails {
            let mut p = if v6 { v6hdr.clone() } else { v4hdr.clone() };
            p.extend(t);
            for cut in [p.len(), p.len().saturating_sub(3)] {
                let body = &p[..cut];
                let q = format!("c11 skip {} {}", v6 as u8, hex(body));
                begin_case(&q);
                match catch(|| verif::skip_ip_header(v6, body)) {
                    Ok(None) => ctx.emit(&q, "none"),
                    Ok(Some((proto, rest))) => ctx.emit(&q, &format!("{} {}", proto, hex(&rest))),
                    Err(m) => {
                        ctx.emit(&q, "panic");
                        ctx.oracle_failure("panic", &format!("skip_ip_header v6={} panicked ({}) on {}", v6, m, hex(body)));
                    }
                }
                ctx.stat("ip_header");
            }
        }
    }
    // ---- first bytes of a TLS connection -----------------------------------------------------------------
    let hello = crate::c12::mk_record(22, &crate::c12::mk_handshake(1, &crate::c12::mk_hello_body(&[7u8; 32], &[], &[0x13, 0x01], &[0], &[])));
    for pre in [&hello[..0], &hello[..5], &hello[..9], &hello[..43], &hello[..]] {
        for t in &tails {
            if !pre.is_empty() && t.len() > 3 {
                continue;
            }
            let mut p = pre.to_vec();
            p.extend(t);
            let q = format!("c12 extract {}", hex(&p));
            begin_case(&q);
            match catch(|| verif::extract_client_random(&p)) {
                Ok((0, Some(x))) => ctx.emit(&q, &format!("found {}", hex(&x))),
                Ok((1, _)) => ctx.emit(&q, "needmore"),
                Ok(_) => ctx.emit(&q, "notfound"),
                Err(m) => {
                    ctx.emit(&q, "panic");
                    ctx.oracle_failure("panic", &format!("extract_client_random panicked ({}) on {}", m, hex(&p)));
                }
            }
            ctx.stat("client_hello");
        }
    }
    // ---- SOCKS5 server replies -------------------------------------------------------------------------------
    for pre in [vec![], vec![5u8, 0], vec![5, 0, 5, 0, 0], vec![5, 0, 5, 0, 0, 3]] {
        for t in &tails {
            if t.len() > 3 {
                continue;
            }
            let mut server = pre.clone();
            server.extend(t);
            let dst: std::net::SocketAddr = "93.184.216.34:443".parse().unwrap();
            let s2 = server.clone();
            match catch(std::panic::AssertUnwindSafe(|| rt.block_on(verif::socks5_dialogue(VSocksAuth::None, VSocksRequest::ConnectIp(dst), vec![s2])))) {
                Ok(d) => ctx.emit(
                    &format!("c15 dialogue none cip {} {} {}", ip_tokens(&dst.ip()), dst.port(), hex(&server)),
                    &format!("{} | {}", hex(&d.client_bytes), d.outcome),
                ),
                Err(m) => ctx.oracle_failure("panic", &format!("socks5 dialogue panicked ({}) on server bytes {}", m, hex(&server))),
            }
            ctx.stat("socks_reply");
        }
    }
    // ---- rules and credentials files: arbitrary text never panics the loader ------------------------------------
    let dir = std::env::temp_dir().join(format!("tt_c09_{}", std::process::id()));
    std::fs::create_dir_all(&dir).unwrap();
    let fragments = ["[[rule]]\n", "[[client]]\n", "cidr = ", "client_random_prefix = ", "action = ", "username = ", "password = ", "\"", "'", "\\", "/", "aa", "zz",
        "10.0.0.0/8", "allow", "deny", "\n", "=", "[", "]", "\u{0}", "\u{ff}", "1e400", "\"\"\"", "#"];
    let n_files = if ctx.thorough() { 3000 } else { 400 };
    for i in 0..n_files {
        let n = ctx.rng.range(0, 12);
        let content: String = (0..n).map(|_| *ctx.rng.pick(&fragments)).collect();
        let p = dir.join("f.toml");
        std::fs::File::create(&p).unwrap().write_all(content.as_bytes()).unwrap();
        let key = if i % 2 == 0 { "rules_file" } else { "credentials_file" };
        let st = format!("listen_address = \"127.0.0.1:1\"\n{} = \"{}\"\n[listen_protocols.http1]\n", key, p.display());
        let r = catch(|| toml::from_str::<trusttunnel::settings::Settings>(&st).map(|s| {
            // evaluate the loaded rules on a connection too
            if let Some(e) = s.get_rules_engine().as_ref() {
                let _ = e.evaluate(&"10.1.2.3".parse().unwrap(), Some(&[0xaa, 0xbb]));
                let _ = e.evaluate(&"::1".parse().unwrap(), None);
            }
        }).is_ok());
        if let Err(m) = r {
            ctx.oracle_failure("panic", &format!("loading {} with content {:?} panicked: {}", key, content, m));
        }
        ctx.stat("config_file");
    }
    let _ = std::fs::remove_dir_all(&dir);
}
