//! C09 (live part): malformed and mutated QUIC datagrams, and garbage first bytes on TCP, thrown at
//! the real listeners (`Core::listen`, TCP + QUIC). Nothing is compared with a model: after every
//! batch the endpoint must still be alive - a fresh HTTP/3 session and a fresh TLS session are
//! served - i.e. no input took a listener task down (a panic there ends `Core::listen`), wedged it
//! in a loop, or made an unrelated connection fail.
use crate::c02h3::{plain_hosts, LiveEndpoint};
use crate::common::*;
use crate::h3cli::H3Client;
use std::io::{Read, Write};
use std::net::{SocketAddr, TcpStream, UdpSocket};
use std::time::{Duration, Instant};
use trusttunnel::core::Core;
use trusttunnel::settings::*;
use trusttunnel::shutdown::Shutdown;

fn make_core(addr: SocketAddr) -> Core {
    let settings = Settings::builder()
        .listen_address(addr)
        .unwrap()
        .listen_protocols(ListenProtocolSettings {
            http1: Some(Http1Settings::builder().build()),
            http2: Some(Http2Settings::builder().build()),
            quic: Some(QuicSettings::builder().build()),
        })
        .tls_handshake_timeout(Duration::from_millis(500))
        .build()
        .unwrap();
    Core::new(settings, None, plain_hosts(), Shutdown::new()).unwrap()
}

/// the first flight of a real client (Initial, padded to 1200 bytes) and, after the endpoint's Retry, the second one
fn real_initials(addr: SocketAddr) -> Vec<Vec<u8>> {
    let sock = UdpSocket::bind("127.0.0.1:0").unwrap();
    sock.set_read_timeout(Some(Duration::from_millis(300))).unwrap();
    let local = sock.local_addr().unwrap();
    let mut config = quiche::Config::new(quiche::PROTOCOL_VERSION).unwrap();
    config.verify_peer(false);
    config.set_application_protos(&[b"h3"]).unwrap();
    config.set_initial_max_data(1 << 20);
    config.set_initial_max_stream_data_bidi_local(1 << 20);
    config.set_initial_max_stream_data_bidi_remote(1 << 20);
    config.set_initial_max_streams_bidi(10);
    config.set_initial_max_streams_uni(10);
    let scid = [0x5a; 16];
    let mut conn = quiche::connect(Some("localhost"), &quiche::ConnectionId::from_ref(&scid), local, addr, &mut config).unwrap();
    let mut out = vec![];
    let mut buf = [0u8; 1500];
    for _ in 0..2 {
        while let Ok((n, _)) = conn.send(&mut buf) {
            out.push(buf[..n].to_vec());
            let _ = sock.send_to(&buf[..n], addr);
        }
        let mut rb = [0u8; 2000];
        if let Ok((n, from)) = sock.recv_from(&mut rb) {
            let _ = conn.recv(&mut rb[..n], quiche::RecvInfo { from, to: local });
        }
    }
    out
}

fn alive(ctx: &mut Ctx, ep: &LiveEndpoint, after: &str) -> bool {
    // a fresh HTTP/3 session
    let h3_ok = match H3Client::connect(ep.addr, Some("localhost"), &[b"h3"], 1 << 20, Duration::from_secs(3)) {
        Ok(mut c) => {
            let id = c.request("CONNECT", None, "_check", None, &[], false);
            c.wait(Duration::from_secs(2), |c| id.and_then(|i| c.streams.get(&i)).map(|s| s.status.is_some()).unwrap_or(false));
            let ok = id.map(|i| c.stream(i).status == Some(200)).unwrap_or(false);
            c.close();
            ok
        }
        Err(_) => false,
    };
    // a fresh TLS connection gets a ServerHello
    let hello = crate::c12::rustls_hello("localhost", &[b"http/1.1"]);
    let tcp_ok = match TcpStream::connect(ep.addr) {
        Ok(mut s) => {
            let _ = s.set_read_timeout(Some(Duration::from_secs(2)));
            let _ = s.write_all(&hello);
            let mut b = [0u8; 16];
            matches!(s.read(&mut b), Ok(n) if n > 0 && b[0] == 0x16)
        }
        Err(_) => false,
    };
    if !h3_ok || !tcp_ok {
        ctx.oracle_failure(
            "endpoint_down",
            &format!("after {}: a fresh HTTP/3 session was {}served, a fresh TLS connection was {}answered", after, if h3_ok { "" } else { "NOT " }, if tcp_ok { "" } else { "NOT " }),
        );
    }
    h3_ok && tcp_ok
}

pub fn run(ctx: &mut Ctx) {
    quiet_panics();
    let Some(ep) = LiveEndpoint::start(make_core) else {
        ctx.notes.push("c09live: the endpoint's listener did not come up on loopback; nothing was run".to_string());
        return;
    };
    if !alive(ctx, &ep, "start-up") {
        return;
    }
    let initials = real_initials(ep.addr);
    if initials.is_empty() {
        ctx.oracle_failure("harness", "no Initial packet could be produced");
        return;
    }
    ctx.notes.push(format!("{} real client datagrams used as mutation seeds (sizes {:?})", initials.len(), initials.iter().map(|p| p.len()).collect::<Vec<_>>()));
    let sock = UdpSocket::bind("127.0.0.1:0").unwrap();
    // paced, so that the listener's receive buffer does not simply drop the burst
    let paced = std::cell::Cell::new(0u32);
    let send = |p: &[u8]| {
        let _ = sock.send_to(p, ep.addr);
        paced.set(paced.get() + 1);
        if paced.get() % 8 == 0 {
            std::thread::sleep(Duration::from_micros(300));
        }
    };
    let n_rounds = if ctx.thorough() { 12 } else { 3 };
    for round in 0..n_rounds {
        let mut sent = 0u64;
        // (1) every prefix of a real Initial (short ones all, longer ones sampled), and the empty datagram
        for p in &initials {
            for n in 0..p.len().min(80) {
                send(&p[..n]);
                sent += 1;
            }
            for _ in 0..40 {
                let n = ctx.rng.below(p.len() as u64) as usize;
                send(&p[..n]);
                sent += 1;
            }
        }
        ctx.stat_add("quic_truncated", sent);
        if !alive(ctx, &ep, &format!("round {}: {} truncated Initial packets", round, sent)) {
            return;
        }
        // (2) byte mutations of the header region: first byte (form, type), version, connection-id lengths, token length, length
        let mut m = 0u64;
        for p in &initials {
            for off in 0..p.len().min(64) {
                for v in [0x00u8, 0x01, 0x7f, 0x80, 0xc0, 0xff, p[off] ^ 0x10, p[off].wrapping_add(1)] {
                    let mut q = p.clone();
                    q[off] = v;
                    send(&q);
                    m += 1;
                }
            }
            for _ in 0..300 {
                let mut q = p.clone();
                for _ in 0..ctx.rng.range(1, 6) {
                    let i = ctx.rng.below(q.len() as u64) as usize;
                    q[i] = ctx.rng.next() as u8;
                }
                if ctx.rng.chance(1, 3) {
                    let n = ctx.rng.below(q.len() as u64) as usize;
                    q.truncate(n);
                }
                send(&q);
                m += 1;
            }
        }
        ctx.stat_add("quic_mutated", m);
        if !alive(ctx, &ep, &format!("round {}: {} mutated Initial packets", round, m)) {
            return;
        }
        // (3) hand-made headers: unsupported versions (version negotiation), every long-header type with random ids,
        // over-long connection ids, huge token / length varints, short headers with unknown ids, random datagrams
        let mut h = 0u64;
        for version in [0u32, 1, 2, 0x0a0a0a0a, 0xff00001d, 0x6b3343cf, u32::MAX] {
            for ty in 0..4u8 {
                for (dl, sl) in [(0usize, 0usize), (8, 8), (20, 20), (21, 0), (255, 255), (16, 4)] {
                    let mut p = vec![0xc0 | (ty << 4) | (ctx.rng.next() as u8 & 0x0f)];
                    p.extend_from_slice(&version.to_be_bytes());
                    p.push(dl as u8);
                    p.extend(ctx.rng.bytes(dl.min(40)));
                    p.push(sl as u8);
                    p.extend(ctx.rng.bytes(sl.min(40)));
                    for tail in 0..4 {
                        let mut q = p.clone();
                        match tail {
                            0 => {}
                            1 => q.extend_from_slice(&[0xff, 0xff, 0xff, 0xff, 0xff, 0xff, 0xff, 0xff]), // token length 2^62-1
                            2 => {
                                q.push(0); // no token
                                q.extend_from_slice(&[0xbf, 0xff, 0xff, 0xff]); // length far beyond the datagram
                            }
                            _ => {
                                q.push(0);
                                q.extend_from_slice(&[0x44, 0xb0]);
                                q.extend(ctx.rng.bytes(1200));
                            }
                        }
                        send(&q);
                        h += 1;
                    }
                }
            }
        }
        for _ in 0..300 {
            let n = ctx.rng.range(1, 1400) as usize;
            let mut p = ctx.rng.bytes(n);
            if ctx.rng.chance(1, 2) {
                p[0] = 0x40 | (p[0] & 0x3f); // short header
            }
            send(&p);
            h += 1;
        }
        ctx.stat_add("quic_handmade", h);
        if !alive(ctx, &ep, &format!("round {}: {} hand-made headers and random datagrams", round, h)) {
            return;
        }
        // (3b) address-validation tokens: the token of a real second Initial (the one the endpoint's Retry handed out) cut to
        // every length, extended, and with single bytes changed - each under a fresh connection id, with the length field
        // of the header adjusted so that the header itself stays well-formed
        let mut tk = 0u64;
        for p in &initials {
            if p.len() < 7 || p[0] & 0x80 == 0 {
                continue;
            }
            let dl = p[5] as usize;
            let so = 6 + dl;
            if p.len() <= so {
                continue;
            }
            let sl = p[so] as usize;
            let to = so + 1 + sl;
            if p.len() <= to {
                continue;
            }
            // token length varint (1 or 2 bytes for the sizes at hand)
            let (tlen, tl_bytes) = match p[to] >> 6 {
                0 => ((p[to] & 0x3f) as usize, 1),
                1 if p.len() > to + 1 => ((((p[to] & 0x3f) as usize) << 8) | p[to + 1] as usize, 2),
                _ => continue,
            };
            if tlen == 0 || p.len() < to + tl_bytes + tlen {
                continue;
            }
            let token = p[to + tl_bytes..to + tl_bytes + tlen].to_vec();
            let rest = p[to + tl_bytes + tlen..].to_vec();
            let mut variants: Vec<Vec<u8>> = (0..=tlen).map(|k| token[..k].to_vec()).collect();
            for extra in [1usize, 7, 64] {
                let mut t = token.clone();
                t.extend(ctx.rng.bytes(extra));
                variants.push(t);
            }
            for i in 0..tlen {
                let mut t = token.clone();
                t[i] ^= 0x01;
                variants.push(t);
            }
            for t in variants {
                let mut q = p[..5].to_vec();
                q.push(dl as u8);
                q.extend(ctx.rng.bytes(dl));
                q.extend_from_slice(&p[so..to]);
                if t.len() < 64 {
                    q.push(t.len() as u8);
                } else {
                    q.push(0x40 | (t.len() >> 8) as u8);
                    q.push(t.len() as u8);
                }
                q.extend_from_slice(&t);
                q.extend_from_slice(&rest);
                send(&q);
                tk += 1;
            }
        }
        ctx.stat_add("quic_token_variants", tk);
        if !alive(ctx, &ep, &format!("round {}: {} Initial packets with truncated, extended and altered address-validation tokens", round, tk)) {
            return;
        }
        // (4) TCP: garbage and near-TLS first bytes, then silence or close
        let mut t = 0u64;
        let hello = crate::c12::rustls_hello("localhost", &[b"h2"]);
        for k in 0..60 {
            let Ok(mut s) = TcpStream::connect(ep.addr) else { continue };
            let mut p = match k % 6 {
                0 => {
                    let n = ctx.rng.range(1, 600) as usize;
                    ctx.rng.bytes(n)
                }
                1 => {
                    let n = ctx.rng.below(hello.len() as u64) as usize;
                    hello[..n].to_vec()
                }
                2 => {
                    let mut q = hello.clone();
                    for _ in 0..ctx.rng.range(1, 8) {
                        let i = ctx.rng.below(q.len() as u64) as usize;
                        q[i] = ctx.rng.next() as u8;
                    }
                    q
                }
                3 => b"GET / HTTP/1.1\r\nHost: x\r\n\r\n".to_vec(),
                4 => vec![22, 3, 1, 0xff, 0xff],
                _ => {
                    let mut q = vec![22, 3, 1, 0x40, 0x00];
                    q.extend(ctx.rng.bytes(0x4000));
                    q
                }
            };
            if k % 11 == 0 {
                p.extend(ctx.rng.bytes(70_000));
            }
            let _ = s.write_all(&p);
            t += 1;
            // half of them are closed at once, the others left to the handshake timeout
            if k % 2 == 0 {
                drop(s);
            } else {
                std::mem::forget(s);
            }
        }
        ctx.stat_add("tcp_first_bytes", t);
        if !alive(ctx, &ep, &format!("round {}: {} TCP connections with garbage first bytes", round, t)) {
            return;
        }
    }
    // a little later everything is still fine (handshake timeouts of the abandoned connections have fired)
    let t0 = Instant::now();
    while t0.elapsed() < Duration::from_millis(700) {
        std::thread::sleep(Duration::from_millis(50));
    }
    alive(ctx, &ep, "the handshake timeouts of the abandoned TCP connections");
}
