//! C01 / C10: tunnel requests over real HTTP/1.1 and HTTP/2 codecs with a scripted forwarder
use crate::common::*;
use base64::Engine;
use std::collections::HashMap;
use std::sync::Arc;
use trusttunnel::authentication::registry_based::{Client, RegistryBasedAuthenticator};
use trusttunnel::authentication::{Authenticator, Source, Status};
use trusttunnel::core::Core;
use trusttunnel::settings::*;
use trusttunnel::shutdown::Shutdown;
use trusttunnel::verif::{self, vtunnel::*};

struct Scripted {
    tokens: Vec<String>,
    snis: Vec<String>,
}

impl Authenticator for Scripted {
    fn authenticate(&self, source: &Source<'_>, _log_id: &trusttunnel::log_utils::IdChain<u64>) -> Status {
        let ok = match source {
            Source::ProxyBasic(t) => self.tokens.iter().any(|x| x == t.as_ref()),
            Source::Sni(s) => self.snis.iter().any(|x| x == s.as_ref()),
        };
        if ok {
            Status::Pass
        } else {
            Status::Reject
        }
    }
}

#[derive(Clone)]
enum Authn {
    None,
    Registry(Vec<(String, String)>),
    Scripted(Vec<String>, Vec<String>),
}

fn b64(s: &str) -> String {
    base64::engine::general_purpose::STANDARD.encode(s.as_bytes())
}

pub fn make_core(authn: &Authn, establish_ms: u64) -> Core {
    make_core_with_shutdown(authn, establish_ms, Shutdown::new())
}

pub fn plain_core(shutdown: Arc<std::sync::Mutex<Shutdown>>) -> Core {
    make_core_with_shutdown(&Authn::None, 30_000, shutdown)
}

fn make_core_with_shutdown(authn: &Authn, establish_ms: u64, shutdown: Arc<std::sync::Mutex<Shutdown>>) -> Core {
    make_core_at(authn, establish_ms, shutdown, ([127, 0, 0, 1], 1).into(), false)
}

fn make_core_at(authn: &Authn, establish_ms: u64, shutdown: Arc<std::sync::Mutex<Shutdown>>, addr: std::net::SocketAddr, quic: bool) -> Core {
    let settings = Settings::builder()
        .listen_address(addr)
        .unwrap()
        .listen_protocols(ListenProtocolSettings {
            http1: Some(Http1Settings::builder().build()),
            http2: Some(Http2Settings::builder().build()),
            quic: if quic { Some(QuicSettings::builder().build()) } else { None },
        })
        .connection_establishment_timeout(std::time::Duration::from_millis(establish_ms))
        .build()
        .unwrap();
    let hosts = TlsHostsSettings::builder()
        .main_hosts(vec![TlsHostInfo {
            hostname: "localhost".into(),
            cert_chain_path: FIXTURE_PEM.into(),
            private_key_path: FIXTURE_PEM.into(),
            allowed_sni: vec![],
        }])
        .build()
        .unwrap();
    let a: Option<Arc<dyn Authenticator>> = match authn {
        Authn::None => None,
        Authn::Registry(cl) => Some(Arc::new(RegistryBasedAuthenticator::new(
            &cl.iter().map(|(u, p)| Client { username: u.clone(), password: p.clone() }).collect::<Vec<_>>(),
        ))),
        Authn::Scripted(t, s) => Some(Arc::new(Scripted { tokens: t.clone(), snis: s.clone() })),
    };
    Core::new(settings, a, hosts, shutdown).unwrap()
}

fn authn_tok(a: &Authn) -> String {
    match a {
        Authn::None => "none".into(),
        Authn::Registry(cl) => {
            let mut s = format!("reg {}", cl.len());
            for (u, p) in cl {
                s.push_str(&format!(" {} {}", hex(u.as_bytes()), hex(p.as_bytes())));
            }
            s
        }
        Authn::Scripted(t, sn) => {
            let mut s = format!("scr {}", t.len());
            for x in t {
                s.push_str(&format!(" {}", hex(x.as_bytes())));
            }
            s.push_str(&format!(" {}", sn.len()));
            for x in sn {
                s.push_str(&format!(" {}", hex(x.as_bytes())));
            }
            s
        }
    }
}

struct ReqSpec {
    method: String,
    authority: String,
    hdr: Option<Vec<u8>>,
    outcome: ConnectScript,
    outcome_tok: String,
}

fn parse_resp_h1(raw: &[u8]) -> (u16, HashMap<String, String>, usize) {
    // number of response heads = occurrences of "HTTP/1." at the start or right after a CRLFCRLF with no body bytes in between
    let text = String::from_utf8_lossy(raw).to_string();
    let mut status = 0u16;
    let mut headers = HashMap::new();
    let heads = text.matches("HTTP/1.1 ").count() + text.matches("HTTP/1.0 ").count();
    if let Some(end) = text.find("\r\n\r\n") {
        let head = &text[..end];
        let mut lines = head.split("\r\n");
        if let Some(sl) = lines.next() {
            let parts: Vec<&str> = sl.splitn(3, ' ').collect();
            if parts.len() >= 2 {
                status = parts[1].parse().unwrap_or(0);
            }
        }
        for l in lines {
            if let Some((n, v)) = l.split_once(": ") {
                headers.insert(n.to_lowercase(), v.to_string());
            }
        }
    }
    (status, headers, heads)
}

fn resp_tok(status: u16, headers: &HashMap<String, String>) -> String {
    let warn = headers.get("x-warning").map(|v| v.chars().take(3).collect::<String>()).unwrap_or_else(|| "-".into());
    format!(
        "{} {} {} {}",
        status,
        warn,
        headers.get("proxy-authenticate").map(|v| v.starts_with("Basic") as u8).unwrap_or(0),
        headers.contains_key("x-adguard-vpn-error") as u8
    )
}

pub fn run(ctx: &mut Ctx) {
    quiet_panics();
    let authority_pool = [
        "_check", "_udp2", "_icmp", "_CHECK", "_check:1", "_check.", "x_check", "_udp2:443", "_icmpx", "example.org:443", "example.org",
        "93.184.216.34:80", "[2001:db8::1]:443", "[::1]", "localhost:22", "a-b.example:65535", "h:0", "127.0.0.1:8080", "host.example:notaport",
    ];
    let outcomes: Vec<(ConnectScript, String)> = vec![
        (ConnectScript::Ok { download: vec![] }, "ok".into()),
        (ConnectScript::Refused, "io".into()),
        (ConnectScript::Unreachable, "hostUnreachable".into()),
        (ConnectScript::TimedOut, "timeout".into()),
        (ConnectScript::PolicyNonroutable, "dnsNonroutable".into()),
        (ConnectScript::PolicyLoopback, "dnsLoopback".into()),
        (ConnectScript::ResolverFailure, "io".into()),
        (ConnectScript::TooManyFiles, "io".into()),
        (ConnectScript::Other, "other".into()),
        (ConnectScript::AuthenticationFailure, "authentication".into()),
        (ConnectScript::DelayedOk { ms: 29_999 }, "delay:29999".into()),
        (ConnectScript::DelayedOk { ms: 30_000 }, "delay:30000".into()),
        (ConnectScript::DelayedOk { ms: 30_001 }, "delay:30001".into()),
    ];
    let clients = vec![("user".to_string(), "pass".to_string()), ("u\u{e9}".to_string(), "p:w d".to_string()), ("Alice".to_string(), "S3cret".to_string())];
    let valid = b64("user:pass");
    let hdr_pool: Vec<(Option<Vec<u8>>, &str)> = vec![
        (None, "absent"),
        // user names and passwords are compared as configured: other spellings of a configured pair are other pairs
        (Some(format!("Basic {}", b64("Alice:S3cret")).into_bytes()), "valid3"),
        (Some(format!("Basic {}", b64("alice:S3cret")).into_bytes()), "user_lower_cased"),
        (Some(format!("Basic {}", b64("ALICE:S3cret")).into_bytes()), "user_upper_cased"),
        (Some(format!("Basic {}", b64("Alice:s3cret")).into_bytes()), "pass_lower_cased"),
        (Some(format!("Basic {}", b64("User:pass")).into_bytes()), "user_capitalised"),
        (Some(format!("Basic {}", b64("user:pass ")).into_bytes()), "pass_with_space"),
        (Some(format!("Basic {}", valid).into_bytes()), "valid"),
        (Some(format!("Basic {}", b64("u\u{e9}:p:w d")).into_bytes()), "valid2"),
        (Some(format!("Basic {}", b64("user:wrong")).into_bytes()), "wrong_pass"),
        (Some(format!("Basic {}", b64("nobody:pass")).into_bytes()), "wrong_user"),
        (Some(b"Bearer abcdef".to_vec()), "other_scheme"),
        (Some(format!("basic {}", valid).into_bytes()), "lower_case_scheme"),
        (Some(format!("Basic{}", valid).into_bytes()), "no_space"),
        (Some(b"Basic !!!notbase64".to_vec()), "bad_base64"),
        (Some(vec![b'B', b'a', b's', b'i', b'c', b' ', 0xff, 0xfe]), "non_utf8"),
        (Some(b"".to_vec()), "empty"),
        (Some(b"Basic ".to_vec()), "empty_token"),
        (Some(format!("Basic {} ", valid).into_bytes()), "trailing_space"),
    ];
    let n_sessions = if ctx.thorough() { 20_000 } else { 1_500 };
    let auth_focus = ctx.suite == "c01";
    let mut cores: HashMap<String, Core> = HashMap::new();
    for si in 0..n_sessions {
        let authn = match ctx.rng.below(if auth_focus { 6 } else { 4 }) {
            0 => Authn::None,
            1 | 4 | 5 => Authn::Registry(clients.clone()),
            _ => Authn::Scripted(vec![valid.clone()], vec!["snicred".into()]),
        };
        let sni_creds: Option<String> = match ctx.rng.below(5) {
            0 => Some("snicred".into()),
            1 => Some("intruder".into()),
            _ => None,
        };
        let proto = if ctx.rng.chance(1, 3) { "h1" } else { "h2" };
        // an end-to-end Authorization header on every request of one session in three: it is for the origin, not for this
        // proxy - credentials in it (valid ones included) never pass the gate, and it does not spoil an accepted connection
        let e2e: Option<Vec<u8>> = if ctx.rng.chance(1, 3) {
            Some(match ctx.rng.below(4) {
                0 => format!("Basic {}", valid).into_bytes(),
                1 => format!("Basic {}", b64("Alice:S3cret")).into_bytes(),
                2 => b"Bearer origin-token".to_vec(),
                _ => format!("Basic {}", b64("origin:secret")).into_bytes(),
            })
        } else {
            None
        };
        if e2e.is_some() {
            ctx.stat("sessions_with_end_to_end_authorization");
        }
        // a header that only begins like a ping marker (`X-Ping: 1`, `Sec-Fetch-Mode: navigate` are the markers): the request is
        // a tunnel request like any other and goes through the gate
        let near_ping: Option<(&str, &str)> = if ctx.rng.chance(1, 4) {
            Some(*ctx.rng.pick(&[("x-ping", "10"), ("x-ping", "1.0"), ("x-ping", "1, 1"), ("x-ping", "11"), ("sec-fetch-mode", "navigate-nested"), ("sec-fetch-mode", "navigated"), ("x-ping", "0"), ("sec-fetch-mode", "cors")]))
        } else {
            None
        };
        if near_ping.is_some() {
            ctx.stat("sessions_with_a_near_miss_ping_marker");
        }
        // the User-Agent is handed to the forwarder as text when it is text: any value (none, ASCII, UTF-8, bytes that are no
        // text at all) leaves the request's answer what it is
        let ua: Option<Vec<u8>> = match ctx.rng.below(6) {
            0 => None,
            1 => Some("Android \u{41f}\u{43e}\u{447}\u{442}\u{430}/2".as_bytes().to_vec()),
            2 => Some(vec![b'a', 0xff, 0xfe, b'z']),
            _ => Some(b"verif".to_vec()),
        };
        if !matches!(ua.as_deref(), Some(b"verif")) {
            ctx.stat("sessions_with_an_unusual_user_agent");
        }
        let nreq = if proto == "h1" { 1 } else { ctx.rng.range(1, if ctx.thorough() { 5 } else { 3 }) as usize };
        let mut script = FwdScript::default();
        script.udp_mux_fails = ctx.rng.chance(1, 8);
        script.icmp_mux = match ctx.rng.below(6) {
            0 => None,
            1 => Some(false),
            _ => Some(true),
        };
        script.datagram_auth_fails = ctx.rng.chance(1, 8);
        let mut reqs: Vec<ReqSpec> = vec![];
        let mut used: Vec<String> = vec![];
        for _ in 0..nreq {
            let mut authority = ctx.rng.pick(&authority_pool).to_string();
            // each ordinary destination at most once per session (the forwarder script is keyed by it)
            if used.contains(&authority) && !["_check", "_udp2", "_icmp"].contains(&authority.as_str()) {
                authority = format!("h{}.example:{}", ctx.rng.below(10_000), 1 + ctx.rng.below(60_000));
            }
            used.push(authority.clone());
            let method = if ctx.rng.chance(3, 4) { "CONNECT" } else { *ctx.rng.pick(&["GET", "POST", "OPTIONS", "HEAD"]) };
            let (hdr, _) = if auth_focus || ctx.rng.chance(1, 2) { ctx.rng.pick(&hdr_pool).clone() } else { hdr_pool[1].clone() };
            let (mut oc, mut otok) = ctx.rng.pick(&outcomes).clone();
            if method != "CONNECT" && matches!(oc, ConnectScript::Ok { .. } | ConnectScript::DelayedOk { .. }) {
                // plain-HTTP forwarding on success is C17's subject
                oc = ConnectScript::Refused;
                otok = "io".into();
            }
            reqs.push(ReqSpec { method: method.to_string(), authority, hdr, outcome: oc, outcome_tok: otok });
        }
        for r in &reqs {
            // the forwarder sees `host:port` (default port 80 for non-CONNECT)
            let key = match r.authority.parse::<http::uri::Authority>() {
                Ok(a) => match a.as_str().parse::<std::net::SocketAddr>() {
                    Ok(sa) => sa.to_string(),
                    Err(_) => format!("{}:{}", a.host(), a.port_u16().unwrap_or(80)),
                },
                Err(_) => r.authority.clone(),
            };
            script.connect.insert(key, r.outcome.clone());
        }
        let core_key = authn_tok(&authn);
        let core = cores.entry(core_key.clone()).or_insert_with(|| make_core(&authn, 30_000));
        verif::hooks::reset();
        verif::hooks::STATE.lock().unwrap().forwarder = Some(script.clone());
        let rt = tokio::runtime::Builder::new_current_thread().enable_all().start_paused(true).build().unwrap();
        let mut resp_toks: Vec<String> = vec![];
        let mut parse_ok = true;
        if proto == "h1" {
            let r = &reqs[0];
            // a CONNECT target is usually the bare authority; a client may also send it origin-form (the authority in Host) or
            // absolute-form - the destination is the same authority, with or without a port
            let form = if r.method == "CONNECT" && !r.authority.starts_with('_') && r.authority.parse::<http::uri::Authority>().is_ok() { ctx.rng.below(4) } else { 0 };
            let target = match (r.method.as_str(), form) {
                ("CONNECT", 1) => "/".to_string(),
                ("CONNECT", 2) => format!("http://{}/", r.authority),
                ("CONNECT", _) => r.authority.clone(),
                _ => format!("http://{}/p?q=1", r.authority),
            };
            let mut raw = format!("{} {} HTTP/1.1\r\n", r.method, target).into_bytes();
            if form == 1 || form == 2 {
                raw.extend_from_slice(format!("Host: {}\r\n", r.authority).as_bytes());
                ctx.stat(if form == 1 { "h1_connect_origin_form" } else { "h1_connect_absolute_form" });
            }
            if let Some(h) = &r.hdr {
                raw.extend_from_slice(b"Proxy-Authorization: ");
                raw.extend_from_slice(h);
                raw.extend_from_slice(b"\r\n");
            }
            if let Some(e) = &e2e {
                raw.extend_from_slice(b"Authorization: ");
                raw.extend_from_slice(e);
                raw.extend_from_slice(b"\r\n");
            }
            if let Some((n, v)) = near_ping {
                raw.extend_from_slice(format!("{}: {}\r\n", n, v).as_bytes());
            }
            if let Some(u) = &ua {
                raw.extend_from_slice(b"User-Agent: ");
                raw.extend_from_slice(u);
                raw.extend_from_slice(b"\r\n");
            }
            raw.extend_from_slice(b"\r\n");
            let sc = sni_creds.clone();
            let out = rt.block_on(async { tokio::time::timeout(std::time::Duration::from_secs(120), h1_session(core, "localhost", sc, raw, 40_000)).await });
            match out {
                Ok(bytes) => {
                    let (status, headers, heads) = parse_resp_h1(&bytes);
                    if heads > 1 {
                        ctx.oracle_failure("more_than_one_response", &format!("{} {} got {} response heads: {:?}", r.method, r.authority, heads, String::from_utf8_lossy(&bytes)));
                    }
                    resp_toks.push(resp_tok(status, &headers));
                }
                Err(_) => {
                    ctx.oracle_failure("session_hung", &format!("h1 {} {}", r.method, r.authority));
                    continue;
                }
            }
        } else {
            let vreqs: Vec<VReq> = reqs
                .iter()
                .map(|r| VReq {
                    method: r.method.clone(),
                    target: if r.method == "CONNECT" { r.authority.clone() } else { format!("http://{}/p?q=1", r.authority) },
                    headers: {
                        let mut h = vec![];
                        if let Some(u) = &ua {
                            h.push(("user-agent".to_string(), u.clone()));
                        }
                        if let Some((n, v)) = near_ping {
                            h.push((n.to_string(), v.as_bytes().to_vec()));
                        }
                        if let Some(v) = &r.hdr {
                            h.push(("proxy-authorization".to_string(), v.clone()));
                        }
                        if let Some(e) = &e2e {
                            h.push(("authorization".to_string(), e.clone()));
                        }
                        h
                    },
                    body: vec![],
                })
                .collect();
            // requests the h2 client library itself refuses to encode never reach the endpoint
            for v in &vreqs {
                if http::Request::builder().method(v.method.as_str()).uri(v.target.as_str()).body(()).is_err() {
                    parse_ok = false;
                }
            }
            if !parse_ok {
                ctx.stat("skipped_unencodable_request");
                continue;
            }
            let sc = sni_creds.clone();
            let out = rt.block_on(async { tokio::time::timeout(std::time::Duration::from_secs(300), h2_session(core, "localhost", sc, vreqs, 10, 45_000)).await });
            match out {
                Ok(resps) => {
                    for r in resps {
                        let hm: HashMap<String, String> = r.headers.iter().cloned().collect();
                        resp_toks.push(resp_tok(r.status, &hm));
                    }
                }
                Err(_) => {
                    ctx.oracle_failure("session_hung", &format!("h2 session {}", si));
                    continue;
                }
            }
        }
        let calls = verif::hooks::STATE.lock().unwrap().forwarder_calls.clone();
        let mut egress: Vec<&str> = calls
            .iter()
            .filter_map(|c| {
                if c.starts_with("tcp_connect ") {
                    Some("tcp")
                } else if c.starts_with("udp_mux") {
                    Some("udp")
                } else if c.starts_with("icmp_mux") {
                    Some("icmp")
                } else if c.starts_with("check_auth") {
                    Some("checkauth")
                } else {
                    None
                }
            })
            .collect();
        egress.sort();
        let mut q = format!(
            "c10 session {} {} {} 30000 {}",
            // (the model does not look at this token: the protocol and the end-to-end header are here for the replay)
            format!(
                "{}{}{}{}",
                proto,
                e2e.as_ref().map(|e| format!("+authorization={}", hex(e))).unwrap_or_default(),
                near_ping.map(|(n, v)| format!("+{}={}", n, hex(v.as_bytes()))).unwrap_or_default(),
                match &ua {
                    None => "+no-user-agent".to_string(),
                    Some(u) if u == b"verif" => String::new(),
                    Some(u) => format!("+user-agent={}", hex(u)),
                }
            ),
            authn_tok(&authn),
            sni_creds.as_ref().map(|s| hex(s.as_bytes())).unwrap_or_else(|| "-".into()),
            reqs.len()
        );
        for r in &reqs {
            let (lit, port) = match r.authority.parse::<http::uri::Authority>() {
                Ok(a) => (a.as_str().parse::<std::net::SocketAddr>().is_ok(), a.port_u16()),
                Err(_) => (false, None),
            };
            q.push_str(&format!(
                " {} {} {} {} {} {} {} {} {}",
                if r.method == "CONNECT" { "C" } else { "O" },
                hex(r.authority.as_bytes()),
                lit as u8,
                port.map(|p| p.to_string()).unwrap_or_else(|| "-".into()),
                match &r.hdr {
                    None => "absent".to_string(),
                    Some(h) => {
                        // HTTP/1.1 field values are delivered without surrounding optional whitespace
                        let h: Vec<u8> = if proto == "h1" {
                            let t = String::from_utf8_lossy(h).to_string();
                            if h.iter().all(|b| b.is_ascii()) { t.trim_matches(|c| c == ' ' || c == '\t').as_bytes().to_vec() } else { h.clone() }
                        } else {
                            h.clone()
                        };
                        format!("h{}", if h.is_empty() { String::new() } else { hex(&h) })
                    }
                },
                r.outcome_tok,
                script.udp_mux_fails as u8,
                match script.icmp_mux {
                    None => "n",
                    Some(true) => "o",
                    Some(false) => "e",
                },
                script.datagram_auth_fails as u8
            ));
        }
        let ans = format!("{} | {}", resp_toks.join(";"), if egress.is_empty() { "-".to_string() } else { egress.join(",") });
        for t in &resp_toks {
            ctx.stat(&format!("status_{}", t.split(' ').next().unwrap()));
        }
        ctx.stat(&format!("sessions_{}", proto));
        ctx.emit(&q, &ans);
    }

    run_real(ctx);
}

/// the real direct forwarder behind the dispatch: which refusal code a destination gets, for CONNECT and for plain-HTTP
/// requests whose authority has a port or leaves it out (outbound connects are recorded and failed by the door's stub,
/// so nothing leaves the machine). Also runs as suite `c10real` (for C03: how a policy refusal is reported).
pub fn run_real(ctx: &mut Ctx) {
    quiet_panics();
    {
        use trusttunnel::verif::hooks;
        let literals: Vec<std::net::SocketAddr> = [
            "127.0.0.1:80", "127.0.0.2:443", "127.255.255.254:8080", "[::1]:443", "10.0.0.1:80", "192.168.1.1:80", "169.254.1.1:80",
            "100.64.0.1:80", "100.127.255.254:80", "[fe80::1]:80", "[fc00::1]:80", "[2001:db8::1]:80", "[::ffff:127.0.0.1]:80",
            "[::ffff:127.9.9.9]:80", "[::ffff:10.0.0.1]:80", "8.8.8.8:53", "[2606:4700:4700::1111]:443", "0.0.0.0:80", "224.0.0.1:80",
        ]
        .iter()
        .map(|x| x.parse().unwrap())
        .collect();
        let names: Vec<(&str, Vec<&str>)> = vec![
            ("lo.test", vec!["127.0.0.5"]),
            ("lo6.test", vec!["::1"]),
            ("priv.test", vec!["10.1.1.1"]),
            ("mixed.test", vec!["10.1.1.1", "127.0.0.1"]),
            ("mixed2.test", vec!["127.0.0.1", "10.1.1.1"]),
            ("glob.test", vec!["8.8.8.8"]),
            ("privthenglob.test", vec!["192.168.0.1", "1.1.1.1"]),
            ("v6only.test", vec!["2606:4700:4700::1111"]),
            ("none.test", vec![]),
        ];
        for allow in [false, true] {
            for v6ok in [true, false] {
                let settings = Settings::builder()
                    .listen_address(("127.0.0.1", 1))
                    .unwrap()
                    .listen_protocols(ListenProtocolSettings { http1: Some(Http1Settings::builder().build()), http2: Some(Http2Settings::builder().build()), quic: None })
                    .allow_private_network_connections(allow)
                    .ipv6_available(v6ok)
                    .build()
                    .unwrap();
                let hosts = TlsHostsSettings::builder()
                    .main_hosts(vec![TlsHostInfo { hostname: "localhost".into(), cert_chain_path: FIXTURE_PEM.into(), private_key_path: FIXTURE_PEM.into(), allowed_sni: vec![] }])
                    .build()
                    .unwrap();
                let core = Core::new(settings, None, hosts, Shutdown::new()).unwrap();
                let mut targets: Vec<(String, String)> = vec![];
                for a in &literals {
                    targets.push((a.to_string(), format!("addr {} {}", ip_tokens(&a.ip()), a.port())));
                }
                for (n, ips) in &names {
                    let toks: Vec<String> = ips.iter().map(|i| format!("{} 443", ip_tokens(&i.parse().unwrap()))).collect();
                    targets.push((format!("{}:443", n), format!("host {} {}", ips.len(), toks.join(" ")).trim_end().to_string()));
                }
                // plain-HTTP requests to the same destinations: with the port spelled out, and without it (port 80)
                let mut plain: Vec<(String, String, String)> = vec![];
                for a in &literals {
                    let host = if a.is_ipv6() { format!("[{}]", a.ip()) } else { a.ip().to_string() };
                    plain.push((format!("{}:{}", host, a.port()), format!("addr {} {}", ip_tokens(&a.ip()), a.port()), "GET".into()));
                    // (an authority without a port is not a socket address: it goes in as a name, which resolves to itself)
                    plain.push((host, format!("host 1 {} 80", ip_tokens(&a.ip())), "GET".into()));
                }
                for (n, ips) in &names {
                    let toks: Vec<String> = ips.iter().map(|i| format!("{} 443", ip_tokens(&i.parse().unwrap()))).collect();
                    plain.push((n.to_string(), format!("host {} {}", ips.len(), toks.join(" ")).trim_end().to_string(), "POST".into()));
                }
                let all: Vec<(String, String, String)> =
                    targets.into_iter().map(|(a, q)| (a, q, "CONNECT".to_string())).chain(plain.into_iter()).collect();
                for (authority, qtail, method) in all {
                    hooks::reset();
                    {
                        let mut st = hooks::STATE.lock().unwrap();
                        st.stub_tcp_connect_errno = Some(libc::ECONNREFUSED);
                        for (n, ips) in &names {
                            st.resolver.insert(n.to_string(), Ok(ips.iter().map(|i| std::net::SocketAddr::new(i.parse().unwrap(), 443)).collect()));
                        }
                    }
                    let raw = if method == "CONNECT" {
                        format!("CONNECT {} HTTP/1.1\r\nHost: {}\r\n\r\n", authority, authority).into_bytes()
                    } else {
                        format!("{} http://{}/x HTTP/1.1\r\nHost: {}\r\nContent-Length: 0\r\n\r\n", method, authority, authority).into_bytes()
                    };
                    let rt = tokio::runtime::Builder::new_current_thread().enable_all().start_paused(true).build().unwrap();
                    let out = rt.block_on(h1_session(&core, "localhost", None, raw, 2_000));
                    let (status, headers, _) = parse_resp_h1(&out);
                    let host_ok = headers.get("x-adguard-vpn-error").map(|v| *v == authority).unwrap_or(true);
                    if !host_ok {
                        ctx.oracle_failure("dns_error_host", &format!("{} {}: X-Adguard-Vpn-Error names {:?}", method, authority, headers.get("x-adguard-vpn-error")));
                    }
                    ctx.emit(&format!("c10 real {} {} {}", allow as u8, v6ok as u8, qtail), &resp_tok(status, &headers));
                    ctx.stat(if method == "CONNECT" { "real_forwarder_refusal_codes" } else { "real_forwarder_refusal_codes_plain_http" });
                }
                // ---- the OS error of the outbound connect: which code the client is given (CONNECT to a global literal; the door's
                // stub fails the connect with each error number) ----
                if allow && v6ok {
                    for e in [libc::ENETUNREACH, libc::EHOSTUNREACH, libc::EHOSTDOWN, libc::ENETDOWN, libc::ETIMEDOUT, libc::ECONNREFUSED, libc::ECONNRESET, libc::EACCES, libc::EADDRNOTAVAIL, libc::EPERM, libc::ENOBUFS] {
                        for (authority, method) in [("93.184.216.34:443", "CONNECT"), ("[2606:4700:4700::1111]:443", "CONNECT"), ("93.184.216.34:8080", "GET")] {
                            hooks::reset();
                            hooks::STATE.lock().unwrap().stub_tcp_connect_errno = Some(e);
                            let raw = if method == "CONNECT" {
                                format!("CONNECT {} HTTP/1.1\r\nHost: {}\r\n\r\n", authority, authority).into_bytes()
                            } else {
                                format!("GET http://{}/x HTTP/1.1\r\nHost: {}\r\n\r\n", authority, authority).into_bytes()
                            };
                            let rt = tokio::runtime::Builder::new_current_thread().enable_all().start_paused(true).build().unwrap();
                            let out = rt.block_on(h1_session(&core, "localhost", None, raw, 2_000));
                            let (status, headers, heads) = parse_resp_h1(&out);
                            if heads != 1 {
                                ctx.oracle_failure("more_than_one_response", &format!("{} {} with the connect failing with errno {}: {} response heads", method, authority, e, heads));
                            }
                            // what the codes mean does not depend on the table the model was given: no route (to the network or to
                            // the host) is 301, a timed-out connect 302, anything else 300
                            let documented = if e == libc::ENETUNREACH || e == libc::EHOSTUNREACH { "502 301 0 0" } else if e == libc::ETIMEDOUT { "502 302 0 0" } else { "502 300 0 0" };
                            let got = resp_tok(status, &headers);
                            if got != documented {
                                ctx.oracle_failure("os_error_code", &format!("{} {} through the real direct forwarder, the connect failing with OS error {} ({}): answered [{}], documented [{}]", method, authority, e, std::io::Error::from_raw_os_error(e), got, documented));
                            }
                            ctx.emit(&format!("c10 errno {}", e), &resp_tok(status, &headers));
                            ctx.stat("real_forwarder_connect_errnos");
                        }
                    }
                }
                hooks::reset();
            }
        }
    }
}

/// C14 (establishment part): outbound connection attempts that complete before, at and after the
/// establishment timeout `E`, or never, for literal and host-name destinations over HTTP/1.1 and
/// HTTP/2: which response the client gets, and whether the attempt was abandoned (dropped) or
/// allowed to complete.
pub fn run_establish(ctx: &mut Ctx) {
    quiet_panics();
    let dests = ["93.184.216.34:80", "[2001:db8::1]:443", "example.org:443", "localhost:22", "a-b.example:65535", "10.1.2.3:8443"];
    let es: &[u64] = if ctx.thorough() { &[1, 250, 1000, 30_000] } else { &[250, 30_000] };
    for &e in es {
        let core = make_core(&Authn::None, e);
        let delays = [0u64, 1, e / 2, e.saturating_sub(1), e, e + 1, 2 * e, 10 * e + 5];
        for proto in ["h1", "h2"] {
            for round in 0..(if ctx.thorough() { 12 } else { 6 }) {
                let n = if proto == "h1" { 1 } else { 1 + (round % 3) as usize };
                let mut script = FwdScript::default();
                let mut reqs: Vec<(String, u64)> = vec![];
                for k in 0..n {
                    let d = dests[(round as usize + k * 2 + ctx.rng.below(2) as usize) % dests.len()].to_string();
                    if reqs.iter().any(|(x, _)| *x == d) {
                        continue;
                    }
                    let delay = *ctx.rng.pick(&delays);
                    let key = match d.parse::<std::net::SocketAddr>() {
                        Ok(sa) => sa.to_string(),
                        Err(_) => d.clone(),
                    };
                    script.connect.insert(key, ConnectScript::DelayedOk { ms: delay });
                    reqs.push((d, delay));
                }
                verif::hooks::reset();
                verif::hooks::STATE.lock().unwrap().forwarder = Some(script.clone());
                let rt = tokio::runtime::Builder::new_current_thread().enable_all().start_paused(true).build().unwrap();
                let linger = 12 * e + 1000;
                let mut resp_toks: Vec<String> = vec![];
                if proto == "h1" {
                    let raw = format!("CONNECT {} HTTP/1.1\r\nHost: {}\r\nUser-Agent: verif\r\n\r\n", reqs[0].0, reqs[0].0).into_bytes();
                    let out = rt.block_on(async {
                        tokio::time::timeout(std::time::Duration::from_millis(linger + 60_000), h1_session(&core, "localhost", None, raw, linger)).await
                    });
                    match out {
                        Ok(bytes) => {
                            let (status, headers, _) = parse_resp_h1(&bytes);
                            resp_toks.push(resp_tok(status, &headers));
                        }
                        Err(_) => {
                            ctx.oracle_failure("session_hung", &format!("h1 CONNECT {} (attempt completes after {} ms, E = {} ms)", reqs[0].0, reqs[0].1, e));
                            continue;
                        }
                    }
                } else {
                    let vreqs: Vec<VReq> = reqs
                        .iter()
                        .map(|(d, _)| VReq { method: "CONNECT".into(), target: d.clone(), headers: vec![("user-agent".to_string(), b"verif".to_vec())], body: vec![] })
                        .collect();
                    let out = rt.block_on(async {
                        tokio::time::timeout(std::time::Duration::from_millis(linger + 60_000), h2_session(&core, "localhost", None, vreqs, 10, linger)).await
                    });
                    match out {
                        Ok(resps) => {
                            for r in resps {
                                let hm: HashMap<String, String> = r.headers.iter().cloned().collect();
                                resp_toks.push(resp_tok(r.status, &hm));
                            }
                        }
                        Err(_) => {
                            ctx.oracle_failure("session_hung", &format!("h2 session with {:?}, E = {} ms", reqs, e));
                            continue;
                        }
                    }
                }
                drop(rt);
                let calls = verif::hooks::STATE.lock().unwrap().forwarder_calls.clone();
                for (i, (d, delay)) in reqs.iter().enumerate() {
                    let key = match d.parse::<std::net::SocketAddr>() {
                        Ok(sa) => sa.to_string(),
                        Err(_) => d.clone(),
                    };
                    let completed = calls.iter().any(|c| *c == format!("tcp_connect_completed {}", key));
                    let abandoned = calls.iter().any(|c| *c == format!("tcp_connect_abandoned {}", key));
                    let what = format!(
                        "{} CONNECT {} with establishment timeout {} ms, the attempt would complete after {} ms: client got [{}]",
                        proto, d, e, delay, resp_toks.get(i).cloned().unwrap_or_default()
                    );
                    if *delay > e && (completed || !abandoned) {
                        ctx.oracle_failure(
                            "attempt_not_abandoned",
                            &format!("{}; the attempt was {} (it must be dropped at the timeout, releasing its socket and task)", what, if completed { "allowed to complete" } else { "neither completed nor dropped" }),
                        );
                    }
                    if *delay < e && (!completed || abandoned) {
                        ctx.oracle_failure("attempt_abandoned_early", &format!("{}; the attempt was dropped before the timeout", what));
                    }
                    ctx.stat(if *delay > e { "attempts_over_the_timeout" } else if *delay == e { "attempts_at_the_timeout" } else { "attempts_in_time" });
                    ctx.stat(if d.parse::<std::net::SocketAddr>().is_ok() { "literal_destinations" } else { "host_name_destinations" });
                }
                let mut q = format!("c10 session {} none - {} {}", proto, e, reqs.len());
                for (d, delay) in &reqs {
                    let a = d.parse::<http::uri::Authority>().unwrap();
                    q.push_str(&format!(
                        " C {} {} {} absent delay:{} 0 o 0",
                        hex(d.as_bytes()),
                        a.as_str().parse::<std::net::SocketAddr>().is_ok() as u8,
                        a.port_u16().map(|p| p.to_string()).unwrap_or_else(|| "-".into()),
                        delay
                    ));
                }
                let egress = vec!["tcp"; reqs.len()];
                ctx.emit(&q, &format!("{} | {}", resp_toks.join(";"), egress.join(",")));
                ctx.stat(&format!("sessions_{}", proto));
            }
        }
    }
}


/// C01 / C10 over HTTP/3: the same sessions as `run`, carried by the real QUIC multiplexer and
/// HTTP/3 codec (`Core::listen` on a loopback UDP port, wall clock, quiche client of the harness),
/// the forwarder scripted through the door; same query format, so the same model answers.
pub fn run_h3(ctx: &mut Ctx) {
    use crate::c02h3::LiveEndpoint;
    use crate::h3cli::H3Client;
    use std::time::Duration;
    quiet_panics();
    let authority_pool = [
        "_check", "_udp2", "_icmp", "_CHECK", "_check:1", "_check.", "x_check", "_udp2:443", "_icmpx", "example.org:443", "example.org",
        "93.184.216.34:80", "[2001:db8::1]:443", "[::1]", "localhost:22", "a-b.example:65535", "h:0", "127.0.0.1:8080",
    ];
    let outcomes: Vec<(ConnectScript, String)> = vec![
        (ConnectScript::Ok { download: vec![] }, "ok".into()),
        (ConnectScript::Refused, "io".into()),
        (ConnectScript::Unreachable, "hostUnreachable".into()),
        (ConnectScript::TimedOut, "timeout".into()),
        (ConnectScript::PolicyNonroutable, "dnsNonroutable".into()),
        (ConnectScript::PolicyLoopback, "dnsLoopback".into()),
        (ConnectScript::ResolverFailure, "io".into()),
        (ConnectScript::Other, "other".into()),
        (ConnectScript::AuthenticationFailure, "authentication".into()),
    ];
    let clients = vec![("user".to_string(), "pass".to_string()), ("u\u{e9}".to_string(), "p:w d".to_string()), ("Alice".to_string(), "S3cret".to_string())];
    let valid = b64("user:pass");
    let hdr_pool: Vec<Option<Vec<u8>>> = vec![
        None,
        Some(format!("Basic {}", b64("Alice:S3cret")).into_bytes()),
        Some(format!("Basic {}", b64("alice:S3cret")).into_bytes()),
        Some(format!("Basic {}", b64("Alice:s3cret")).into_bytes()),
        Some(format!("Basic {}", valid).into_bytes()),
        Some(format!("Basic {}", b64("u\u{e9}:p:w d")).into_bytes()),
        Some(format!("Basic {}", b64("user:wrong")).into_bytes()),
        Some(format!("Basic {}", b64("nobody:pass")).into_bytes()),
        Some(b"Bearer abcdef".to_vec()),
        Some(format!("basic {}", valid).into_bytes()),
        Some(b"Basic !!!notbase64".to_vec()),
        Some(vec![b'B', b'a', b's', b'i', b'c', b' ', 0xff, 0xfe]),
        Some(b"Basic ".to_vec()),
    ];
    let authns = [Authn::None, Authn::Registry(clients.clone()), Authn::Scripted(vec![valid.clone()], vec!["snicred".into()])];
    let mut eps = vec![];
    for a in &authns {
        let a2 = a.clone();
        match LiveEndpoint::start(move |addr| make_core_at(&a2, 30_000, Shutdown::new(), addr, true)) {
            Some(ep) => eps.push(ep),
            None => {
                ctx.notes.push("c10h3: the endpoint's listener did not come up on loopback; nothing was run".to_string());
                return;
            }
        }
    }
    let n_sessions = if ctx.thorough() { 1200 } else { 150 };
    let auth_focus = ctx.suite == "c01h3";
    for si in 0..n_sessions {
        let ai = match ctx.rng.below(if auth_focus { 6 } else { 4 }) {
            0 => 0,
            1 | 4 | 5 => 1,
            _ => 2,
        };
        let authn = &authns[ai];
        let sni_creds: Option<String> = match ctx.rng.below(6) {
            0 => Some("snicred".into()),
            1 => Some("intruder".into()),
            _ => None,
        };
        let nreq = ctx.rng.range(1, 4) as usize;
        let mut script = FwdScript::default();
        script.udp_mux_fails = ctx.rng.chance(1, 8);
        script.icmp_mux = match ctx.rng.below(6) {
            0 => None,
            1 => Some(false),
            _ => Some(true),
        };
        script.datagram_auth_fails = ctx.rng.chance(1, 8);
        let mut reqs: Vec<ReqSpec> = vec![];
        let mut used: Vec<String> = vec![];
        for _ in 0..nreq {
            let mut authority = ctx.rng.pick(&authority_pool).to_string();
            if used.contains(&authority) && !["_check", "_udp2", "_icmp"].contains(&authority.as_str()) {
                authority = format!("h{}.example:{}", ctx.rng.below(10_000), 1 + ctx.rng.below(60_000));
            }
            used.push(authority.clone());
            let method = if ctx.rng.chance(3, 4) { "CONNECT" } else { *ctx.rng.pick(&["GET", "POST", "OPTIONS"]) };
            let hdr = if auth_focus || ctx.rng.chance(1, 2) { ctx.rng.pick(&hdr_pool).clone() } else { hdr_pool[1].clone() };
            let (mut oc, mut otok) = ctx.rng.pick(&outcomes).clone();
            if method != "CONNECT" && matches!(oc, ConnectScript::Ok { .. }) {
                oc = ConnectScript::Refused;
                otok = "io".into();
            }
            reqs.push(ReqSpec { method: method.to_string(), authority, hdr, outcome: oc, outcome_tok: otok });
        }
        for r in &reqs {
            let key = match r.authority.parse::<http::uri::Authority>() {
                Ok(a) => match a.as_str().parse::<std::net::SocketAddr>() {
                    Ok(sa) => sa.to_string(),
                    Err(_) => format!("{}:{}", a.host(), a.port_u16().unwrap_or(80)),
                },
                Err(_) => r.authority.clone(),
            };
            script.connect.insert(key, r.outcome.clone());
        }
        verif::hooks::reset();
        verif::hooks::STATE.lock().unwrap().forwarder = Some(script.clone());
        let sni = sni_creds.as_ref().map(|c| format!("{}.localhost", c)).unwrap_or_else(|| "localhost".to_string());
        let mut resp_toks: Vec<String> = vec![];
        match H3Client::connect(eps[ai].addr, Some(&sni), &[b"h3"], 1 << 20, Duration::from_secs(3)) {
            Err(_) => {
                // the connection was not admitted: no request was served
                for _ in &reqs {
                    resp_toks.push("0 - 0 0".to_string());
                }
                ctx.stat("h3_connections_refused");
            }
            Ok(mut cl) => {
                let mut ids = vec![];
                for r in &reqs {
                    let mut h = vec![("user-agent".to_string(), b"verif".to_vec())];
                    if let Some(v) = &r.hdr {
                        h.push(("proxy-authorization".to_string(), v.clone()));
                    }
                    let id = if r.method == "CONNECT" {
                        cl.request("CONNECT", None, &r.authority, None, &h, false)
                    } else {
                        cl.request(&r.method, Some("http"), &r.authority, Some("/p?q=1"), &h, true)
                    };
                    ids.push(id);
                }
                let want: Vec<u64> = ids.iter().flatten().cloned().collect();
                cl.wait(Duration::from_secs(4), |c| want.iter().all(|id| {
                    let s = c.streams.get(id);
                    s.map(|s| s.status.is_some() || s.reset.is_some() || s.finished).unwrap_or(false)
                }));
                // a little longer: a second response head on a stream would be a violation
                cl.wait(Duration::from_millis(30), |_| false);
                for (r, id) in reqs.iter().zip(ids.iter()) {
                    match id {
                        None => resp_toks.push("0 - 0 0".to_string()),
                        Some(id) => {
                            let s = cl.stream(*id);
                            if s.heads > 1 {
                                ctx.oracle_failure("more_than_one_response", &format!("h3 {} {} got {} response heads", r.method, r.authority, s.heads));
                            }
                            let hm: HashMap<String, String> = s.headers.iter().cloned().collect();
                            resp_toks.push(resp_tok(s.status.unwrap_or(0), &hm));
                        }
                    }
                }
                cl.close();
                cl.wait(Duration::from_millis(20), |_| false);
            }
        }
        let calls = verif::hooks::STATE.lock().unwrap().forwarder_calls.clone();
        let mut egress: Vec<&str> = calls
            .iter()
            .filter_map(|c| {
                if c.starts_with("tcp_connect ") {
                    Some("tcp")
                } else if c.starts_with("udp_mux") {
                    Some("udp")
                } else if c.starts_with("icmp_mux") {
                    Some("icmp")
                } else if c.starts_with("check_auth") {
                    Some("checkauth")
                } else {
                    None
                }
            })
            .collect();
        egress.sort();
        let mut q = format!(
            "c10 session h3 {} {} 30000 {}",
            authn_tok(authn),
            sni_creds.as_ref().map(|s| hex(s.as_bytes())).unwrap_or_else(|| "-".into()),
            reqs.len()
        );
        for r in &reqs {
            let (lit, port) = match r.authority.parse::<http::uri::Authority>() {
                Ok(a) => (a.as_str().parse::<std::net::SocketAddr>().is_ok(), a.port_u16()),
                Err(_) => (false, None),
            };
            q.push_str(&format!(
                " {} {} {} {} {} {} {} {} {}",
                if r.method == "CONNECT" { "C" } else { "O" },
                hex(r.authority.as_bytes()),
                lit as u8,
                port.map(|p| p.to_string()).unwrap_or_else(|| "-".into()),
                match &r.hdr {
                    None => "absent".to_string(),
                    Some(h) => format!("h{}", if h.is_empty() { String::new() } else { hex(h) }),
                },
                r.outcome_tok,
                script.udp_mux_fails as u8,
                match script.icmp_mux {
                    None => "n",
                    Some(true) => "o",
                    Some(false) => "e",
                },
                script.datagram_auth_fails as u8
            ));
        }
        let ans = format!("{} | {}", resp_toks.join(";"), if egress.is_empty() { "-".to_string() } else { egress.join(",") });
        for t in &resp_toks {
            ctx.stat(&format!("status_{}", t.split(' ').next().unwrap()));
        }
        ctx.stat("sessions_h3");
        let _ = si;
        ctx.emit(&q, &ans);
    }
}

/// C10 with a SOCKS5 upstream: the real `Socks5Forwarder` (nothing scripted) against a loopback SOCKS5 server that
/// answers the CONNECT request with every reply code, with a code that is none, with a closed connection; requests
/// over HTTP/1.1 and HTTP/2, to names and literals. Real sockets, real clock.
pub fn run_socks(ctx: &mut Ctx) {
    use std::io::{Read, Write};
    use std::sync::atomic::{AtomicU8, Ordering};
    use std::time::Duration;
    quiet_panics();
    // what the upstream does with the next request: 0..=255 reply code, the flags below
    static REPLY: AtomicU8 = AtomicU8::new(0);
    static CLOSE: std::sync::atomic::AtomicBool = std::sync::atomic::AtomicBool::new(false);
    static BADVER: std::sync::atomic::AtomicBool = std::sync::atomic::AtomicBool::new(false);
    let l = std::net::TcpListener::bind("127.0.0.1:0").unwrap();
    let proxy = l.local_addr().unwrap();
    std::thread::spawn(move || {
        for s in l.incoming() {
            let Ok(mut s) = s else { continue };
            std::thread::spawn(move || {
                let _ = s.set_read_timeout(Some(Duration::from_secs(2)));
                let mut buf = [0u8; 600];
                let Ok(n) = s.read(&mut buf) else { return };
                if n < 3 {
                    return;
                }
                let _ = s.write_all(&[5, 0]);
                let Ok(n) = s.read(&mut buf) else { return };
                if n < 7 || CLOSE.load(Ordering::SeqCst) {
                    return;
                }
                let ver = if BADVER.load(Ordering::SeqCst) { 4 } else { 5 };
                let _ = s.write_all(&[ver, REPLY.load(Ordering::SeqCst), 0, 1, 0, 0, 0, 0, 0, 0]);
                // a granted connection stays open for a moment (the tunnel is up)
                std::thread::sleep(Duration::from_millis(150));
            });
        }
    });
    let settings = Settings::builder()
        .listen_address(("127.0.0.1", 1))
        .unwrap()
        .listen_protocols(ListenProtocolSettings { http1: Some(Http1Settings::builder().build()), http2: Some(Http2Settings::builder().build()), quic: None })
        .forwarder_settings(ForwardProtocolSettings::Socks5(Socks5ForwarderSettings::builder().server_address(proxy).unwrap().build().unwrap()))
        .build()
        .unwrap();
    let hosts = TlsHostsSettings::builder()
        .main_hosts(vec![TlsHostInfo { hostname: "localhost".into(), cert_chain_path: FIXTURE_PEM.into(), private_key_path: FIXTURE_PEM.into(), allowed_sni: vec![] }])
        .build()
        .unwrap();
    let core = Core::new(settings, None, hosts, Shutdown::new()).unwrap();
    let rt = tokio::runtime::Builder::new_multi_thread().worker_threads(2).enable_all().build().unwrap();
    trusttunnel::verif::hooks::reset();
    let mut answers: Vec<(String, u8, bool, bool)> = (0u8..=9).map(|r| (r.to_string(), r, false, false)).collect();
    for r in [0x10u8, 0x7f, 0xff] {
        answers.push(("malformed".into(), r, false, false)); // not a reply code: a protocol error
    }
    answers.push(("closed".into(), 0, true, false));
    answers.push(("malformed".into(), 0, false, true));
    let dests = ["unreachable.example:443", "203.0.113.9:443", "[2001:db8::9]:8443"];
    for (what, rep, close, badver) in &answers {
        for dest in dests {
            for proto in ["h1", "h2"] {
                REPLY.store(*rep, Ordering::SeqCst);
                CLOSE.store(*close, Ordering::SeqCst);
                BADVER.store(*badver, Ordering::SeqCst);
                let (status, headers, n_final) = if proto == "h1" {
                    let raw = format!("CONNECT {} HTTP/1.1\r\nHost: {}\r\n\r\n", dest, dest).into_bytes();
                    let core2 = &core;
                    let out = rt.block_on(async move { tokio::time::timeout(Duration::from_secs(5), h1_session(core2, "localhost", None, raw, 120)).await }).unwrap_or_default();
                    let finals = String::from_utf8_lossy(&out).matches("HTTP/1.1 ").count();
                    let (st, hs, _) = parse_resp_h1(&out);
                    (st, hs, finals)
                } else {
                    let req = VReq { method: "CONNECT".into(), target: dest.to_string(), headers: vec![], body: vec![] };
                    let core2 = &core;
                    let out = rt
                        .block_on(async move { tokio::time::timeout(Duration::from_secs(5), h2_session(core2, "localhost", None, vec![req], 1, 120)).await })
                        .unwrap_or_default();
                    match out.first() {
                        Some(r) => (r.status, r.headers.iter().map(|(k, v)| (k.to_lowercase(), v.clone())).collect(), out.len()),
                        None => (0, HashMap::new(), 0),
                    }
                };
                if n_final != 1 {
                    ctx.oracle_failure(
                        "final_responses",
                        &format!("CONNECT {} over {} through a SOCKS5 upstream answering {} (REP {:#04x}): {} final responses", dest, proto, what, rep, n_final),
                    );
                }
                ctx.emit(&format!("c10 socks {}", what), &resp_tok(status, &headers));
                ctx.stat(&format!("socks_upstream_{}", proto));
            }
        }
    }
    trusttunnel::verif::hooks::reset();
}
