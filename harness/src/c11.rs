//! C11: ICMP echo tunnelling (placeholder: filled in below)
use crate::common::*;
pub fn run(_ctx: &mut Ctx) {}
