//! C11: ICMP echo tunnelling - checksum, (de)serialisation, 7.3 / 7.4 codec.
use crate::common::*;
use std::net::IpAddr;
use trusttunnel::verif;

/// independent RFC 1071 verification: one's-complement sum of the whole message folds to 0xffff
fn verifies(pkt: &[u8]) -> bool {
    let mut sum: u64 = 0;
    let mut i = 0;
    while i < pkt.len() {
        let hi = pkt[i] as u64;
        let lo = if i + 1 < pkt.len() { pkt[i + 1] as u64 } else { 0 };
        sum += (hi << 8) | lo;
        i += 2;
    }
    while sum >> 16 != 0 {
        sum = (sum >> 16) + (sum & 0xffff);
    }
    sum == 0xffff
}

fn ipv4_header(proto: u8, ihl: u8, total_extra: usize) -> Vec<u8> {
    let mut h = vec![0u8; 20];
    h[0] = 0x40 | (ihl & 0x0f);
    h[8] = 64;
    h[9] = proto;
    h[12..16].copy_from_slice(&[192, 0, 2, 2]);
    h[16..20].copy_from_slice(&[127, 0, 0, 1]);
    h.extend(vec![0u8; total_extra]);
    h
}

fn ipv6_header(next: u8) -> Vec<u8> {
    let mut h = vec![0u8; 40];
    h[0] = 0x60;
    h[6] = next;
    h[7] = 64;
    h[23] = 1;
    h[39] = 1;
    h
}

fn gen_data(ctx: &mut Ctx) -> Vec<u8> {
    let n = match ctx.rng.below(10) {
        0 => 0,
        1 => 1,
        2 => 2,
        3 => 3,
        4 => 56,
        5 => 64,
        6 => 1472,
        7 => ctx.rng.below(1500) as usize,
        8 => 65535,
        _ => ctx.rng.below(64) as usize,
    };
    match ctx.rng.below(4) {
        0 => vec![0xff; n],
        1 => vec![0x00; n],
        _ => ctx.rng.bytes(n),
    }
}

pub fn run(ctx: &mut Ctx) {
    // pure parser calls: a case that takes this long is a busy loop (the watchdog names it)
    set_stall_limit(40);
    quiet_panics();
    let rt = tokio::runtime::Builder::new_current_thread().enable_all().build().unwrap();

    // ---- checksum on raw byte strings, incl. sums that carry twice -----------------------------
    let mut strings: Vec<Vec<u8>> = vec![
        vec![],
        vec![0xff],
        vec![0xff, 0xff],
        vec![0xff, 0xff, 0xff, 0xff, 0x00, 0x01],
        vec![0xff, 0xff, 0xff, 0xff, 0x00, 0x02],
        vec![0x00],
        vec![0x80, 0x00, 0x80, 0x00],
        vec![0xff; 65535],
        vec![0xff; 65534],
    ];
    // sums landing on 0x1fffe .. 0x20001 and around the first carry
    for target in [0xfffeu32, 0xffff, 0x10000, 0x10001, 0x1fffd, 0x1fffe, 0x1ffff, 0x20000, 0x20001, 0x2fffe, 0x2ffff, 0x30000] {
        let mut v = vec![];
        let mut rem = target;
        while rem > 0 {
            let w = rem.min(0xffff);
            v.extend_from_slice(&(w as u16).to_be_bytes());
            rem -= w;
        }
        strings.push(v);
    }
    let n_rand = if ctx.thorough() { 200_000 } else { 20_000 };
    for _ in 0..n_rand {
        let n = ctx.rng.below(80) as usize;
        let mut v = ctx.rng.bytes(n);
        if ctx.rng.chance(1, 3) {
            for b in v.iter_mut() {
                if ctx.rng.chance(2, 3) {
                    *b = 0xff;
                }
            }
        }
        strings.push(v);
    }
    for s in &strings {
        let c = verif::rfc1071_checksum(s);
        ctx.emit(&format!("c11 checksum {}", hex(s)), &format!("{}", c));
        ctx.stat("checksum");
    }

    // ---- Echo::serialize: model equality + independent verification --------------------------------
    let n_ser = if ctx.thorough() { 20_000 } else { 2_000 };
    for i in 0..n_ser {
        let v6 = ctx.rng.chance(1, 2);
        let id = *ctx.rng.pick(&[0u16, 1, 0xffff, 0x1234, 0xff00]);
        let seq = if i % 3 == 0 { ctx.rng.next() as u16 } else { *ctx.rng.pick(&[0u16, 1, 0xffff]) };
        let data = if i < 40 { vec![0xff; (i * 7) as usize] } else { gen_data(ctx) };
        let wire = verif::icmp_echo_serialize(v6, id, seq, &data);
        if !verifies(&wire) && !v6 {
            ctx.oracle_failure(
                "checksum_does_not_verify",
                &format!("serialize v6={} id={} seq={} data={} gives {} whose checksum does not verify", v6, id, seq, hex(&data), hex(&wire[..8.min(wire.len())])),
            );
        }
        if data.len() <= 1500 {
            ctx.emit(&format!("c11 serialize {} {} {} {}", v6 as u8, id, seq, hex(&data)), &hex(&wire));
        } else {
            // long payloads: compare header (with checksum) only, to keep the query file small
            ctx.emit(&format!("c11 serializehdr {} {} {} {}", v6 as u8, id, seq, hex(&data)), &hex(&wire[..8]));
        }
        ctx.stat(if v6 { "serialize_v6" } else { "serialize_v4" });
    }

    // ---- received packets: skip_ip*_header, deserialize, responded_echo_request, 7.4 encoder ---------
    let mut packets: Vec<(bool, Vec<u8>)> = vec![];
    let n_pk = if ctx.thorough() { 30_000 } else { 3_000 };
    for _ in 0..n_pk {
        let v6 = ctx.rng.chance(1, 2);
        let id = ctx.rng.next() as u16;
        let seq = ctx.rng.next() as u16;
        let dlen = *ctx.rng.pick(&[0usize, 1, 8, 32]);
        let data = ctx.rng.bytes(dlen);
        let req = verif::icmp_echo_serialize(v6, id, seq, &data);
        let kind = ctx.rng.below(12);
        let mut p: Vec<u8> = match (v6, kind) {
            (false, 0) => {
                let mut r = req.clone();
                r[0] = 0; // echo reply
                r
            }
            (true, 0) => {
                let mut r = req.clone();
                r[0] = 129;
                r
            }
            (false, 1..=5) => {
                // error quoting the request
                let t = *ctx.rng.pick(&[3u8, 4, 5, 11, 12]);
                let code = ctx.rng.below(8) as u8;
                let ihl = *ctx.rng.pick(&[5u8, 5, 5, 6, 15, 4, 0]);
                let extra = ((ihl as usize).saturating_sub(5)) * 4;
                let mut r = vec![t, code, 0, 0, 0, 0, 0, 0];
                r.extend(ipv4_header(*ctx.rng.pick(&[1u8, 1, 1, 6, 17]), ihl, extra));
                r.extend(&req[..req.len().min(8 + *ctx.rng.pick(&[0usize, 8, 40]))]);
                r
            }
            (true, 1..=5) => {
                let t = *ctx.rng.pick(&[1u8, 2, 3, 4]);
                let code = ctx.rng.below(8) as u8;
                let mut r = vec![t, code, 0, 0, 0, 0, 0, 0];
                let chain = ctx.rng.below(4);
                let mut hdr = ipv6_header(58);
                let mut exts: Vec<u8> = vec![];
                let mut first_next = 58u8;
                // extension header chain (hop-by-hop / routing / dst-opts / fragment), lengths right or wrong
                let mut protos = vec![];
                for _ in 0..chain {
                    protos.push(*ctx.rng.pick(&[0u8, 43, 60, 44]));
                }
                for (i, pr) in protos.iter().enumerate() {
                    let next = if i + 1 < protos.len() { protos[i + 1] } else { 58 };
                    if i == 0 {
                        first_next = *pr;
                    }
                    if *pr == 44 {
                        exts.extend_from_slice(&[next, 0, 0, 0, 0, 0, 0, 1]);
                    } else {
                        let n = *ctx.rng.pick(&[0u8, 0, 1, 2, 255, 30]);
                        let real = if ctx.rng.chance(3, 4) { (n as usize + 1) * 8 - 2 } else { ctx.rng.below(20) as usize };
                        exts.push(next);
                        exts.push(n);
                        exts.extend(vec![0u8; real.min(300)]);
                    }
                }
                hdr[6] = first_next;
                r.extend(hdr);
                r.extend(exts);
                r.extend(&req);
                r
            }
            (false, 6) => vec![13, 0, 0, 0, 0, 1, 0, 2, 0, 0, 0, 0, 0, 0, 0, 0, 0, 0, 0, 0],
            (false, 7) => vec![15, 0, 0, 0, 0, 1, 0, 2, 0, 0, 0, 0, 0, 0, 0, 0, 0, 0, 0, 0],
            (_, 8) => {
                let n = ctx.rng.below(60) as usize;
                ctx.rng.bytes(n)
            }
            (_, 9) => {
                // valid-looking type with arbitrary short length
                let t = if v6 { *ctx.rng.pick(&[1u8, 2, 3, 4, 128, 129]) } else { *ctx.rng.pick(&[0u8, 3, 4, 5, 8, 11, 12, 13, 14, 15, 16]) };
                let mut r = vec![t];
                let n = ctx.rng.below(50) as usize;
                r.extend(ctx.rng.bytes(n));
                r
            }
            _ => req.clone(),
        };
        // structural mutation: truncate
        if ctx.rng.chance(1, 6) && !p.is_empty() {
            let n = ctx.rng.below(p.len() as u64) as usize;
            p.truncate(n);
        }
        packets.push((v6, p));
    }
    // exhaustive short strings over a reduced alphabet after each type byte
    let alpha = [0u8, 1, 3, 8, 0x45, 0x3a, 0xff];
    for v6 in [false, true] {
        let types: Vec<u8> = if v6 { vec![1, 2, 3, 4, 128, 129, 0] } else { vec![0, 3, 4, 5, 8, 11, 12, 13, 15, 99] };
        for t in types {
            for a in alpha {
                for b in alpha {
                    for c in alpha {
                        packets.push((v6, vec![t, a, b, c]));
                        packets.push((v6, vec![t, a, b, c, a, b, c, a, b]));
                    }
                }
            }
        }
    }
    for (v6, p) in &packets {
        let h = hex(p);
        // IP header skipping on the quoted part (offset 8) and on the raw packet
        for body in [p.as_slice(), if p.len() > 8 { &p[8..] } else { &p[0..0] }] {
            let q = format!("c11 skip {} {}", *v6 as u8, hex(body));
            begin_case(&q);
            match catch(|| verif::skip_ip_header(*v6, body)) {
                Ok(None) => ctx.emit(&q, "none"),
                Ok(Some((proto, rest))) => ctx.emit(&q, &format!("{} {}", proto, hex(&rest))),
                Err(m) => {
                    ctx.emit(&q, "panic");
                    ctx.oracle_failure("panic", &format!("skip_ip_header v6={} panicked ({}) on {}", v6, m, hex(body)));
                }
            }
        }
        let q = format!("c11 responded {} {}", *v6 as u8, h);
        begin_case(&q);
        match catch(|| verif::icmp_responded(*v6, p)) {
            Ok(None) => {
                ctx.emit(&q, "rejected");
                ctx.stat("pkt_rejected");
            }
            Ok(Some(None)) => {
                ctx.emit(&q, "none");
                ctx.stat("pkt_no_request");
            }
            Ok(Some(Some((code, id, seq, data)))) => {
                ctx.emit(&q, &format!("{} {} {} {}", code, id, seq, hex(&data)));
                ctx.stat("pkt_designates_request");
            }
            Err(m) => {
                ctx.emit(&q, "panic");
                ctx.oracle_failure("panic", &format!("icmp deserialize/responded v6={} panicked ({}) on {}", v6, m, h));
            }
        }
        let q = format!("c11 deser {} {}", *v6 as u8, h);
        begin_case(&q);
        match catch(|| verif::icmp_deserialize_view(*v6, p)) {
            Ok(None) => ctx.emit(&q, "rejected"),
            Ok(Some((t, c))) => ctx.emit(&q, &format!("{} {}", t, c)),
            Err(_) => ctx.emit(&q, "panic"),
        }
        let peer: IpAddr = if *v6 { "2001:db8::7".parse().unwrap() } else { "198.51.100.7".parse().unwrap() };
        let q = format!("c11 encreply {} {} {}", *v6 as u8, ip_tokens(&peer), h);
        begin_case(&q);
        match catch(|| verif::icmp_encode_reply(*v6, peer, p)) {
            Ok(None) => ctx.emit(&q, "rejected"),
            Ok(Some(None)) => ctx.emit(&q, "none"),
            Ok(Some(Some(b))) => ctx.emit(&q, &hex(&b)),
            Err(_) => ctx.emit(&q, "panic"),
        }
    }

    // ---- 7.3 request stream decoder under segmentations ----------------------------------------------
    let n_streams = if ctx.thorough() { 300 } else { 40 };
    for _ in 0..n_streams {
        let nrec = ctx.rng.range(1, 4) as usize;
        let mut stream = vec![];
        for _ in 0..nrec {
            let id = ctx.rng.next() as u16;
            let seq = ctx.rng.next() as u16;
            let ttl = *ctx.rng.pick(&[0u8, 1, 64, 255]);
            let size = *ctx.rng.pick(&[0u16, 1, 56, 1472]);
            let dest: IpAddr = ctx.rng.pick(&["127.0.0.1", "8.8.8.8", "::1", "2001:db8::1", "0.0.0.0", "ff02::1", "::ffff:1.2.3.4"]).parse().unwrap();
            stream.extend_from_slice(&id.to_be_bytes());
            crate::c06::put_ip16(&mut stream, &dest);
            stream.extend_from_slice(&seq.to_be_bytes());
            stream.push(ttl);
            stream.extend_from_slice(&size.to_be_bytes());
        }
        if ctx.rng.chance(1, 4) {
            let cut = ctx.rng.below(23) as usize;
            stream.extend(ctx.rng.bytes(cut));
        }
        let n = stream.len();
        let mut segs: Vec<Vec<Vec<u8>>> = vec![vec![stream.clone()], stream.iter().map(|b| vec![*b]).collect()];
        for c in 1..n {
            segs.push(vec![stream[..c].to_vec(), stream[c..].to_vec()]);
        }
        for _ in 0..30 {
            let mut cuts: Vec<usize> = (0..ctx.rng.range(2, 3)).map(|_| ctx.rng.below(n as u64 + 1) as usize).collect();
            cuts.sort();
            let mut out = vec![];
            let mut prev = 0;
            for c in cuts {
                out.push(stream[prev..c].to_vec());
                prev = c;
            }
            out.push(stream[prev..].to_vec());
            segs.push(out);
        }
        for chunks in segs {
            let mut q = String::from("c11 decode");
            for c in &chunks {
                q.push(' ');
                q.push_str(&hex(c));
            }
            begin_case(&q);
            let c2 = chunks.clone();
            match catch(std::panic::AssertUnwindSafe(|| rt.block_on(verif::icmp_decode_stream(c2)))) {
                Ok(reqs) => {
                    let mut parts = vec![];
                    for r in &reqs {
                        parts.push(format!("{} {} {} {} {} {}", r.id, ip_tokens(&r.peer), r.seq, r.ttl, r.data_len, r.type_id));
                        // the echo put on the wire: right type, id, seq, size, valid checksum
                        let w = &r.wire;
                        let ok = w.len() == 8 + r.data_len
                            && w[0] == r.type_id
                            && w[1] == 0
                            && u16::from_be_bytes([w[4], w[5]]) == r.id
                            && u16::from_be_bytes([w[6], w[7]]) == r.seq
                            && (r.peer.is_ipv6() || verifies(w));
                        if !ok {
                            ctx.oracle_failure("bad_echo_on_wire", &format!("request {:?} serialised as {}", (r.id, r.seq, r.data_len), hex(&w[..w.len().min(16)])));
                        }
                    }
                    ctx.emit(&q, &if parts.is_empty() { "-".to_string() } else { parts.join(";") });
                    ctx.stat("decode_segmentations");
                }
                Err(m) => {
                    ctx.emit(&q, "panic");
                    ctx.oracle_failure("panic", &format!("icmp request decoder panicked ({}) on {}", m, q));
                }
            }
        }
    }
    set_stall_limit(90);
    live_icmp(ctx);
    wire_ttl(ctx);
    malformed_icmp_on_the_wire(ctx);
}

// ---- the real IcmpForwarder on raw sockets (loopback), its waiter table against the Lean table model ----

#[derive(Clone, Debug)]
enum LOp {
    /// client, id, seq, data size: an echo request to 127.0.0.1 (the kernel answers it)
    Req(usize, u16, u16, u16),
    /// client, id, seq: an echo request with TTL 0, which the kernel refuses to send (the client is told, nothing is pending)
    ReqUnsendable(usize, u16, u16),
    /// inject an echo reply built from request k: 0 same data, 1 shorter data, 2 longer data, 3 other data, 4 other id
    Inj(usize, u8),
    /// inject an ICMP error of this type quoting request k
    Err(usize, u8),
    Adv(u64),
    Take(usize),
}

fn icmp_with_checksum(mut p: Vec<u8>) -> Vec<u8> {
    p[2] = 0;
    p[3] = 0;
    let c = verif::rfc1071_checksum(&p);
    p[2] = (c >> 8) as u8;
    p[3] = c as u8;
    p
}

fn raw_icmp_socket() -> Option<i32> {
    let fd = unsafe { libc::socket(libc::AF_INET, libc::SOCK_RAW, libc::IPPROTO_ICMP) };
    if fd < 0 {
        None
    } else {
        Some(fd)
    }
}

fn raw_send(fd: i32, pkt: &[u8]) {
    let addr = libc::sockaddr_in { sin_family: libc::AF_INET as u16, sin_port: 0, sin_addr: libc::in_addr { s_addr: u32::from_ne_bytes([127, 0, 0, 1]) }, sin_zero: [0; 8] };
    unsafe {
        libc::sendto(fd, pkt.as_ptr() as *const libc::c_void, pkt.len(), 0, &addr as *const _ as *const libc::sockaddr, std::mem::size_of::<libc::sockaddr_in>() as u32);
    }
}

fn live_icmp(ctx: &mut Ctx) {
    use std::time::{Duration, Instant};
    use trusttunnel::settings::*;
    use trusttunnel::shutdown::Shutdown;
    use trusttunnel::verif::vicmp;
    const T_MS: u64 = 3000;
    const CAP: usize = 3;
    let inj = match raw_icmp_socket() {
        Some(fd) => fd,
        None => {
            ctx.stat("raw_socket_unavailable");
            ctx.notes.push("raw ICMP sockets are not permitted here: the live waiter-table suite did not run".into());
            return;
        }
    };
    let id_base = (std::process::id() as u16).wrapping_mul(251) | 0x4000;
    let n_hist = if ctx.thorough() { 400 } else { 60 };
    for h in 0..n_hist {
        // ---- generate ----
        let n = ctx.rng.range(4, 12) as usize;
        let mut ops: Vec<LOp> = vec![];
        let mut reqs: Vec<usize> = vec![];
        let mut next_seq = 0u16;
        for _ in 0..n {
            let r = ctx.rng.below(100);
            if reqs.is_empty() || r < 35 {
                let c = ctx.rng.below(2) as usize;
                // mostly fresh (id, seq); sometimes the pair of an earlier empty-data request again (the
                // table entry is then replaced)
                let size = *ctx.rng.pick(&[0u16, 0, 1, 8, 56, 200]);
                let seq = if size == 0 && next_seq > 0 && ctx.rng.chance(1, 3) { ctx.rng.below(next_seq as u64) as u16 } else {
                    next_seq += 1;
                    next_seq - 1
                };
                reqs.push(ops.len());
                if ctx.rng.chance(1, 6) {
                    ops.push(LOp::ReqUnsendable(c, id_base.wrapping_add(h as u16), seq));
                } else {
                    ops.push(LOp::Req(c, id_base.wrapping_add(h as u16), seq, size));
                }
            } else if r < 55 {
                ops.push(LOp::Inj(*ctx.rng.pick(&reqs), ctx.rng.below(5) as u8));
            } else if r < 65 {
                ops.push(LOp::Err(*ctx.rng.pick(&reqs), *ctx.rng.pick(&[3u8, 11, 12])));
            } else if r < 80 {
                ops.push(LOp::Adv(*ctx.rng.pick(&[1u64, T_MS / 2, T_MS / 2 + 1, T_MS / 3, T_MS - 1, T_MS, T_MS + 1, 2 * T_MS])));
            } else {
                ops.push(LOp::Take(ctx.rng.below(2) as usize));
            }
        }
        ops.push(LOp::Take(0));
        ops.push(LOp::Take(1));
        // directed histories first: requests with staggered deadlines, replies that arrive after the deadline of
        // an earlier request while a later one is still pending (every request must be forgotten at its own deadline)
        let idh = id_base.wrapping_add(h as u16);
        let directed: Vec<Vec<LOp>> = vec![
            vec![
                LOp::Req(0, idh, 0, 8), LOp::Take(0), LOp::Adv(T_MS / 2), LOp::Req(1, idh, 1, 8), LOp::Take(1), LOp::Adv(T_MS / 2 + 1),
                LOp::Inj(0, 0), LOp::Take(0), LOp::Inj(3, 0), LOp::Take(1), LOp::Adv(T_MS / 2), LOp::Inj(3, 0), LOp::Inj(0, 0), LOp::Take(0), LOp::Take(1),
            ],
            vec![
                LOp::Req(0, idh, 0, 0), LOp::Adv(T_MS - 1), LOp::Req(0, idh, 1, 0), LOp::Adv(1), LOp::Inj(0, 0), LOp::Take(0), LOp::Adv(1),
                LOp::Inj(0, 0), LOp::Err(0, 3), LOp::Take(0), LOp::Adv(T_MS - 2), LOp::Inj(2, 0), LOp::Take(0), LOp::Adv(1), LOp::Inj(2, 0), LOp::Take(0),
            ],
            vec![
                LOp::Req(0, idh, 0, 56), LOp::Adv(1000), LOp::Req(1, idh, 1, 56), LOp::Adv(1000), LOp::Req(0, idh, 2, 56), LOp::Adv(1000),
                LOp::Req(1, idh, 3, 56), LOp::Take(0), LOp::Take(1), LOp::Adv(1), LOp::Inj(0, 0), LOp::Inj(2, 0), LOp::Take(0), LOp::Take(1),
                LOp::Adv(1000), LOp::Inj(2, 0), LOp::Inj(4, 0), LOp::Take(0), LOp::Take(1), LOp::Adv(1000), LOp::Err(4, 11), LOp::Err(6, 11),
                LOp::Take(0), LOp::Take(1),
            ],
        ];
        let mut directed = directed;
        // a request that could not be sent leaves nothing behind: a reply that would match it is nobody's, now and after the timeout
        directed.push(vec![
            LOp::ReqUnsendable(0, idh, 0), LOp::Inj(0, 0), LOp::Take(0), LOp::Req(1, idh, 1, 8), LOp::Take(1), LOp::Adv(T_MS + 1), LOp::Inj(0, 0), LOp::Err(0, 11),
            LOp::Take(0), LOp::Take(1),
        ]);
        if h < directed.len() {
            ops = directed[h].clone();
            ctx.stat("live_directed_staggered_deadlines");
        }
        // ---- execute ---- (named for the progress watchdog: a wedged listener stops the history that wedged it)
        begin_case(&format!("live ICMP waiter-table history #{} on raw sockets (request timeout {} ms, receive queue of {}): {:?}", h, T_MS, CAP, ops));
        let settings = Settings::builder()
            .listen_address(("127.0.0.1", 1))
            .unwrap()
            .listen_protocols(ListenProtocolSettings { http1: Some(Http1Settings::builder().build()), http2: None, quic: None })
            .ipv6_available(false)
            .icmp(IcmpSettings::builder().interface_name("lo").request_timeout(Duration::from_millis(T_MS)).recv_message_queue_capacity(CAP).build().unwrap())
            .build()
            .unwrap();
        let hosts = TlsHostsSettings::builder()
            .main_hosts(vec![TlsHostInfo { hostname: "localhost".into(), cert_chain_path: FIXTURE_PEM.into(), private_key_path: FIXTURE_PEM.into(), allowed_sni: vec![] }])
            .build()
            .unwrap();
        let core = trusttunnel::core::Core::new(settings, None, hosts, Shutdown::new()).unwrap();
        let rt = tokio::runtime::Builder::new_current_thread().enable_all().start_paused(true).build().unwrap();
        let ops2 = ops.clone();
        let res: Result<(Vec<String>, Vec<String>), String> = rt.block_on(async {
            let mut v = match vicmp::spawn(&core, 2) {
                Some(Ok(v)) => v,
                Some(Err(e)) => return Err(format!("unavailable: {}", e)),
                None => return Err("unavailable: no forwarder".into()),
            };
            let spin = |ms: u64| async move {
                let t = Instant::now();
                while t.elapsed() < Duration::from_millis(ms) {
                    for _ in 0..50 {
                        tokio::task::yield_now().await;
                    }
                }
            };
            spin(3).await;
            if let Some(e) = v.listen_ended() {
                return Err(format!("unavailable: listen() ended: {}", e));
            }
            let mut toks = vec![];
            let mut outs = vec![];
            let mut wires: Vec<Vec<u8>> = vec![vec![]; ops2.len()];
            for (i, op) in ops2.iter().enumerate() {
                match op {
                    LOp::Req(c, id, seq, size) => {
                        let mut rec = id.to_be_bytes().to_vec();
                        crate::c06::put_ip16(&mut rec, &"127.0.0.1".parse().unwrap());
                        rec.extend_from_slice(&seq.to_be_bytes());
                        rec.push(64);
                        rec.extend_from_slice(&size.to_be_bytes());
                        let (st, wire) = v.clients[*c].request(rec).await;
                        if st != "sent" {
                            return Err(format!("request not sent: {}", st));
                        }
                        toks.push(format!("req.{}.{}.{}.{}", c, id, seq, hex(&wire[8..])));
                        wires[i] = wire;
                        outs.push("-".to_string());
                    }
                    LOp::ReqUnsendable(c, id, seq) => {
                        let mut rec = id.to_be_bytes().to_vec();
                        crate::c06::put_ip16(&mut rec, &"127.0.0.1".parse().unwrap());
                        rec.extend_from_slice(&seq.to_be_bytes());
                        rec.push(0);
                        rec.extend_from_slice(&8u16.to_be_bytes());
                        let (st, wire) = v.clients[*c].request(rec).await;
                        if st == "sent" {
                            return Err("unavailable: this kernel sends echo requests with TTL 0".into());
                        }
                        toks.push(format!("bad.{}.{}.{}.{}", c, id, seq, hex(&wire[8..])));
                        wires[i] = wire;
                        outs.push("-".to_string());
                    }
                    LOp::Inj(k, mode) => {
                        let w = &wires[*k];
                        let mut p = w.clone();
                        p[0] = 0;
                        match mode {
                            1 => p.truncate(8 + (w.len() - 8) / 2),
                            2 => p.extend_from_slice(b"MORE"),
                            3 => {
                                if p.len() > 8 {
                                    p[8] ^= 0xff;
                                } else {
                                    p.push(0x77);
                                    p[7] ^= 0x40;
                                }
                            }
                            4 => p[4] ^= 0x20,
                            _ => {}
                        }
                        let p = icmp_with_checksum(p);
                        toks.push(format!("inj.{}.{}.{}", u16::from_be_bytes([p[4], p[5]]), u16::from_be_bytes([p[6], p[7]]), hex(&p[8..])));
                        raw_send(inj, &p);
                        outs.push("-".to_string());
                    }
                    LOp::Err(k, ty) => {
                        let w = &wires[*k];
                        let mut p = vec![*ty, 0, 0, 0, 0, 0, 0, 0];
                        // the quoted datagram: an IPv4 header and the echo request
                        let total = 20 + w.len();
                        p.extend_from_slice(&[0x45, 0, (total >> 8) as u8, total as u8, 0, 0, 0, 0, 64, 1, 0, 0, 127, 0, 0, 1, 127, 0, 0, 1]);
                        p.extend_from_slice(w);
                        let p = icmp_with_checksum(p);
                        toks.push(format!("err.{}.{}.{}.{}", ty, u16::from_be_bytes([w[4], w[5]]), u16::from_be_bytes([w[6], w[7]]), hex(&w[8..])));
                        raw_send(inj, &p);
                        outs.push("-".to_string());
                    }
                    LOp::Adv(ms) => {
                        tokio::time::advance(Duration::from_millis(*ms)).await;
                        toks.push(format!("adv.{}", ms));
                        outs.push("-".to_string());
                    }
                    LOp::Take(c) => {
                        toks.push(format!("take.{}", c));
                        spin(2).await;
                        let d = v.clients[*c].take();
                        let items: Vec<String> = d
                            .iter()
                            .map(|x| {
                                let (id, seq) = x.encoded.as_ref().map(|e| (u16::from_be_bytes([e[0], e[1]]), u16::from_be_bytes([e[20], e[21]]))).unwrap_or((0, 0));
                                format!("{}/{}/{}/{}", x.type_id, x.code, id, seq)
                            })
                            .collect();
                        outs.push(if items.is_empty() { "-".to_string() } else { items.join(",") });
                        continue;
                    }
                }
                spin(2).await;
            }
            Ok((toks, outs))
        });
        match res {
            Ok((toks, outs)) => {
                ctx.emit(&format!("c11 table T={} cap={} ops={}", T_MS, CAP, toks.join(";")), &outs.join(" | "));
                ctx.stat("live_waiter_histories");
            }
            Err(e) if e.starts_with("unavailable") => {
                ctx.stat("raw_socket_unavailable");
                ctx.notes.push(format!("live ICMP suite skipped: {}", e));
                break;
            }
            Err(e) => ctx.oracle_failure("live_icmp", &e),
        }
    }
    unsafe {
        libc::close(inj);
    }
}

// ---- the echo request as it leaves the endpoint: TTL / hop limit seen by an independent raw socket ----

fn sniffer(v6: bool) -> Option<i32> {
    unsafe {
        let fd = if v6 {
            libc::socket(libc::AF_INET6, libc::SOCK_RAW, libc::IPPROTO_ICMPV6)
        } else {
            libc::socket(libc::AF_INET, libc::SOCK_RAW, libc::IPPROTO_ICMP)
        };
        if fd < 0 {
            return None;
        }
        if v6 {
            let on: libc::c_int = 1;
            if libc::setsockopt(fd, libc::IPPROTO_IPV6, libc::IPV6_RECVHOPLIMIT, &on as *const _ as *const libc::c_void, 4) != 0 {
                libc::close(fd);
                return None;
            }
        }
        Some(fd)
    }
}

/// one packet, without waiting: (ICMP message, TTL / hop limit it arrived with)
fn sniff_once(fd: i32, v6: bool) -> Option<(Vec<u8>, u8)> {
    unsafe {
        let mut buf = [0u8; 4096];
        let mut control = [0u64; 32];
        let mut iov = libc::iovec { iov_base: buf.as_mut_ptr() as *mut libc::c_void, iov_len: buf.len() };
        let mut msg: libc::msghdr = std::mem::zeroed();
        msg.msg_iov = &mut iov;
        msg.msg_iovlen = 1;
        msg.msg_control = control.as_mut_ptr() as *mut libc::c_void;
        msg.msg_controllen = std::mem::size_of_val(&control) as _;
        let n = libc::recvmsg(fd, &mut msg, libc::MSG_DONTWAIT);
        if n <= 0 {
            return None;
        }
        let packet = &buf[..n as usize];
        if !v6 {
            let ihl = ((packet[0] & 0x0f) as usize) * 4;
            if packet.len() < ihl {
                return None;
            }
            return Some((packet[ihl..].to_vec(), packet[8]));
        }
        let mut hop: Option<i32> = None;
        let mut cmsg = libc::CMSG_FIRSTHDR(&msg);
        while !cmsg.is_null() {
            if (*cmsg).cmsg_level == libc::IPPROTO_IPV6 && (*cmsg).cmsg_type == libc::IPV6_HOPLIMIT {
                hop = Some(*(libc::CMSG_DATA(cmsg) as *const libc::c_int));
            }
            cmsg = libc::CMSG_NXTHDR(&msg, cmsg);
        }
        hop.map(|h| (packet.to_vec(), h as u8))
    }
}

/// a global-scope / ULA IPv6 address of this machine and its interface (/proc/net/if_inet6)
fn own_ipv6_address() -> Option<(std::net::Ipv6Addr, String)> {
    let table = std::fs::read_to_string("/proc/net/if_inet6").ok()?;
    table.lines().find_map(|line| {
        let f: Vec<&str> = line.split_whitespace().collect();
        if f.len() < 6 || f[3] != "00" {
            return None;
        }
        let a = u128::from_str_radix(f[0], 16).ok()?;
        Some((std::net::Ipv6Addr::from(a), f[5].to_string()))
    })
}

/// Malformed ICMP packets from the network (well-formed enough for the kernel's filter, refused by the endpoint's parser:
/// unassigned codes, messages shorter than their minimum, an echo reply cut short) while the real forwarder listens on raw
/// sockets, IPv4 and IPv6: each is a packet to drop - the listener must go on (a listener that ends takes the whole endpoint
/// with it: `Core::listen` joins it with the others), and a ping sent afterwards is still answered.
fn malformed_icmp_on_the_wire(ctx: &mut Ctx) {
    use std::time::Duration;
    use trusttunnel::settings::*;
    use trusttunnel::shutdown::Shutdown;
    use trusttunnel::verif::vicmp;
    let Some(fd4) = raw_icmp_socket() else {
        ctx.stat("raw_socket_unavailable");
        return;
    };
    let fd6 = unsafe { libc::socket(libc::AF_INET6, libc::SOCK_RAW, libc::IPPROTO_ICMPV6) };
    let settings = Settings::builder()
        .listen_address(("127.0.0.1", 1))
        .unwrap()
        .listen_protocols(ListenProtocolSettings { http1: Some(Http1Settings::builder().build()), http2: None, quic: None })
        .ipv6_available(fd6 >= 0)
        .icmp(IcmpSettings::builder().interface_name("lo").request_timeout(Duration::from_secs(3)).build().unwrap())
        .build()
        .unwrap();
    let hosts = TlsHostsSettings::builder()
        .main_hosts(vec![TlsHostInfo { hostname: "localhost".into(), cert_chain_path: FIXTURE_PEM.into(), private_key_path: FIXTURE_PEM.into(), allowed_sni: vec![] }])
        .build()
        .unwrap();
    let core = trusttunnel::core::Core::new(settings, None, hosts, Shutdown::new()).unwrap();
    let rt = tokio::runtime::Builder::new_current_thread().enable_all().build().unwrap();
    // (type, code, bytes behind the 4-byte header)
    let v6_packets: Vec<(u8, u8, usize)> = vec![(1, 9, 52), (1, 200, 52), (3, 2, 52), (3, 0, 4), (1, 0, 4), (2, 0, 4), (4, 7, 52), (4, 0, 0), (129, 0, 2), (129, 0, 0)];
    let v4_packets: Vec<(u8, u8, usize)> = vec![(3, 99, 32), (3, 0, 4), (11, 9, 32), (11, 0, 0), (12, 0, 2), (0, 0, 2), (0, 0, 0), (5, 0, 4), (4, 0, 4)];
    let id = (std::process::id() as u16).wrapping_mul(89) | 0x1000;
    let res: Result<Vec<String>, String> = rt.block_on(async {
        let mut v = match vicmp::spawn(&core, 1) {
            Some(Ok(v)) => v,
            Some(Err(e)) => return Err(format!("unavailable: {}", e)),
            None => return Err("unavailable: no forwarder".into()),
        };
        tokio::time::sleep(Duration::from_millis(30)).await;
        if let Some(e) = v.listen_ended() {
            return Err(format!("unavailable: listen() ended: {}", e));
        }
        let mut problems = vec![];
        let mut seq = 0u16;
        let mut rounds: Vec<(bool, (u8, u8, usize))> = v4_packets.iter().map(|p| (false, *p)).collect();
        if fd6 >= 0 {
            rounds.extend(v6_packets.iter().map(|p| (true, *p)));
        }
        for (is6, (t, c, n)) in rounds {
            let mut pkt = vec![t, c, 0, 0];
            pkt.extend((0..n).map(|i| (i as u8).wrapping_mul(7)));
            if is6 {
                // (the kernel fills in the ICMPv6 checksum of a raw socket's packets)
                let addr = libc::sockaddr_in6 { sin6_family: libc::AF_INET6 as u16, sin6_port: 0, sin6_flowinfo: 0, sin6_addr: libc::in6_addr { s6_addr: std::net::Ipv6Addr::LOCALHOST.octets() }, sin6_scope_id: 0 };
                unsafe {
                    libc::sendto(fd6, pkt.as_ptr() as *const libc::c_void, pkt.len(), 0, &addr as *const _ as *const libc::sockaddr, std::mem::size_of::<libc::sockaddr_in6>() as u32);
                }
            } else {
                raw_send(fd4, &icmp_with_checksum(pkt));
            }
            tokio::time::sleep(Duration::from_millis(20)).await;
            let what = format!("ICMPv{} type {} code {} with {} byte(s) behind the header", if is6 { 6 } else { 4 }, t, c, n);
            if let Some(e) = v.listen_ended() {
                problems.push(format!("after {} arrived from the network the ICMP listener ended ({})", what, e));
                break;
            }
            // a ping afterwards is answered
            seq += 1;
            let mut rec = id.to_be_bytes().to_vec();
            crate::c06::put_ip16(&mut rec, &"127.0.0.1".parse().unwrap());
            rec.extend_from_slice(&seq.to_be_bytes());
            rec.push(64);
            rec.extend_from_slice(&8u16.to_be_bytes());
            let (st, _) = v.clients[0].request(rec).await;
            let mut replied = false;
            if st == "sent" {
                for _ in 0..200 {
                    for d in v.clients[0].take() {
                        if let Some(e) = &d.encoded {
                            if d.type_id == 0 && e.len() >= 22 && e[0..2] == id.to_be_bytes() && e[20..22] == seq.to_be_bytes() {
                                replied = true;
                            }
                        }
                    }
                    if replied {
                        break;
                    }
                    tokio::time::sleep(Duration::from_millis(5)).await;
                }
            }
            if !replied {
                problems.push(format!("after {} arrived from the network a ping to 127.0.0.1 was {}", what, if st == "sent" { "not answered within 1 s".to_string() } else { format!("not sent ({})", st) }));
                break;
            }
        }
        Ok(problems)
    });
    unsafe {
        libc::close(fd4);
        if fd6 >= 0 {
            libc::close(fd6);
        }
    }
    match res {
        Ok(problems) => {
            ctx.stat_add("malformed_icmp_packets_from_the_network", (v4_packets.len() + if fd6 >= 0 { v6_packets.len() } else { 0 }) as u64);
            for p in problems {
                ctx.oracle_failure("listener_stopped_by_a_packet", &p);
            }
        }
        Err(e) => {
            ctx.stat("raw_socket_unavailable");
            ctx.notes.push(format!("malformed ICMP packets on the wire not tried: {}", e));
        }
    }
}

/// 7.3 records with every kind of TTL through the real decoder, the real `IcmpSink::write` and the real raw
/// sockets (real clock); a second raw socket sees the echo request on the wire with the TTL (IPv4 header) /
/// hop limit (IPV6_RECVHOPLIMIT) it carries. The model answers with `outgoing (parseRequest record)`.
fn wire_ttl(ctx: &mut Ctx) {
    use std::time::Duration;
    use trusttunnel::settings::*;
    use trusttunnel::shutdown::Shutdown;
    use trusttunnel::verif::vicmp;
    let mut targets: Vec<(IpAddr, String)> = vec![("127.0.0.1".parse().unwrap(), "lo".to_string())];
    match own_ipv6_address() {
        Some((a, ifn)) => targets.push((IpAddr::V6(a), ifn)),
        None => {
            ctx.stat("wire_no_own_ipv6_address");
            ctx.notes.push("this machine has no global / ULA IPv6 address: the hop limit of ICMPv6 echo requests was not observed".into());
        }
    }
    let id_base = (std::process::id() as u16).wrapping_mul(193) | 0x2000;
    let ttls: Vec<u8> = if ctx.thorough() { (1..=255u8).collect() } else { vec![1, 2, 7, 63, 64, 65, 128, 200, 255] };
    for (ti, (dst, ifn)) in targets.iter().enumerate() {
        let v6 = dst.is_ipv6();
        let fd = match sniffer(v6) {
            Some(fd) => fd,
            None => {
                ctx.stat("raw_socket_unavailable");
                ctx.notes.push("raw ICMP sockets are not permitted here: the TTL on the wire was not observed".into());
                return;
            }
        };
        let settings = Settings::builder()
            .listen_address(("127.0.0.1", 1))
            .unwrap()
            .listen_protocols(ListenProtocolSettings { http1: Some(Http1Settings::builder().build()), http2: None, quic: None })
            .ipv6_available(true)
            .icmp(IcmpSettings::builder().interface_name(ifn.as_str()).request_timeout(Duration::from_secs(3)).build().unwrap())
            .build()
            .unwrap();
        let hosts = TlsHostsSettings::builder()
            .main_hosts(vec![TlsHostInfo { hostname: "localhost".into(), cert_chain_path: FIXTURE_PEM.into(), private_key_path: FIXTURE_PEM.into(), allowed_sni: vec![] }])
            .build()
            .unwrap();
        let core = trusttunnel::core::Core::new(settings, None, hosts, Shutdown::new()).unwrap();
        let rt = tokio::runtime::Builder::new_current_thread().enable_all().build().unwrap();
        let ttls2 = ttls.clone();
        let dst2 = *dst;
        let sizes: Vec<u16> = ttls.iter().map(|_| *ctx.rng.pick(&[0u16, 8, 24, 56])).collect();
        let res: Result<(Vec<(String, String)>, Vec<String>), String> = rt.block_on(async move {
            let mut v = match vicmp::spawn(&core, 1) {
                Some(Ok(v)) => v,
                Some(Err(e)) => return Err(format!("unavailable: {}", e)),
                None => return Err("unavailable: no forwarder".into()),
            };
            tokio::time::sleep(Duration::from_millis(30)).await;
            if let Some(e) = v.listen_ended() {
                return Err(format!("unavailable: listen() ended: {}", e));
            }
            let mut rows = vec![];
            let mut missing: Vec<String> = vec![];
            for (k, ttl) in ttls2.iter().enumerate() {
                let id = id_base.wrapping_add(ti as u16);
                let seq = k as u16;
                let mut rec = id.to_be_bytes().to_vec();
                crate::c06::put_ip16(&mut rec, &dst2);
                rec.extend_from_slice(&seq.to_be_bytes());
                rec.push(*ttl);
                rec.extend_from_slice(&sizes[k].to_be_bytes());
                let (st, _wire) = v.clients[0].request(rec.clone()).await;
                if st != "sent" {
                    return Err(format!("request not sent: {}", st));
                }
                let want_type = if v6 { 128 } else { 8 };
                let mut seen: Option<(Vec<u8>, u8)> = None;
                for _ in 0..300 {
                    while let Some((p, hop)) = sniff_once(fd, v6) {
                        if p.len() >= 8 && p[0] == want_type && p[4..6] == id.to_be_bytes() && p[6..8] == seq.to_be_bytes() && seen.is_none() {
                            seen = Some((p, hop));
                        }
                    }
                    if seen.is_some() {
                        break;
                    }
                    tokio::time::sleep(Duration::from_millis(5)).await;
                }
                let ans = match seen {
                    Some((p, hop)) => format!(
                        "hop={} type={} id={} seq={} len={}",
                        hop, p[0], u16::from_be_bytes([p[4], p[5]]), u16::from_be_bytes([p[6], p[7]]), p.len() - 8
                    ),
                    None => "not-seen".to_string(),
                };
                rows.push((format!("c11 wire {}", hex(&rec)), ans));
                // the kernel answers the echo (loopback / own address): the reply must reach the client, as a reply of this
                // family (type 0 / 129) from the pinged address with the request's identifier and sequence number
                let want_reply = if v6 { 129 } else { 0 };
                let mut replied = false;
                for _ in 0..200 {
                    for d in v.clients[0].take() {
                        if let Some(e) = &d.encoded {
                            if d.type_id == want_reply && d.peer == dst2 && e.len() >= 22 && e[0..2] == id.to_be_bytes() && e[20..22] == seq.to_be_bytes() {
                                replied = true;
                            }
                        }
                    }
                    if replied {
                        break;
                    }
                    tokio::time::sleep(Duration::from_millis(5)).await;
                }
                if !replied {
                    missing.push(format!("{} id={} seq={} ttl={}", dst2, id, seq, ttl));
                }
            }
            Ok((rows, missing))
        });
        unsafe {
            libc::close(fd);
        }
        match res {
            Ok((rows, missing)) => {
                if !missing.is_empty() {
                    ctx.oracle_failure("reply_not_delivered", &format!("echo requests answered by the kernel whose reply never reached the client: {}", missing.join("; ")));
                }
                for (q, a) in rows {
                    ctx.emit(&q, &a);
                    ctx.stat(if v6 { "wire_ttl_ipv6" } else { "wire_ttl_ipv4" });
                }
            }
            Err(e) if e.starts_with("unavailable") => {
                ctx.stat("raw_socket_unavailable");
                ctx.notes.push(format!("TTL on the wire not observed ({}): {}", if v6 { "IPv6" } else { "IPv4" }, e));
            }
            Err(e) => ctx.oracle_failure("wire_ttl", &e),
        }
    }
}
