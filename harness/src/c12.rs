//! C12: ClientHello random extraction and transparent prebuffer replay
use crate::common::*;
use std::sync::Arc;
use trusttunnel::verif;

pub fn mk_record(rec_type: u8, payload: &[u8]) -> Vec<u8> {
    let mut v = vec![rec_type, 3, 1];
    v.extend_from_slice(&(payload.len() as u16).to_be_bytes());
    v.extend_from_slice(payload);
    v
}

pub fn mk_hello_body(random: &[u8], sid: &[u8], suites: &[u8], comps: &[u8], exts: &[u8]) -> Vec<u8> {
    let mut b = vec![3, 3];
    b.extend_from_slice(random);
    b.push(sid.len() as u8);
    b.extend_from_slice(sid);
    b.extend_from_slice(&(suites.len() as u16).to_be_bytes());
    b.extend_from_slice(suites);
    b.push(comps.len() as u8);
    b.extend_from_slice(comps);
    if !exts.is_empty() {
        b.extend_from_slice(&(exts.len() as u16).to_be_bytes());
        b.extend_from_slice(exts);
    }
    b
}

pub fn mk_handshake(ht: u8, body: &[u8]) -> Vec<u8> {
    let mut v = vec![ht, (body.len() >> 16) as u8, (body.len() >> 8) as u8, body.len() as u8];
    v.extend_from_slice(body);
    v
}

fn ext(ty: u16, data: &[u8]) -> Vec<u8> {
    let mut v = ty.to_be_bytes().to_vec();
    v.extend_from_slice(&(data.len() as u16).to_be_bytes());
    v.extend_from_slice(data);
    v
}

struct NoVerify;
impl rustls::client::ServerCertVerifier for NoVerify {
    fn verify_server_cert(
        &self,
        _: &rustls::Certificate,
        _: &[rustls::Certificate],
        _: &rustls::ServerName,
        _: &mut dyn Iterator<Item = &[u8]>,
        _: &[u8],
        _: std::time::SystemTime,
    ) -> Result<rustls::client::ServerCertVerified, rustls::Error> {
        Ok(rustls::client::ServerCertVerified::assertion())
    }
}

pub fn rustls_hello(sni: &str, alpn: &[&[u8]]) -> Vec<u8> {
    let mut config = rustls::ClientConfig::builder()
        .with_safe_defaults()
        .with_custom_certificate_verifier(Arc::new(NoVerify))
        .with_no_client_auth();
    for a in alpn {
        config.alpn_protocols.push(a.to_vec());
    }
    let mut conn = rustls::ClientConnection::new(Arc::new(config), sni.try_into().unwrap()).unwrap();
    let mut buf = Vec::new();
    conn.write_tls(&mut buf).unwrap();
    buf
}

fn fmt_extract(r: (u8, Option<Vec<u8>>)) -> String {
    match r {
        (0, Some(x)) => format!("found {}", hex(&x)),
        (1, _) => "needmore".into(),
        _ => "notfound".into(),
    }
}

pub fn run(ctx: &mut Ctx) {
    quiet_panics();
    // ---- corpus of hellos ---------------------------------------------------------------------
    let mut hellos: Vec<(String, Vec<u8>, Option<Vec<u8>>)> = vec![]; // (class, bytes, true random)
    for (sni, alpn) in [
        ("localhost", vec![]),
        ("a.b.c.example.org", vec![&b"h2"[..]]),
        ("x", vec![&b"h2"[..], &b"http/1.1"[..]]),
        ("very-long-name-aaaaaaaaaaaaaaaaaaaaaaaaaaaaaaaaaaaa.bbbbbbbbbbbbbbbbbbbbbbbbbbbbbbbbbbbbbbbbbbbbbbbbbb.example.com", vec![&b"h3"[..]]),
    ] {
        let h = rustls_hello(sni, &alpn);
        let rnd = h[11..43].to_vec();
        hellos.push(("rustls".into(), h, Some(rnd)));
    }
    let n_syn = if ctx.thorough() { 400 } else { 60 };
    for i in 0..n_syn {
        let random = ctx.rng.bytes(32);
        let sid_len = *ctx.rng.pick(&[0usize, 32, 16, 1]);
        let sid = ctx.rng.bytes(sid_len);
        let n_suites = *ctx.rng.pick(&[1usize, 2, 17, 0]);
        let suites = ctx.rng.bytes(n_suites * 2);
        let comps = vec![0u8; *ctx.rng.pick(&[1usize, 0, 2])];
        let mut exts = vec![];
        match i % 6 {
            0 => {}
            1 => exts.extend(ext(0, b"\x00\x0e\x00\x00\x0bexample.com")),
            2 => {
                // large post-quantum style key share + padding
                exts.extend(ext(51, &ctx.rng.bytes(1216 + 32 + 8)));
                exts.extend(ext(21, &vec![0u8; 300]));
            }
            3 => {
                let n = ctx.rng.range(2000, 14000) as usize;
                exts.extend(ext(21, &vec![0u8; n]));
            }
            4 => {
                // almost / exactly / just over what fits one record and the prebuffer
                let target = *ctx.rng.pick(&[15200usize, 15340, 16200, 16290, 16300, 16330]);
                exts.extend(ext(21, &vec![0u8; target]));
            }
            _ => {
                for _ in 0..ctx.rng.range(1, 8) {
                    let ty = ctx.rng.below(60) as u16;
                    let n = ctx.rng.below(40) as usize;
                    let d = ctx.rng.bytes(n);
                    exts.extend(ext(ty, &d));
                }
            }
        }
        let body = mk_hello_body(&random, &sid, &suites, &comps, &exts);
        let hs = mk_handshake(1, &body);
        if hs.len() <= 16384 {
            hellos.push(("synthetic".into(), mk_record(22, &hs), Some(random)));
        } else {
            // too large for one record: fragment over two records (the endpoint must answer "absent")
            let mut v = mk_record(22, &hs[..16384]);
            v.extend(mk_record(22, &hs[16384..]));
            hellos.push(("fragmented".into(), v, None));
        }
    }
    // ---- extraction on full records, prefixes, suffixes, mutations ---------------------------------
    for (class, h, truth) in &hellos {
        ctx.stat(&format!("hello_{}", class));
        let mut inputs: Vec<Vec<u8>> = vec![h.clone()];
        let mut with_suffix = h.clone();
        with_suffix.extend(ctx.rng.bytes(7));
        inputs.push(with_suffix);
        let mut two = h.clone();
        two.extend(mk_record(23, b"early"));
        inputs.push(two);
        if h.len() <= 700 {
            for n in 0..h.len() {
                inputs.push(h[..n].to_vec());
            }
        } else {
            for _ in 0..40 {
                let n = ctx.rng.below(h.len() as u64) as usize;
                inputs.push(h[..n].to_vec());
            }
            for n in [0usize, 1, 4, 5, 6, 9, 10, 43, 44, h.len() - 1] {
                inputs.push(h[..n.min(h.len())].to_vec());
            }
        }
        // the record-layer (legacy) version is not part of the ClientHello: 3.0 .. 3.4 all carry the same hello
        for minor in [0u8, 2, 3, 4] {
            let mut m = h.clone();
            m[2] = minor;
            inputs.push(m);
        }
        // mutations of every length field (record, handshake, session id, suites, compression, extensions)
        if h.len() > 80 {
            let sid_len = h[43] as usize;
            let suites_off = 44 + sid_len;
            let suites_len = ((h[suites_off] as usize) << 8) | h[suites_off + 1] as usize;
            let comp_off = suites_off + 2 + suites_len;
            let offs = [3usize, 4, 6, 7, 8, 43, suites_off, suites_off + 1, comp_off, comp_off + 2, comp_off + 3, 0, 5, 9, 10, 1, 2];
            for off in offs {
                if off < h.len() {
                    for delta in [1u8, 0xff, 0x80] {
                        let mut m = h.clone();
                        m[off] = m[off].wrapping_add(delta);
                        inputs.push(m);
                    }
                    let mut m = h.clone();
                    m[off] = 0;
                    inputs.push(m);
                }
            }
        }
        for inp in inputs {
            let r = catch(|| verif::extract_client_random(&inp));
            let q = format!("c12 extract {}", hex(&inp));
            begin_case(&q);
            match r {
                Ok(r) => {
                    let a = fmt_extract(r.clone());
                    if let ((0, Some(x)), Some(t)) = (&r, truth) {
                        // a reported value must be the client's random whenever the input starts with the client's record
                        if inp.len() >= h.len() && inp[..h.len()] == h[..] && x != t {
                            ctx.oracle_failure("wrong_random", &format!("extract returned {} for a hello whose random is {}", hex(x), hex(t)));
                        }
                    }
                    ctx.stat(&format!("extract_{}", a.split(' ').next().unwrap()));
                    ctx.emit(&q, &a);
                }
                Err(m) => {
                    ctx.emit(&q, "panic");
                    ctx.oracle_failure("panic", &format!("extract_client_random panicked ({}) on {}", m, hex(&inp)));
                }
            }
        }
    }
    // non-handshake / odd first records
    let odd: Vec<Vec<u8>> = vec![
        mk_record(23, b"hello"),
        mk_record(21, &[2, 40]),
        mk_record(20, &[1]),
        mk_record(99, b"abc"),
        mk_record(22, &[]),
        mk_record(22, &[1, 0, 0]),
        mk_record(22, &mk_handshake(1, &[])),
        mk_record(22, &mk_handshake(1, &[3, 3])),
        b"GET / HTTP/1.1\r\n\r\n".to_vec(),
        vec![22, 3, 1, 0xff, 0xff, 1, 2, 3],
        vec![22, 3, 1, 0x40, 0x01],
        vec![22, 3, 1, 0x40, 0x00],
        vec![],
    ];
    for inp in odd {
        let r = verif::extract_client_random(&inp);
        ctx.emit(&format!("c12 extract {}", hex(&inp)), &fmt_extract(r));
        ctx.stat("odd_first_record");
    }

    // ---- the real read loop + replay over loopback TCP, written in chosen segments ---------------------
    let rt = tokio::runtime::Builder::new_multi_thread().worker_threads(2).enable_all().build().unwrap();
    let n_loop = if ctx.thorough() { 120 } else { 24 };
    // hellos that fill most of the 16 KiB prebuffer, delivered whole (they need 16 reads of 1 KiB)
    let big: Vec<usize> = (0..hellos.len()).filter(|k| hellos[*k].1.len() > 15 * 1024 + 100 && hellos[*k].1.len() < 16380 && hellos[*k].0 != "fragmented").take(3).collect();
    let order: Vec<usize> = big.iter().cloned().chain((0..n_loop).map(|i| (i * 7) % hellos.len())).collect();
    // peers that close before their first record is complete (port scans, health checks, cut connections): the loop must
    // return at once with the random absent and the received bytes replayed - it has nothing more to wait for
    let mut truncated: Vec<(String, Vec<u8>, Option<Vec<u8>>)> = vec![];
    for hi in [0usize, hellos.len() / 2] {
        let h = &hellos[hi].1;
        for cut in [0usize, 1, 4, 5, 9, 43, 44, h.len() / 2, h.len().saturating_sub(1)] {
            if cut < h.len() && h.len() < 4000 {
                truncated.push(("truncated".to_string(), h[..cut].to_vec(), None));
            }
        }
    }
    let n_trunc = truncated.len();
    let base = hellos.len();
    let hellos: Vec<(String, Vec<u8>, Option<Vec<u8>>)> = hellos.iter().map(|(c, h, t)| (c.to_string(), h.clone(), t.clone())).chain(truncated).collect();
    let order: Vec<usize> = order.into_iter().chain(base..base + n_trunc).collect();
    // first flights that do not fit the 16 KiB prebuffer (a long hello with more behind it, delivered with a first segment
    // that is not a multiple of the read size): whether the random is found there may depend on how the reads fall, but the
    // replay never does - every byte the client sent must come out of the wrapped stream, in order, once
    let mut oversized: Vec<(usize, Vec<usize>, usize)> = vec![];
    if let Some(k) = (0..base).filter(|k| hellos[*k].1.len() > 12 * 1024).max_by_key(|k| hellos[*k].1.len()) {
        for (cuts, extra) in [(vec![517usize], 6000usize), (vec![1], 4000), (vec![1023, 2047, 9000], 8000), (vec![], 5000), (vec![16383], 3000), (vec![700, 16500], 2500)] {
            oversized.push((k, cuts, extra));
        }
    }
    let n_regular = order.len();
    let order: Vec<usize> = order.into_iter().chain(oversized.iter().map(|x| x.0)).collect();
    for (i, hi) in order.into_iter().enumerate() {
        let over = if i >= n_regular { Some(oversized[i - n_regular].clone()) } else { None };
        let i = if i < big.len() { 5 } else { i - big.len() }; // whole delivery, 17-byte consumer reads for the big ones
        let (class, h, truth) = &hellos[hi];
        let truncated_case = class == "truncated";
        // keep away from the 16 KiB cap where the answer legitimately depends on timing
        let mut stream = h.clone();
        let extra = if let Some((_, _, e)) = &over { *e } else if truncated_case || (i == 5 && h.len() > 15 * 1024) { 0 } else { *ctx.rng.pick(&[0usize, 5, 300]) };
        stream.extend(ctx.rng.bytes(extra));
        // the loop looks at the buffer before each read and stops when 16 KiB are buffered: a hello ending in
        // the last KiB of a stream that fills the buffer is found or not depending on how the reads fall (the
        // property allows "absent" there); everything else is decided by the bytes alone
        if over.is_none() && class != "fragmented" && h.len() > 15 * 1024 && stream.len() >= 16 * 1024 {
            ctx.stat("loop_skipped_timing_dependent");
            continue;
        }
        let n = stream.len();
        let mut cuts: Vec<usize> = match i % 4 {
            // a hello that arrives in many small segments (more reads than the prebuffer has kilobytes)
            0 if n < 1500 => (1..n / 24).map(|k| k * 24).collect(),
            0 => vec![],
            1 => vec![ctx.rng.below(n as u64) as usize],
            2 => vec![5.min(n), 9.min(n), 43.min(n), 44.min(n)],
            _ => (0..ctx.rng.range(2, 6)).map(|_| ctx.rng.below(n as u64 + 1) as usize).collect(),
        };
        if let Some((_, c, _)) = &over {
            cuts = c.iter().map(|x| (*x).min(n)).collect();
        }
        cuts.sort();
        let read_sizes: Vec<usize> = match i % 3 {
            0 => vec![],
            1 => vec![1, 7, 4096],
            _ => vec![17],
        };
        let s2 = stream.clone();
        let c2 = cuts.clone();
        let res = rt.block_on(async move {
            let l = tokio::net::TcpListener::bind("127.0.0.1:0").await.unwrap();
            let addr = l.local_addr().unwrap();
            let writer = tokio::spawn(async move {
                use tokio::io::AsyncWriteExt;
                let mut s = tokio::net::TcpStream::connect(addr).await.unwrap();
                s.set_nodelay(true).unwrap();
                let mut prev = 0;
                for c in c2 {
                    s.write_all(&s2[prev..c]).await.unwrap();
                    s.flush().await.unwrap();
                    prev = c;
                    tokio::time::sleep(std::time::Duration::from_millis(3)).await;
                }
                s.write_all(&s2[prev..]).await.unwrap();
                s.shutdown().await.unwrap();
            });
            let (srv, _) = l.accept().await.unwrap();
            let r = tokio::time::timeout(std::time::Duration::from_secs(5), verif::read_client_random_and_replay(srv, read_sizes)).await;
            let _ = writer.await;
            r
        });
        match res {
            Ok(Ok((random, pre_len, replay))) => {
                if std::env::var("C12_DEBUG").is_ok() && stream.len() > 15000 {
                    eprintln!("loop: class {} hello {} stream {} cuts {:?} -> random {:?} prebuffer {}", class, h.len(), stream.len(), cuts, random.as_ref().map(|r| r.len()), pre_len);
                }
                if replay != stream {
                    ctx.oracle_failure("replay_not_transparent", &format!(
                        "sent {} bytes in segments cut at {:?}; wrapped stream yielded {} bytes (first difference at {:?}), prebuffer {}",
                        stream.len(), cuts, replay.len(), replay.iter().zip(stream.iter()).position(|(a, b)| a != b), pre_len));
                }
                if let (Some(r), Some(t)) = (&random, truth) {
                    if r != t {
                        ctx.oracle_failure("wrong_random", &format!("read loop returned {} for a hello whose random is {}", hex(r), hex(t)));
                    }
                }
                if let (Some(r), None) = (&random, truth) {
                    ctx.oracle_failure("wrong_random", &format!("read loop returned {} for a fragmented hello (must be absent)", hex(r)));
                }
                if over.is_some() {
                    // (found or absent is the reads' business here; the replay was checked above)
                    ctx.stat("loop_oversized_first_flight");
                    continue;
                }
                let ans = match &random {
                    Some(r) => format!("some {}", hex(r)),
                    None => "none".into(),
                };
                ctx.emit(&format!("c12 loop {}", hex(&stream)), &ans);
                ctx.stat(&format!("loop_{}", if random.is_some() { "found" } else { "absent" }));
            }
            Ok(Err(e)) => ctx.oracle_failure("loop_error", &format!("read loop failed: {}", e)),
            Err(_) => ctx.oracle_failure("loop_stalled", "read loop did not finish in 5 s"),
        }
    }
}
