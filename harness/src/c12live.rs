//! C12 (live part): the real `Core::listen` (TCP + QUIC) on a loopback port. rustls clients whose
//! ClientHello is delivered in chosen TCP segments, and quiche clients over QUIC, complete their
//! handshakes and are served; the client random the endpoint handed to its connection rules
//! (recorded by the door) must be the one of the client's handshake.
use crate::c02h3::{plain_hosts, LiveEndpoint};
use crate::common::*;
use crate::h3cli::H3Client;
use std::io::{Read, Write};
use std::net::{SocketAddr, TcpStream};
use std::sync::{Arc, Mutex};
use std::time::{Duration, Instant};
use trusttunnel::core::Core;
use trusttunnel::settings::*;
use trusttunnel::shutdown::Shutdown;
use trusttunnel::verif;

fn make_core(addr: SocketAddr) -> Core {
    let settings = Settings::builder()
        .listen_address(addr)
        .unwrap()
        .listen_protocols(ListenProtocolSettings {
            http1: Some(Http1Settings::builder().build()),
            http2: Some(Http2Settings::builder().build()),
            quic: Some(QuicSettings::builder().build()),
        })
        .build()
        .unwrap();
    Core::new(settings, None, plain_hosts(), Shutdown::new()).unwrap()
}

/// a TCP stream that records what is written and delivers the first `cuts` pieces as separate segments
struct Seg {
    s: TcpStream,
    sent: Arc<Mutex<Vec<u8>>>,
    cuts: Vec<usize>,
    off: usize,
    /// pause after each cut (the next segment is late: a retransmission, a slow link)
    pause_ms: u64,
}

impl Write for Seg {
    fn write(&mut self, buf: &[u8]) -> std::io::Result<usize> {
        // up to the next cut
        let next = self.cuts.iter().find(|c| **c > self.off).cloned();
        let n = match next {
            Some(c) => (c - self.off).min(buf.len()),
            None => buf.len(),
        };
        let w = self.s.write(&buf[..n])?;
        self.sent.lock().unwrap().extend_from_slice(&buf[..w]);
        self.off += w;
        if next.is_some() {
            let _ = self.s.flush();
            std::thread::sleep(Duration::from_millis(self.pause_ms));
        }
        Ok(w)
    }
    fn flush(&mut self) -> std::io::Result<()> {
        self.s.flush()
    }
}

impl Read for Seg {
    fn read(&mut self, buf: &mut [u8]) -> std::io::Result<usize> {
        self.s.read(buf)
    }
}

struct NoVerify;
impl rustls::client::ServerCertVerifier for NoVerify {
    fn verify_server_cert(
        &self,
        _: &rustls::Certificate,
        _: &[rustls::Certificate],
        _: &rustls::ServerName,
        _: &mut dyn Iterator<Item = &[u8]>,
        _: &[u8],
        _: std::time::SystemTime,
    ) -> Result<rustls::client::ServerCertVerified, rustls::Error> {
        Ok(rustls::client::ServerCertVerified::assertion())
    }
}

fn wait_rule_input(before: usize) -> Option<(Option<std::net::IpAddr>, Option<Vec<u8>>)> {
    let t0 = Instant::now();
    loop {
        {
            let st = verif::hooks::STATE.lock().unwrap();
            if st.rule_inputs.len() > before {
                return Some(st.rule_inputs[before].clone());
            }
        }
        if t0.elapsed() > Duration::from_secs(2) {
            return None;
        }
        std::thread::sleep(Duration::from_millis(2));
    }
}

pub fn run(ctx: &mut Ctx) {
    quiet_panics();
    let Some(ep) = LiveEndpoint::start(make_core) else {
        ctx.notes.push("c12live: the endpoint's listener did not come up on loopback; nothing was run".to_string());
        return;
    };
    verif::hooks::reset();
    // ---- TCP: segmentations of a real ClientHello ----------------------------------------------------------------
    let mut cut_sets: Vec<Vec<usize>> = vec![vec![], vec![1], vec![5], vec![6], vec![9], vec![11], vec![12], vec![42], vec![43], vec![44], vec![5, 43], vec![100], vec![200]];
    cut_sets.push((1..64).collect());
    let extra = if ctx.thorough() { 60 } else { 8 };
    for _ in 0..extra {
        let n = ctx.rng.range(1, 4);
        let mut c: Vec<usize> = (0..n).map(|_| 1 + ctx.rng.below(230) as usize).collect();
        c.sort();
        c.dedup();
        cut_sets.push(c);
    }
    // (segments, pause between them): mostly back to back; some with the next segment several hundred milliseconds late -
    // well within the handshake timeout, so the random is still the hello's
    let mut cut_sets: Vec<(Vec<usize>, u64)> = cut_sets.into_iter().map(|c| (c, 3)).collect();
    for (c, p) in [(vec![60usize], 400u64), (vec![5], 300), (vec![1], 250), (vec![100, 200], 300), (vec![43], 700)] {
        cut_sets.push((c, p));
    }
    for (cuts, pause_ms) in cut_sets {
        for alpn in [&b"http/1.1"[..], &b"h2"[..]] {
            if pause_ms > 3 && alpn == b"h2" {
                continue;
            }
            let desc = format!(
                "rustls client (ALPN {}) whose ClientHello is delivered in TCP segments cut at {:?}{}",
                String::from_utf8_lossy(alpn),
                if cuts.len() > 8 { &cuts[..8] } else { &cuts[..] },
                if pause_ms > 3 { format!(", each following segment {} ms late", pause_ms) } else { String::new() }
            );
            ctx.stat("live_tcp_handshakes");
            let before = verif::hooks::STATE.lock().unwrap().rule_inputs.len();
            let mut config = rustls::ClientConfig::builder().with_safe_defaults().with_custom_certificate_verifier(Arc::new(NoVerify)).with_no_client_auth();
            config.alpn_protocols.push(alpn.to_vec());
            let mut conn = rustls::ClientConnection::new(Arc::new(config), "localhost".try_into().unwrap()).unwrap();
            let Ok(s) = TcpStream::connect(ep.addr) else {
                ctx.oracle_failure("connect_failed", &desc);
                continue;
            };
            let _ = s.set_nodelay(true);
            let _ = s.set_read_timeout(Some(Duration::from_secs(3)));
            let sent = Arc::new(Mutex::new(vec![]));
            let mut seg = Seg { s, sent: sent.clone(), cuts: cuts.clone(), off: 0, pause_ms };
            let mut ok = true;
            while conn.is_handshaking() {
                if let Err(e) = conn.complete_io(&mut seg) {
                    ctx.oracle_failure("handshake_failed", &format!("{}: the TLS handshake did not complete ({}): the endpoint did not proceed on the bytes the client sent", desc, e));
                    ok = false;
                    break;
                }
            }
            if !ok {
                continue;
            }
            let hello = sent.lock().unwrap().clone();
            if hello.len() < 43 || hello[0] != 22 || hello[5] != 1 {
                ctx.oracle_failure("harness", &format!("{}: could not locate the ClientHello in what was sent", desc));
                continue;
            }
            let truth = hello[11..43].to_vec();
            match wait_rule_input(before) {
                None => ctx.oracle_failure("no_rule_input", &format!("{}: the handshake completed but the connection rules were never consulted", desc)),
                Some((_, None)) => ctx.oracle_failure("random_absent", &format!("{}: the client random was reported absent for a well-formed ClientHello (random {})", desc, hex(&truth))),
                Some((_, Some(r))) if r != truth => ctx.oracle_failure("wrong_random", &format!("{}: the rules were given client random {}, the ClientHello carried {}", desc, hex(&r), hex(&truth))),
                Some(_) => {}
            }
            // the connection is usable: a health check over HTTP/1.1 (for h2 the completed handshake is enough)
            if alpn == b"http/1.1" {
                let mut tls = rustls::Stream::new(&mut conn, &mut seg);
                let _ = tls.write_all(b"CONNECT _check HTTP/1.1\r\nHost: _check\r\n\r\n");
                let mut got = vec![];
                let mut buf = [0u8; 512];
                let t0 = Instant::now();
                while !got.windows(4).any(|w| w == b"\r\n\r\n") && t0.elapsed() < Duration::from_secs(2) {
                    match tls.read(&mut buf) {
                        Ok(0) | Err(_) => break,
                        Ok(n) => got.extend_from_slice(&buf[..n]),
                    }
                }
                if !got.starts_with(b"HTTP/1.1 200") {
                    ctx.oracle_failure("not_served", &format!("{}: the health check after the handshake was answered {:?}", desc, String::from_utf8_lossy(&got)));
                }
            }
        }
    }
    // ---- TCP: a ClientHello whose handshake message is spread over two TLS records (legal TLS, the server side
    // of the handshake reassembles it; the endpoint's own look at the first bytes may not be able to determine the
    // random): the rules must then be given the true random or none at all - never some other value --------------
    let frag_points: Vec<usize> = if ctx.thorough() { vec![1, 3, 4, 5, 6, 7, 20, 37, 38, 39, 40, 70, 71, 100, 150] } else { vec![1, 4, 6, 20, 38, 39, 100] };
    for k in frag_points {
        for alpn in [&b"http/1.1"[..], &b"h2"[..]] {
            let desc = format!("rustls client (ALPN {}) whose ClientHello message is split over two TLS records after {} bytes", String::from_utf8_lossy(alpn), k);
            ctx.stat("live_tcp_fragmented_hellos");
            let before = verif::hooks::STATE.lock().unwrap().rule_inputs.len();
            let mut config = rustls::ClientConfig::builder().with_safe_defaults().with_custom_certificate_verifier(Arc::new(NoVerify)).with_no_client_auth();
            config.alpn_protocols.push(alpn.to_vec());
            let mut conn = rustls::ClientConnection::new(Arc::new(config), "localhost".try_into().unwrap()).unwrap();
            let mut hello = vec![];
            while conn.wants_write() {
                if conn.write_tls(&mut hello).is_err() {
                    break;
                }
            }
            if hello.len() < 48 || hello[0] != 22 || hello[5] != 1 || 5 + u16::from_be_bytes([hello[3], hello[4]]) as usize != hello.len() || k >= hello.len() - 5 {
                ctx.oracle_failure("harness", &format!("{}: unexpected shape of the client's first flight", desc));
                continue;
            }
            let truth = hello[11..43].to_vec();
            let body = &hello[5..];
            let mut framed = vec![];
            for part in [&body[..k], &body[k..]] {
                framed.extend_from_slice(&[22, hello[1], hello[2]]);
                framed.extend_from_slice(&(part.len() as u16).to_be_bytes());
                framed.extend_from_slice(part);
            }
            let Ok(mut s) = TcpStream::connect(ep.addr) else {
                ctx.oracle_failure("connect_failed", &desc);
                continue;
            };
            let _ = s.set_nodelay(true);
            let _ = s.set_read_timeout(Some(Duration::from_secs(3)));
            if s.write_all(&framed).is_err() {
                ctx.oracle_failure("connect_failed", &desc);
                continue;
            }
            let mut ok = true;
            while conn.is_handshaking() {
                if let Err(e) = conn.complete_io(&mut s) {
                    // refusing such a hello outright is not what this property is about; what the rules were given is
                    ctx.stat("live_tcp_fragmented_hello_refused");
                    ctx.notes.push(format!("{}: handshake not completed ({})", desc, e));
                    ok = false;
                    break;
                }
            }
            match wait_rule_input(before) {
                None if ok => ctx.oracle_failure("no_rule_input", &format!("{}: the handshake completed but the connection rules were never consulted", desc)),
                None => {}
                Some((_, None)) => ctx.stat("live_tcp_fragmented_hello_random_absent"),
                Some((_, Some(r))) if r != truth => ctx.oracle_failure(
                    "wrong_random",
                    &format!("{}: the rules were given client random [{}] ({} bytes), the ClientHello carried {}; a random that cannot be determined must be reported absent", desc, hex(&r), r.len(), hex(&truth)),
                ),
                Some(_) => ctx.stat("live_tcp_fragmented_hello_random_exact"),
            }
        }
    }
    // ---- QUIC: the value is the one of the completed handshake ---------------------------------------------------
    let n_quic = if ctx.thorough() { 42 } else { 9 };
    for k in 0..n_quic {
        ctx.stat("live_quic_handshakes");
        let before = verif::hooks::STATE.lock().unwrap().rule_inputs.len();
        let window = if k % 2 == 0 { 1 << 20 } else { 4096 };
        // every third connection names a host the endpoint does not know, every third none at all (both are served with
        // the first main host's certificate on QUIC): the random is the handshake's whatever the SNI
        let sni = match k % 3 {
            0 => Some("localhost"),
            1 => Some("unknown.verif.test"),
            _ => None,
        };
        // every other hello does not fit one Initial packet (eight 200-byte ALPN identifiers behind h3, about 2 KiB of
        // CRYPTO data): the TLS stack has not seen the whole hello when the first packet was fed to it
        let filler: Vec<Vec<u8>> = (0..8).map(|i| vec![b'a' + i as u8; 200]).collect();
        let mut alpn: Vec<&[u8]> = vec![b"h3"];
        if k % 2 == 1 {
            alpn.extend(filler.iter().map(|v| v.as_slice()));
            ctx.stat("live_quic_hello_in_two_packets");
        }
        let mut cl = match H3Client::connect(ep.addr, sni, &alpn, window, Duration::from_secs(3)) {
            Ok(c) => c,
            Err(e) => {
                ctx.oracle_failure("quic_handshake_failed", &format!("{:?}", e));
                continue;
            }
        };
        let truth = cl.client_random();
        // the endpoint evaluates its rules when it accepts the established connection
        let id = cl.request("CONNECT", None, "_check", None, &[], false);
        cl.wait(Duration::from_secs(2), |c| id.and_then(|i| c.streams.get(&i)).map(|s| s.status.is_some()).unwrap_or(false));
        let status = id.map(|i| cl.stream(i).status).unwrap_or(None);
        let desc = format!("quiche client #{} with SNI {:?}{} (handshake random {})", k, sni, if k % 2 == 1 { ", hello of about 2 KiB in two Initial packets" } else { "" }, hex(&truth));
        match wait_rule_input(before) {
            None => ctx.oracle_failure("no_rule_input", &format!("{}: the handshake completed but the connection rules were never consulted", desc)),
            Some((_, None)) => ctx.oracle_failure("random_absent", &format!("{}: the client random was reported absent on QUIC", desc)),
            Some((_, Some(r))) if r != truth => ctx.oracle_failure("wrong_random", &format!("{}: the rules were given client random {}", desc, hex(&r))),
            Some(_) => {}
        }
        if status != Some(200) {
            ctx.oracle_failure("not_served", &format!("{}: the health check after the handshake was answered {:?}", desc, status));
        }
        cl.close();
    }
    verif::hooks::reset();
}
