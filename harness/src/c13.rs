//! C13: credentials and settings mean what the files say
use crate::common::*;
use base64::Engine;
use std::io::Write;
use std::net::SocketAddr;
use trusttunnel::authentication::registry_based::{Client, RegistryBasedAuthenticator};
use trusttunnel::authentication::{Authenticator, Source, Status};
use trusttunnel::core::Core;
use trusttunnel::log_utils::IdChain;
use trusttunnel::settings::{Settings, TlsHostInfo, TlsHostsSettings};
use trusttunnel::shutdown::Shutdown;

fn is_ctl(c: char) -> bool {
    ((c as u32) < 0x20 && c != '\t') || c as u32 == 0x7f
}

/// canonical basic string (mirror of the Lean `encodeBasic`)
fn enc_basic(s: &str) -> String {
    let mut o = String::from("\"");
    for c in s.chars() {
        match c {
            '"' => o.push_str("\\\""),
            '\\' => o.push_str("\\\\"),
            c if is_ctl(c) => o.push_str(&format!("\\u{:04x}", c as u32)),
            c => o.push(c),
        }
    }
    o.push('"');
    o
}

/// every lexeme style able to express `s`
fn lexemes_for(ctx: &mut Ctx, s: &str) -> Vec<String> {
    let mut v = vec![enc_basic(s)];
    if !s.contains('\'') && !s.chars().any(is_ctl) {
        v.push(format!("'{}'", s));
    }
    // every character as \uXXXX / \UXXXXXXXX
    let mut all_u = String::from("\"");
    for c in s.chars() {
        if (c as u32) < 0x10000 && ctx.rng.chance(1, 2) {
            all_u.push_str(&format!("\\u{:04X}", c as u32));
        } else {
            all_u.push_str(&format!("\\U{:08x}", c as u32));
        }
    }
    all_u.push('"');
    v.push(all_u);
    // short escapes where available
    let mut short = String::from("\"");
    for c in s.chars() {
        match c {
            '\u{8}' => short.push_str("\\b"),
            '\t' => short.push_str("\\t"),
            '\n' => short.push_str("\\n"),
            '\u{c}' => short.push_str("\\f"),
            '\r' => short.push_str("\\r"),
            '"' => short.push_str("\\\""),
            '\\' => short.push_str("\\\\"),
            c if is_ctl(c) => short.push_str(&format!("\\u{:04x}", c as u32)),
            c => short.push(c),
        }
    }
    short.push('"');
    v.push(short);
    v.dedup();
    v
}

fn gen_value(ctx: &mut Ctx) -> String {
    let alphabet: Vec<char> = "abZ09 \"'\\#=[]\t\n\r\u{8}\u{c}\u{7f}\u{1}\u{e9}\u{4e16}\u{1F600}:.".chars().collect();
    let n = match ctx.rng.below(6) {
        0 => 1,
        1 => 2,
        _ => ctx.rng.range(1, 12),
    };
    let mut s: String = (0..n).map(|_| *ctx.rng.pick(&alphabet)).collect();
    if ctx.rng.chance(1, 6) {
        s = format!(" {} ", s);
    }
    s
}

fn write_file(dir: &std::path::Path, name: &str, content: &str) -> String {
    let p = dir.join(name);
    std::fs::File::create(&p).unwrap().write_all(content.as_bytes()).unwrap();
    p.display().to_string()
}

fn settings_toml(listen: &str, creds: Option<&str>, protos: (bool, bool, bool), rp: Option<(String, String)>) -> String {
    let mut t = format!("listen_address = \"{}\"\n", listen);
    if let Some(c) = creds {
        t.push_str(&format!("credentials_file = \"{}\"\n", c));
    }
    if let Some((addr, mask)) = rp {
        t.push_str(&format!("[reverse_proxy]\nserver_address = \"{}\"\npath_mask = {}\n", addr, enc_basic(&mask)));
    }
    t.push_str("[listen_protocols]\n");
    if protos.0 {
        t.push_str("[listen_protocols.http1]\n");
    }
    if protos.1 {
        t.push_str("[listen_protocols.http2]\n");
    }
    if protos.2 {
        t.push_str("[listen_protocols.quic]\n");
    }
    t
}

fn hosts() -> TlsHostsSettings {
    TlsHostsSettings::builder()
        .main_hosts(vec![TlsHostInfo {
            hostname: "localhost".into(),
            cert_chain_path: FIXTURE_PEM.into(),
            private_key_path: FIXTURE_PEM.into(),
            allowed_sni: vec![],
        }])
        .build()
        .unwrap()
}

fn read_clients(dir: &std::path::Path, creds_content: &str) -> Option<Vec<(String, String)>> {
    let cp = write_file(dir, "creds.toml", creds_content);
    let st = settings_toml("127.0.0.1:1", Some(&cp), (true, false, false), None);
    match toml::from_str::<Settings>(&st) {
        Ok(s) => Some(s.get_clients().iter().map(|c| (c.username.clone(), c.password.clone())).collect()),
        Err(_) => None,
    }
}

pub fn run(ctx: &mut Ctx) {
    let dir = std::env::temp_dir().join(format!("tt_c13_{}", std::process::id()));
    std::fs::create_dir_all(&dir).unwrap();
    let n_vals = if ctx.thorough() { 4000 } else { 500 };

    // ---- (a) lexemes -> accepted pairs ------------------------------------------------------------
    let bad_lexemes = [
        "\"a\\qb\"", "\"\\ud800\"", "\"\\U00110000\"", "\"a\u{1}b\"", "'a\u{1}b'", "\"unterminated", "'unterminated", "\"a\"b\"",
        "'a'b'", "\"\\u12\"", "\"\\\"", "\"\"", "''", "5", "true", "[\"a\"]", "{ a = 1 }", "1979-05-27",
    ];
    let mut pairs: Vec<(String, String)> = vec![]; // (user lexeme, pass lexeme)
    for _ in 0..n_vals {
        let u = gen_value(ctx);
        let p = gen_value(ctx);
        let ul = lexemes_for(ctx, &u);
        let pl = lexemes_for(ctx, &p);
        pairs.push((ctx.rng.pick(&ul).clone(), ctx.rng.pick(&pl).clone()));
    }
    for b in bad_lexemes {
        pairs.push((b.to_string(), "\"pw\"".to_string()));
        pairs.push(("\"user\"".to_string(), b.to_string()));
    }
    for (ul, pl) in &pairs {
        let content = format!("[[client]]\nusername = {}\npassword = {}\n", ul, pl);
        let got = read_clients(&dir, &content);
        let ans = match &got {
            Some(v) if v.len() == 1 => format!("ok {} {}", hex(v[0].0.as_bytes()), hex(v[0].1.as_bytes())),
            Some(v) => format!("clients={}", v.len()),
            None => "rejected".into(),
        };
        ctx.stat(if got.is_some() { "file_accepted" } else { "file_rejected" });
        ctx.emit(&format!("c13 client {} {}", hex(ul.as_bytes()), hex(pl.as_bytes())), &ans);
    }
    // missing keys
    for content in ["[[client]]\nusername = \"u\"\n", "[[client]]\npassword = \"p\"\n", "[[client]]\n"] {
        let got = read_clients(&dir, content);
        if got.is_some() {
            ctx.oracle_failure("missing_key_accepted", &format!("credentials file {:?} accepted as {:?}", content, got));
        }
        ctx.stat("missing_key");
    }

    // ---- (b) registry verdicts, (c) client export, (d) wizard round trip ------------------------------
    let n_reg = if ctx.thorough() { 600 } else { 80 };
    let id = IdChain::empty();
    for _ in 0..n_reg {
        let n = ctx.rng.range(1, 4);
        let mut clients: Vec<(String, String)> = vec![];
        for _ in 0..n {
            let u = gen_value(ctx);
            if clients.iter().any(|(x, _)| *x == u) {
                continue;
            }
            clients.push((u, gen_value(ctx)));
        }
        // the same user name written again right behind itself with another password (a password being rotated): both
        // pairs are written, both are accepted
        if ctx.rng.chance(1, 3) && !clients.is_empty() {
            let k = ctx.rng.below(clients.len() as u64) as usize;
            let again = (clients[k].0.clone(), format!("{}-new", gen_value(ctx)));
            clients.insert(k + 1, again);
            ctx.stat("user_lists_with_a_repeated_user");
        }
        // near-duplicate user names (letter case, surrounding blanks, a prefix): different users
        if ctx.rng.below(2) == 0 {
            let base = if ctx.rng.below(2) == 0 { clients[0].0.clone() } else { "Alice".to_string() };
            let variants = [
                base.to_uppercase(),
                base.to_lowercase(),
                format!("{} ", base),
                format!(" {}", base),
                format!("{}x", base),
                base.chars().map(|c| if c.is_ascii_lowercase() { c.to_ascii_uppercase() } else { c.to_ascii_lowercase() }).collect(),
                base.clone(),
            ];
            for v in variants {
                if ctx.rng.below(2) == 0 && !clients.iter().any(|(x, _)| *x == v) {
                    let at = ctx.rng.below(clients.len() as u64 + 1) as usize;
                    let pw = gen_value(ctx);
                    clients.insert(at, (v, pw));
                }
            }
            ctx.stat("near_duplicate_user_lists");
        }
        // the wizard's own composer -> file -> endpoint
        let content = crate::gen_wizard::compose_credentials_content(clients.iter().cloned());
        let got = read_clients(&dir, &content);
        if got.as_ref() != Some(&clients) {
            ctx.oracle_failure("wizard_roundtrip", &format!("wizard wrote {:?} for {:?}; endpoint read {:?}", content, clients, got));
            continue;
        }
        ctx.stat("wizard_roundtrip_ok");
        let got = got.unwrap();
        let registry = RegistryBasedAuthenticator::new(
            &got.iter().map(|(u, p)| Client { username: u.clone(), password: p.clone() }).collect::<Vec<_>>(),
        );
        let b64 = |s: &str| base64::engine::general_purpose::STANDARD.encode(s.as_bytes());
        let mut tokens: Vec<String> = vec![];
        for (u, p) in &clients {
            tokens.push(b64(&format!("{}:{}", u, p)));
            tokens.push(b64(&format!("{}:{}x", u, p)));
            tokens.push(b64(&format!("{}:", u)));
            tokens.push(b64(&format!("{}{}", u, p)));
            tokens.push(b64(&format!("{}:{}", u, p)).trim_end_matches('=').to_string());
            tokens.push(b64(&format!("{}:{}", u, p)).to_lowercase());
            tokens.push(format!("{}:{}", u, p));
        }
        if clients.len() >= 2 {
            tokens.push(b64(&format!("{}:{}", clients[0].0, clients[1].1)));
        }
        tokens.push(String::new());
        let mut ctok = format!("{}", clients.len());
        for (u, p) in &clients {
            ctok.push_str(&format!(" {} {}", hex(u.as_bytes()), hex(p.as_bytes())));
        }
        for t in &tokens {
            let v = registry.authenticate(&Source::ProxyBasic(t.clone().into()), &id);
            ctx.emit(&format!("c13 auth {} {}", ctok, hex(t.as_bytes())), if v == Status::Pass { "pass" } else { "reject" });
            ctx.stat(if v == Status::Pass { "registry_pass" } else { "registry_reject" });
            // an SNI source is never accepted by the registry
            if registry.authenticate(&Source::Sni(t.clone().into()), &id) == Status::Pass {
                ctx.oracle_failure("sni_accepted_by_registry", t);
            }
        }
        // exported client configuration of every client carries that client's own pair (the export is asked for by user
        // name: of a name written twice it can only mean one pair, and which one the property does not say)
        for (wi, wanted) in clients.iter().enumerate() {
            if clients.iter().enumerate().any(|(k, c)| k != wi && c.0 == wanted.0) {
                continue;
            }
            let cfg = trusttunnel::client_config::build(
                &wanted.0,
                vec!["192.0.2.2:443".parse::<SocketAddr>().unwrap()],
                &got.iter().map(|(u, p)| Client { username: u.clone(), password: p.clone() }).collect::<Vec<_>>(),
                &hosts(),
            )
            .compose_toml();
            match cfg.parse::<toml::Value>() {
                Ok(v) => {
                    let u = v.get("username").and_then(|x| x.as_str()).map(String::from);
                    let p = v.get("password").and_then(|x| x.as_str()).map(String::from);
                    if u.as_deref() != Some(&wanted.0) || p.as_deref() != Some(&wanted.1) {
                        ctx.oracle_failure(
                            "export_differs",
                            &format!("exported {:?}/{:?} for client {:?} of the credentials {:?}", u, p, wanted, clients),
                        );
                    }
                    ctx.stat("export_ok");
                }
                Err(e) => ctx.oracle_failure("export_unparsable", &e.to_string()),
            }
        }
    }

    // ---- (e) start-up refusals ---------------------------------------------------------------------------
    let creds_one = write_file(&dir, "one.toml", "[[client]]\nusername = \"u\"\npassword = \"p\"\n");
    let creds_none = write_file(&dir, "none.toml", "client = []\n");
    let _ = creds_none;
    for listen in ["0.0.0.0:0", "[::]:0", "0.0.0.0:443", "127.0.0.1:443", "[::1]:8443", "192.0.2.2:443", "127.0.0.1:0"] {
        for with_clients in [false, true] {
            for protos in [(false, false, false), (true, false, false), (false, true, false), (false, false, true), (true, true, true)] {
                let rps: Vec<Option<(String, String)>> = vec![
                    None,
                    Some(("127.0.0.1:8080".into(), "/rp".into())),
                    Some(("127.0.0.1:0".into(), "/rp".into())),
                    Some(("127.0.0.1:8080".into(), "".into())),
                    Some(("127.0.0.1:8080".into(), "rp".into())),
                    Some(("127.0.0.1:8080".into(), "/".into())),
                ];
                for rp in rps {
                    let st = settings_toml(listen, if with_clients { Some(&creds_one) } else { None }, protos, rp.clone());
                    let addr: SocketAddr = listen.parse().unwrap();
                    let verdict = match toml::from_str::<Settings>(&st) {
                        Err(e) => format!("unparsed {}", e.to_string().lines().next().unwrap_or("")),
                        Ok(s) => match Core::new(s, None, hosts(), Shutdown::new()) {
                            Ok(_) => "ok".to_string(),
                            Err(_) => "err".to_string(),
                        },
                    };
                    if verdict.starts_with("unparsed") {
                        ctx.oracle_failure("settings_unparsed", &format!("{} :: {}", st.replace('\n', "\\n"), verdict));
                        continue;
                    }
                    let rptok = match &rp {
                        None => "none".to_string(),
                        Some((a, m)) => format!("{} {}", a.parse::<SocketAddr>().unwrap().port(), hex(m.as_bytes())),
                    };
                    ctx.emit(
                        &format!(
                            "c13 validate {} {} {} {} {} {} {} {}",
                            addr.ip().is_unspecified() as u8,
                            addr.port(),
                            addr.ip().is_loopback() as u8,
                            protos.0 as u8,
                            protos.1 as u8,
                            protos.2 as u8,
                            with_clients as u8,
                            rptok
                        ),
                        &verdict,
                    );
                    ctx.stat(&format!("startup_{}", verdict));
                }
            }
        }
    }
    // ---- keys left out of a settings file get the values a built configuration has (the documented defaults): the two are
    // written back as TOML and compared key by key, section by section -------------------------------------------------------
    {
        use trusttunnel::settings::*;
        let minimal = "listen_address = \"127.0.0.1:1\"\n[listen_protocols]\n[listen_protocols.http1]\n[listen_protocols.http2]\n[listen_protocols.quic]\n[icmp]\n[metrics]\n";
        let built = Settings::builder()
            .listen_address(("127.0.0.1", 1))
            .unwrap()
            .listen_protocols(ListenProtocolSettings {
                http1: Some(Http1Settings::builder().build()),
                http2: Some(Http2Settings::builder().build()),
                quic: Some(QuicSettings::builder().build()),
            })
            // (the builder of the ICMP section starts from an empty interface name; the file's default is the documented one)
            .icmp(IcmpSettings::builder().interface_name(IcmpSettings::default_interface_name()).build().unwrap())
            .metrics(MetricsSettings::builder().build().unwrap())
            .build();
        match (toml::from_str::<Settings>(minimal), built) {
            (Ok(from_file), Ok(built)) => match (toml::to_string(&from_file), toml::to_string(&built)) {
                (Ok(a), Ok(b)) => {
                    let (la, lb): (Vec<&str>, Vec<&str>) = (a.lines().collect(), b.lines().collect());
                    let diff: Vec<String> = la.iter().filter(|l| !lb.contains(l)).map(|l| format!("file: {}", l)).chain(lb.iter().filter(|l| !la.contains(l)).map(|l| format!("default: {}", l))).collect();
                    if !diff.is_empty() {
                        ctx.oracle_failure("settings_file_defaults", &format!("a settings file that leaves every optional key out does not mean the documented defaults: {}", diff.join(" | ")));
                    }
                    ctx.stat_add("settings_defaults_compared_keys", la.len() as u64);
                }
                (a, b) => ctx.notes.push(format!("settings could not be written back as TOML ({:?} / {:?}): defaults not compared", a.err().map(|e| e.to_string()), b.err().map(|e| e.to_string()))),
            },
            (a, b) => ctx.oracle_failure("settings_file_defaults", &format!("minimal settings file: read {:?}, built {:?}", a.err().map(|e| e.to_string()), b.err().map(|e| format!("{:?}", e)))),
        }
    }
    // ---- every key means the field it names: each integer and boolean key of every section, under each spelling the
    // deserialiser accepts for it (field name, rename, aliases - the table is regenerated from settings.rs on every run),
    // is set in a file; the settings read from it are written back and compared with the defaults: exactly that field moved,
    // to exactly that value. The moved fields are also put to the model's table (`c13 key <struct> <key>`). -------------------
    {
        use trusttunnel::settings::*;
        let minimal = "listen_address = \"127.0.0.1:1\"\n[listen_protocols]\n[listen_protocols.http1]\n[listen_protocols.http2]\n[listen_protocols.quic]\n[icmp]\n[metrics]\n";
        let section = |st: &str| -> Option<Vec<&'static str>> {
            Some(match st {
                "Settings" => vec![],
                "Http1Settings" => vec!["listen_protocols", "http1"],
                "Http2Settings" => vec!["listen_protocols", "http2"],
                "QuicSettings" => vec!["listen_protocols", "quic"],
                "IcmpSettings" => vec!["icmp"],
                "MetricsSettings" => vec!["metrics"],
                _ => return None,
            })
        };
        fn at<'a>(v: &'a toml::Value, path: &[&str]) -> Option<&'a toml::Value> {
            path.iter().try_fold(v, |v, k| v.get(*k))
        }
        fn at_mut<'a>(v: &'a mut toml::Value, path: &[&str]) -> Option<&'a mut toml::Value> {
            path.iter().try_fold(v, |v, k| v.get_mut(*k))
        }
        fn leaves(prefix: &str, v: &toml::Value, out: &mut Vec<(String, String)>) {
            match v {
                toml::Value::Table(t) => {
                    for (k, x) in t {
                        leaves(&if prefix.is_empty() { k.clone() } else { format!("{}.{}", prefix, k) }, x, out);
                    }
                }
                x => out.push((prefix.to_string(), x.to_string())),
            }
        }
        let read_back = |text: &str| -> Result<toml::Value, String> {
            let st = toml::from_str::<Settings>(text).map_err(|e| e.to_string())?;
            let back = toml::to_string(&st).map_err(|e| e.to_string())?;
            back.parse::<toml::Value>().map_err(|e| e.to_string())
        };
        match (read_back(minimal), minimal.parse::<toml::Value>()) {
            (Ok(defaults), Ok(base)) => {
                let mut dl = vec![];
                leaves("", &defaults, &mut dl);
                for (st, field, keys) in crate::gen_settings_keys::SETTINGS_KEYS {
                    let Some(path) = section(st) else {
                        ctx.stat("settings_keys_in_sections_not_tried");
                        continue;
                    };
                    // (the settings are written back under the first key: the field's name or its serde rename)
                    let written = keys[0];
                    let mut fpath = path.clone();
                    fpath.push(written);
                    let new = match at(&defaults, &fpath) {
                        Some(toml::Value::Integer(i)) => toml::Value::Integer(*i + 1),
                        Some(toml::Value::Boolean(b)) => toml::Value::Boolean(!*b),
                        _ => {
                            ctx.stat("settings_keys_not_integer_or_boolean");
                            continue;
                        }
                    };
                    for key in keys.iter() {
                        let mut file = base.clone();
                        match at_mut(&mut file, &path) {
                            Some(toml::Value::Table(t)) => {
                                t.insert(key.to_string(), new.clone());
                            }
                            _ => continue,
                        }
                        let text = toml::to_string(&file).unwrap_or_default();
                        let q = format!("c13 key {} {}", st, key);
                        match read_back(&text) {
                            Err(e) => {
                                // a value the validation refuses: nothing was read
                                ctx.stat("settings_keys_value_refused");
                                ctx.notes.push(format!("settings key {} = {} refused: {}", key, new, e.lines().next().unwrap_or("")));
                            }
                            Ok(got) => {
                                let mut gl = vec![];
                                leaves("", &got, &mut gl);
                                let sec = path.join(".");
                                let moved: Vec<(String, String)> = gl.iter().filter(|x| !dl.contains(x)).cloned().collect();
                                let gone: Vec<&(String, String)> = dl.iter().filter(|x| !gl.iter().any(|y| y.0 == x.0)).collect();
                                // what the file says, read off the key itself (not off the table): the setting of this section that has the
                                // key for its name, or - for a legacy short name - for the tail of its name
                                let named: Vec<String> = dl
                                    .iter()
                                    .filter_map(|(l, _)| if sec.is_empty() { (!l.contains('.')).then(|| l.clone()) } else { l.strip_prefix(&format!("{}.", sec)).map(String::from) })
                                    .filter(|l| !l.contains('.') && (l == key || l.ends_with(&format!("_{}", key))))
                                    .collect();
                                if named.len() != 1 {
                                    ctx.stat("settings_keys_naming_no_single_setting");
                                    ctx.notes.push(format!("settings key {} of [{}] names {:?}: not judged", key, sec, named));
                                    continue;
                                }
                                let want_leaf = if sec.is_empty() { named[0].clone() } else { format!("{}.{}", sec, named[0]) };
                                if moved != vec![(want_leaf.clone(), new.to_string())] || !gone.is_empty() {
                                    ctx.oracle_failure(
                                        "settings_key_meaning",
                                        &format!("a settings file with {} = {} in [{}] (defaults otherwise) was read as {:?}{}; the file says {} = {}", key, new, sec, moved, if gone.is_empty() { String::new() } else { format!(" without {:?}", gone) }, want_leaf, new),
                                    );
                                }
                                // the fields of this section that moved, for the model's table
                                let in_sec: Vec<String> = moved
                                    .iter()
                                    .filter_map(|(l, _)| if sec.is_empty() { (!l.contains('.')).then(|| l.clone()) } else { l.strip_prefix(&format!("{}.", sec)).map(String::from) })
                                    .collect();
                                // (the model's table speaks of fields: a leaf is named by the first key of its field)
                                let in_sec: Vec<String> = in_sec
                                    .iter()
                                    .map(|l| crate::gen_settings_keys::SETTINGS_KEYS.iter().find(|(s2, _, k2)| s2 == st && k2[0] == l.as_str()).map(|(_, f, _)| f.to_string()).unwrap_or(format!("?{}", l)))
                                    .collect();
                                ctx.emit(&q, &if in_sec.is_empty() { "-".to_string() } else { in_sec.join(",") });
                                ctx.stat(if *key == written { "settings_keys_by_name" } else { "settings_keys_by_alias" });
                            }
                        }
                    }
                }
            }
            (a, b) => ctx.notes.push(format!("settings keys not tried: {:?} / {:?}", a.err(), b.err().map(|e| e.to_string()))),
        }
    }
    // TLS hosts: none, duplicate, unloadable
    let garbage = write_file(&dir, "garbage.pem", "not a pem");
    let mk = |name: &str, pem: &str| TlsHostInfo { hostname: name.into(), cert_chain_path: pem.into(), private_key_path: pem.into(), allowed_sni: vec![] };
    let cases: Vec<(&str, Vec<TlsHostInfo>, Vec<TlsHostInfo>, bool)> = vec![
        ("no main host", vec![], vec![], false),
        ("one main host", vec![mk("a", FIXTURE_PEM)], vec![], true),
        ("duplicate main hosts", vec![mk("a", FIXTURE_PEM), mk("a", FIXTURE_PEM)], vec![], false),
        ("main and ping share a name", vec![mk("a", FIXTURE_PEM)], vec![mk("a", FIXTURE_PEM)], false),
        ("unloadable certificate", vec![mk("a", &garbage)], vec![], false),
        ("missing certificate file", vec![mk("a", "/nonexistent.pem")], vec![], false),
    ];
    for (what, main, ping, want_ok) in cases {
        let r = TlsHostsSettings::builder().main_hosts(main).ping_hosts(ping).build();
        if r.is_ok() != want_ok {
            ctx.oracle_failure("tls_hosts_validation", &format!("{}: builder returned ok={}", what, r.is_ok()));
        }
        ctx.stat("tls_hosts_case");
    }
    // every pair of host classes sharing a name, a name twice inside each class, and the unloadable certificate in each class:
    // all refused; the same entries with distinct names: accepted (built settings, and deserialised ones through Core::new)
    let classes = ["main_hosts", "ping_hosts", "speedtest_hosts", "reverse_proxy_hosts"];
    let build = |names: [Vec<(&str, &str)>; 4]| {
        let v = |l: &Vec<(&str, &str)>| l.iter().map(|(n, p)| mk(n, p)).collect::<Vec<_>>();
        TlsHostsSettings::builder().main_hosts(v(&names[0])).ping_hosts(v(&names[1])).speedtest_hosts(v(&names[2])).reverse_proxy_hosts(v(&names[3])).build()
    };
    for a in 0..4 {
        for b in a..4 {
            let mut names: [Vec<(&str, &str)>; 4] = [vec![("m.example", FIXTURE_PEM)], vec![], vec![], vec![]];
            names[a].push(("dup.example", FIXTURE_PEM));
            names[b].push(("dup.example", FIXTURE_PEM));
            if build(names.clone()).is_ok() {
                ctx.oracle_failure("tls_hosts_validation", &format!("host name dup.example configured in {} and in {}: the TLS host settings were accepted", classes[a], classes[b]));
            }
            // control: the same shape with distinct names is fine
            let mut names2: [Vec<(&str, &str)>; 4] = [vec![("m.example", FIXTURE_PEM)], vec![], vec![], vec![]];
            names2[a].push(("one.example", FIXTURE_PEM));
            names2[b].push(("two.example", FIXTURE_PEM));
            if build(names2).is_err() {
                ctx.oracle_failure("tls_hosts_validation", &format!("distinct host names in {} and {} were refused", classes[a], classes[b]));
            }
            // deserialised (not built) settings are validated when the endpoint starts
            let mut t = String::new();
            for (k, l) in names.iter().enumerate() {
                for (n, pem) in l {
                    t.push_str(&format!("[[{}]]\nhostname = \"{}\"\ncert_chain_path = \"{}\"\nprivate_key_path = \"{}\"\n\n", classes[k], n, pem, pem));
                }
            }
            if let Ok(hs) = toml::from_str::<TlsHostsSettings>(&t) {
                let st = Settings::builder()
                    .listen_address(("127.0.0.1", 1))
                    .unwrap()
                    .listen_protocols(trusttunnel::settings::ListenProtocolSettings { http1: Some(trusttunnel::settings::Http1Settings::builder().build()), http2: None, quic: None })
                    .build()
                    .unwrap();
                if Core::new(st, None, hs, Shutdown::new()).is_ok() {
                    ctx.oracle_failure("tls_hosts_validation", &format!("host name dup.example configured in {} and in {} (hosts file): the endpoint started", classes[a], classes[b]));
                }
            }
            ctx.stat("tls_hosts_duplicate_pairs");
        }
    }
    for a in 0..4 {
        let mut names: [Vec<(&str, &str)>; 4] = [vec![("m.example", FIXTURE_PEM)], vec![], vec![], vec![]];
        names[a].push(("bad.example", garbage.as_str()));
        if build(names).is_ok() {
            ctx.oracle_failure("tls_hosts_validation", &format!("an unloadable certificate in {} was accepted", classes[a]));
        }
        ctx.stat("tls_hosts_case");
    }
    // certificate files that cannot be loaded as what they claim to be: a CERTIFICATE block whose body is not base64 (alone,
    // and after a good certificate), a file with the key only, an empty file - in every class, built and through a hosts file
    {
        let good = std::fs::read_to_string(FIXTURE_PEM).unwrap_or_default();
        let key_only: String = {
            let a = good.find("-----BEGIN CERTIFICATE-----");
            let b = good.find("-----END CERTIFICATE-----").map(|x| x + "-----END CERTIFICATE-----".len());
            match (a, b) {
                (Some(a), Some(b)) => format!("{}{}", &good[..a], &good[b..]),
                _ => String::new(),
            }
        };
        let broken_block = "-----BEGIN CERTIFICATE-----\n!!!! this is not base64 !!!!\n-----END CERTIFICATE-----\n";
        let files: Vec<(&str, String)> = vec![
            ("a certificate block that is not base64, with a good key", write_file(&dir, "bad1.pem", &format!("{}{}", key_only, broken_block))),
            ("a good certificate followed by a block that is not base64", write_file(&dir, "bad2.pem", &format!("{}{}", good, broken_block))),
            ("a block that is not base64 followed by a good certificate", write_file(&dir, "bad3.pem", &format!("{}{}", broken_block, good))),
            ("a key and no certificate", write_file(&dir, "bad4.pem", &key_only)),
            ("an empty file", write_file(&dir, "bad5.pem", "")),
        ];
        // the other way round: a file with a good certificate and no key, named as the key file too (a "combined" file)
        {
            let cert_only = {
                let a = good.find("-----BEGIN CERTIFICATE-----");
                let b = good.find("-----END CERTIFICATE-----").map(|x| x + "-----END CERTIFICATE-----".len());
                match (a, b) {
                    (Some(a), Some(b)) => format!("{}\n", &good[a..b]),
                    _ => String::new(),
                }
            };
            let path = write_file(&dir, "certonly.pem", &cert_only);
            for a in 0..4 {
                let mut names: [Vec<(&str, &str)>; 4] = [vec![("m.example", FIXTURE_PEM)], vec![], vec![], vec![]];
                names[a].push(("nokey.example", path.as_str()));
                if build(names.clone()).is_ok() {
                    ctx.oracle_failure("tls_hosts_validation", &format!("a host in {} whose certificate and key paths name one file that holds a certificate and no key: the TLS host settings were accepted", classes[a]));
                }
                let mut t = String::new();
                for (k, l) in names.iter().enumerate() {
                    for (n, pem) in l {
                        t.push_str(&format!("[[{}]]\nhostname = \"{}\"\ncert_chain_path = \"{}\"\nprivate_key_path = \"{}\"\n\n", classes[k], n, pem, pem));
                    }
                }
                if let Ok(hs) = toml::from_str::<TlsHostsSettings>(&t) {
                    let st = Settings::builder()
                        .listen_address(("127.0.0.1", 1))
                        .unwrap()
                        .listen_protocols(trusttunnel::settings::ListenProtocolSettings { http1: Some(trusttunnel::settings::Http1Settings::builder().build()), http2: None, quic: None })
                        .build()
                        .unwrap();
                    if Core::new(st, None, hs, Shutdown::new()).is_ok() {
                        ctx.oracle_failure("tls_hosts_validation", &format!("a host in {} whose certificate and key paths name one file without a key (hosts file): the endpoint started", classes[a]));
                    }
                }
                ctx.stat("tls_hosts_unloadable_key");
            }
        }
        for (what, path) in &files {
            for a in 0..4 {
                let mut names: [Vec<(&str, &str)>; 4] = [vec![("m.example", FIXTURE_PEM)], vec![], vec![], vec![]];
                names[a].push(("bad.example", path.as_str()));
                if build(names.clone()).is_ok() {
                    ctx.oracle_failure("tls_hosts_validation", &format!("a host in {} whose certificate file holds {}: the TLS host settings were accepted", classes[a], what));
                }
                let mut t = String::new();
                for (k, l) in names.iter().enumerate() {
                    for (n, pem) in l {
                        // the key comes from the good file: only the certificate chain is at fault
                        t.push_str(&format!("[[{}]]\nhostname = \"{}\"\ncert_chain_path = \"{}\"\nprivate_key_path = \"{}\"\n\n", classes[k], n, pem, FIXTURE_PEM));
                    }
                }
                if let Ok(hs) = toml::from_str::<TlsHostsSettings>(&t) {
                    let st = Settings::builder()
                        .listen_address(("127.0.0.1", 1))
                        .unwrap()
                        .listen_protocols(trusttunnel::settings::ListenProtocolSettings { http1: Some(trusttunnel::settings::Http1Settings::builder().build()), http2: None, quic: None })
                        .build()
                        .unwrap();
                    if Core::new(st, None, hs, Shutdown::new()).is_ok() {
                        ctx.oracle_failure("tls_hosts_validation", &format!("a host in {} whose certificate file holds {} (hosts file): the endpoint started", classes[a], what));
                    }
                }
                ctx.stat("tls_hosts_unloadable_certificate");
            }
        }
    }
    let _ = std::fs::remove_dir_all(&dir);
}
