//! C14 (TLS handshake part, live): the real `Core::listen` on a loopback port with a short TLS
//! handshake timeout H (wall clock). Clients that stay silent, stop in the middle of their
//! ClientHello, drip it byte by byte, or never answer the server's flight must be dropped around H
//! (not before, and not much later); a client that completes its handshake in time stays connected
//! past H and is served.
use crate::c12;
use crate::common::*;
use std::io::{Read, Write};
use std::net::{SocketAddr, TcpListener, TcpStream};
use std::sync::Arc;
use std::time::{Duration, Instant};
use trusttunnel::core::Core;
use trusttunnel::settings::*;
use trusttunnel::shutdown::Shutdown;

const H_MS: u64 = 600;
/// scheduling slack of a loaded machine
const SLACK_MS: u64 = 1500;

fn free_port() -> u16 {
    TcpListener::bind("127.0.0.1:0").unwrap().local_addr().unwrap().port()
}

fn make_core(addr: SocketAddr) -> Core {
    let settings = Settings::builder()
        .listen_address(addr)
        .unwrap()
        .listen_protocols(ListenProtocolSettings {
            http1: Some(Http1Settings::builder().build()),
            http2: Some(Http2Settings::builder().build()),
            quic: None,
        })
        .tls_handshake_timeout(Duration::from_millis(H_MS))
        .client_listener_timeout(Duration::from_secs(60))
        .build()
        .unwrap();
    let hosts = TlsHostsSettings::builder()
        .main_hosts(vec![TlsHostInfo {
            hostname: "localhost".into(),
            cert_chain_path: FIXTURE_PEM.into(),
            private_key_path: FIXTURE_PEM.into(),
            allowed_sni: vec![],
        }])
        .build()
        .unwrap();
    Core::new(settings, None, hosts, Shutdown::new()).unwrap()
}

/// how long until the server closes (EOF or reset) the connection; `None`: still open after `patience`
fn time_to_close(s: &mut TcpStream, t0: Instant, patience: Duration) -> Option<Duration> {
    let mut buf = [0u8; 4096];
    loop {
        let left = patience.checked_sub(t0.elapsed())?;
        s.set_read_timeout(Some(left.max(Duration::from_millis(1)))).ok()?;
        match s.read(&mut buf) {
            Ok(0) => return Some(t0.elapsed()),
            Ok(_) => continue, // the server's handshake flight
            Err(e) if e.kind() == std::io::ErrorKind::WouldBlock || e.kind() == std::io::ErrorKind::TimedOut => return None,
            Err(_) => return Some(t0.elapsed()),
        }
    }
}

struct NoVerify;
impl rustls::client::ServerCertVerifier for NoVerify {
    fn verify_server_cert(
        &self,
        _: &rustls::Certificate,
        _: &[rustls::Certificate],
        _: &rustls::ServerName,
        _: &mut dyn Iterator<Item = &[u8]>,
        _: &[u8],
        _: std::time::SystemTime,
    ) -> Result<rustls::client::ServerCertVerified, rustls::Error> {
        Ok(rustls::client::ServerCertVerified::assertion())
    }
}

pub fn run(ctx: &mut Ctx) {
    quiet_panics();
    let addr: SocketAddr = ([127, 0, 0, 1], free_port()).into();
    let core = Arc::new(make_core(addr));
    let rt = tokio::runtime::Builder::new_multi_thread().worker_threads(2).enable_all().build().unwrap();
    let c2 = core.clone();
    let server = rt.spawn(async move { c2.listen().await });
    // wait for the listener
    let t0 = Instant::now();
    loop {
        if TcpStream::connect_timeout(&addr, Duration::from_millis(200)).is_ok() {
            break;
        }
        if t0.elapsed() > Duration::from_secs(5) {
            ctx.notes.push("c14live: the endpoint's listener did not come up on loopback; nothing was run".to_string());
            return;
        }
        std::thread::sleep(Duration::from_millis(20));
    }
    ctx.notes.push(format!("TLS handshake timeout H = {} ms (wall clock), a drop is accepted in [H - 30 ms, k*H + {} ms]", H_MS, SLACK_MS));
    let hello = c12::rustls_hello("localhost", &[b"http/1.1"]);
    let patience = Duration::from_millis(3 * H_MS + SLACK_MS + 1500);
    let rounds = if ctx.thorough() { 3 } else { 1 };
    for _ in 0..rounds {
        // (a)-(d): clients that never finish; each in its own thread, all at once
        let kinds = ["silent", "half_hello", "dripping_hello", "hello_then_silent", "garbage_then_silent", "first_record_of_a_fragmented_hello", "other_record_type_then_silent"];
        let mut handles = vec![];
        for kind in kinds {
            let hello = hello.clone();
            handles.push(std::thread::spawn(move || -> (String, Option<Duration>) {
                let mut s = match TcpStream::connect(addr) {
                    Ok(s) => s,
                    Err(_) => return (kind.to_string(), Some(Duration::ZERO)),
                };
                let _ = s.set_nodelay(true);
                let t0 = Instant::now();
                match kind {
                    "silent" => {}
                    "half_hello" => {
                        let _ = s.write_all(&hello[..hello.len() / 2]);
                    }
                    "hello_then_silent" => {
                        let _ = s.write_all(&hello);
                    }
                    "garbage_then_silent" => {
                        let _ = s.write_all(&[22, 3, 1, 0x01]);
                    }
                    "first_record_of_a_fragmented_hello" => {
                        // one complete TLS record that holds the first 32 bytes of the hello's handshake message, then nothing
                        let mut rec = vec![22, hello[1], hello[2], 0, 32];
                        rec.extend_from_slice(&hello[5..37]);
                        let _ = s.write_all(&rec);
                    }
                    "other_record_type_then_silent" => {
                        // a complete record that is not a handshake record (nothing to look for in it), then nothing
                        let _ = s.write_all(&[23, 3, 3, 0, 4, 1, 2, 3, 4]);
                    }
                    _ => {
                        // a byte every 50 ms: never complete within H (the hello has > 100 bytes), always some progress
                        let mut w = s.try_clone().unwrap();
                        let h = hello.clone();
                        std::thread::spawn(move || {
                            for b in h.iter().take(150) {
                                if w.write_all(&[*b]).is_err() {
                                    break;
                                }
                                std::thread::sleep(Duration::from_millis(50));
                            }
                        });
                    }
                }
                (kind.to_string(), time_to_close(&mut s, t0, patience))
            }));
        }
        for h in handles {
            let (kind, t) = h.join().unwrap();
            ctx.stat(&format!("unfinished_handshake_{}", kind));
            ctx.notes.push(format!("observed: [{}] dropped after {}", kind, t.map(|t| format!("{} ms", t.as_millis())).unwrap_or_else(|| "never".into())));
            // the ClientHello is complete in `hello_then_silent`: the peek succeeds and the handshake proper
            // gets its own H
            let k = if kind == "hello_then_silent" { 2 } else { 1 };
            let desc = format!("client [{}] that never completes its TLS handshake (timeout {} ms)", kind, H_MS);
            match t {
                None => ctx.oracle_failure(
                    "handshake_not_dropped",
                    &format!("{}: the connection was still open after {} ms", desc, patience.as_millis()),
                ),
                Some(t) if t < Duration::from_millis(H_MS - 30) && kind != "garbage_then_silent" && kind != "other_record_type_then_silent" => ctx.oracle_failure(
                    "handshake_dropped_early",
                    &format!("{}: the connection was dropped after {} ms", desc, t.as_millis()),
                ),
                Some(t) if t > Duration::from_millis(k * H_MS + SLACK_MS) => ctx.oracle_failure(
                    "handshake_dropped_late",
                    &format!("{}: the connection was dropped only after {} ms", desc, t.as_millis()),
                ),
                Some(_) => {}
            }
        }
        // (e) a client that completes in time stays connected past H and is served
        for delay_ms in [0u64, H_MS / 2] {
            ctx.stat("completed_handshakes");
            let desc = format!("client that starts its TLS handshake {} ms after connecting and completes it (timeout {} ms)", delay_ms, H_MS);
            let mut config = rustls::ClientConfig::builder()
                .with_safe_defaults()
                .with_custom_certificate_verifier(Arc::new(NoVerify))
                .with_no_client_auth();
            config.alpn_protocols.push(b"http/1.1".to_vec());
            let mut conn = rustls::ClientConnection::new(Arc::new(config), "localhost".try_into().unwrap()).unwrap();
            let mut sock = match TcpStream::connect(addr) {
                Ok(s) => s,
                Err(e) => {
                    ctx.oracle_failure("connect_failed", &format!("{}: {}", desc, e));
                    continue;
                }
            };
            let t0 = Instant::now();
            std::thread::sleep(Duration::from_millis(delay_ms));
            let _ = sock.set_read_timeout(Some(Duration::from_millis(2000)));
            let mut ok = true;
            while conn.is_handshaking() {
                if conn.complete_io(&mut sock).is_err() {
                    ok = false;
                    break;
                }
            }
            if !ok {
                ctx.oracle_failure("handshake_failed", &format!("{}: the handshake failed after {} ms", desc, t0.elapsed().as_millis()));
                continue;
            }
            // idle past every handshake deadline
            let wait = Duration::from_millis(2 * H_MS + 400);
            let mut tls = rustls::Stream::new(&mut conn, &mut sock);
            let mut closed = false;
            let mut buf = [0u8; 256];
            let until = Instant::now() + wait;
            while Instant::now() < until {
                let _ = tls.sock.set_read_timeout(Some(until.saturating_duration_since(Instant::now()).max(Duration::from_millis(1))));
                match tls.read(&mut buf) {
                    Ok(0) => {
                        closed = true;
                        break;
                    }
                    Ok(_) => {}
                    Err(e) if e.kind() == std::io::ErrorKind::WouldBlock || e.kind() == std::io::ErrorKind::TimedOut => break,
                    Err(_) => {
                        closed = true;
                        break;
                    }
                }
            }
            if closed {
                ctx.oracle_failure(
                    "established_connection_dropped",
                    &format!("{}: the connection was closed {} ms after connecting although the handshake was complete", desc, t0.elapsed().as_millis()),
                );
                continue;
            }
            let _ = tls.sock.set_read_timeout(Some(Duration::from_millis(2000)));
            let _ = tls.write_all(b"CONNECT _check HTTP/1.1\r\nHost: _check\r\n\r\n");
            let _ = tls.flush();
            let mut got = vec![];
            let t1 = Instant::now();
            while !got.windows(4).any(|w| w == b"\r\n\r\n") && t1.elapsed() < Duration::from_secs(2) {
                match tls.read(&mut buf) {
                    Ok(0) | Err(_) => break,
                    Ok(n) => got.extend_from_slice(&buf[..n]),
                }
            }
            if !got.starts_with(b"HTTP/1.1 200") {
                ctx.oracle_failure(
                    "established_connection_not_served",
                    &format!("{}: the health-check request sent {} ms after connecting was answered {:?}", desc, t0.elapsed().as_millis(), String::from_utf8_lossy(&got)),
                );
            }
        }
    }
    let _ = server;
    rt.shutdown_timeout(Duration::from_millis(300));
    reverse_proxy_sessions(ctx);
    idle_tunnels_seen_from_the_client(ctx);
    abandoned_connects_are_released(ctx);
}

/// the session timer of a reverse-proxy connection: an HTTP/3 session on the reverse-proxy host whose streams have all
/// ended - completed, or failed because the origin refused - and that opens no new one is closed by the endpoint after
/// the session timeout E (`connection_establishment_timeout`), releasing the QUIC connection and its task
fn reverse_proxy_sessions(ctx: &mut Ctx) {
    use crate::c02h3::LiveEndpoint;
    use crate::h3cli::H3Client;
    const FIX: &str = concat!(env!("CARGO_MANIFEST_DIR"), "/fixtures/");
    const E_MS: u64 = 700;
    let good_l = TcpListener::bind("127.0.0.1:0").unwrap();
    let good = good_l.local_addr().unwrap();
    std::thread::spawn(move || {
        for s in good_l.incoming() {
            let Ok(mut s) = s else { continue };
            let _ = s.set_read_timeout(Some(Duration::from_secs(1)));
            let mut buf = [0u8; 2048];
            let _ = s.read(&mut buf);
            let _ = s.write_all(b"HTTP/1.1 200 OK\r\ncontent-length: 2\r\nconnection: close\r\n\r\nok");
        }
    });
    let dead: SocketAddr = TcpListener::bind("127.0.0.1:0").unwrap().local_addr().unwrap();
    for (origin, what) in [(good, "completes"), (dead, "fails (the origin refuses the connection)")] {
        let Some(ep) = LiveEndpoint::start(move |addr| {
            let settings = Settings::builder()
                .listen_address(addr)
                .unwrap()
                .listen_protocols(ListenProtocolSettings {
                    http1: Some(Http1Settings::builder().build()),
                    http2: Some(Http2Settings::builder().build()),
                    quic: Some(QuicSettings::builder().build()),
                })
                .connection_establishment_timeout(Duration::from_millis(E_MS))
                .client_listener_timeout(Duration::from_secs(60))
                .reverse_proxy(ReverseProxySettings::builder().server_address(origin).unwrap().path_mask("/rp".to_string()).build().unwrap())
                .build()
                .unwrap();
            let h = |n: &str, f: &str| TlsHostInfo { hostname: n.into(), cert_chain_path: format!("{}{}", FIX, f), private_key_path: format!("{}{}", FIX, f), allowed_sni: vec![] };
            let hosts = TlsHostsSettings::builder()
                .main_hosts(vec![h("main.verif.test", "c05_main.pem")])
                .reverse_proxy_hosts(vec![h("rproxy.verif.test", "c05_rproxy.pem")])
                .build()
                .unwrap();
            Core::new(settings, None, hosts, Shutdown::new()).unwrap()
        }) else {
            ctx.notes.push("c14live: the reverse-proxy endpoint did not come up; skipped".to_string());
            return;
        };
        ctx.stat("reverse_proxy_h3_sessions");
        let desc = format!("HTTP/3 session on the reverse-proxy host (session timeout {} ms) whose only stream {}", E_MS, what);
        let Ok(mut cl) = H3Client::connect(ep.addr, Some("rproxy.verif.test"), &[b"h3"], 1 << 20, Duration::from_secs(3)) else {
            ctx.oracle_failure("quic_handshake_failed", &desc);
            continue;
        };
        let id = cl.request("GET", Some("https"), "rproxy.verif.test", Some("/x"), &[], true);
        cl.wait(Duration::from_secs(2), |c| id.and_then(|i| c.streams.get(&i)).map(|s| s.finished || s.reset.is_some()).unwrap_or(false));
        let t_end = Instant::now();
        // no new stream: the endpoint must close the connection around E after the last stream ended
        let closed = cl.wait(Duration::from_millis(E_MS + 4000), |c| c.conn.is_closed() || c.conn.is_draining() || c.conn.peer_error().is_some());
        let after = t_end.elapsed();
        ctx.notes.push(format!("observed: reverse-proxy session whose stream {}: closed by the endpoint: {} after {} ms", what, closed, after.as_millis()));
        if !closed {
            ctx.oracle_failure(
                "session_not_released",
                &format!("{}: {} ms after the stream had ended and with no stream open the endpoint still kept the QUIC connection (its session task and socket are not released)", desc, after.as_millis()),
            );
        }
    }
}


/// sockets of this process in SYN_SENT towards `dst` (`/proc/net/tcp`; `None`: not readable)
fn syn_sent_towards(dst: SocketAddr) -> Option<usize> {
    let text = std::fs::read_to_string("/proc/net/tcp").ok()?;
    let SocketAddr::V4(d) = dst else { return None };
    let want = format!("{:08X}:{:04X}", u32::from_le_bytes(d.ip().octets()), d.port());
    Some(text.lines().skip(1).filter(|l| {
        let f: Vec<&str> = l.split_whitespace().collect();
        f.len() > 3 && f[2] == want && f[3] == "02"
    }).count())
}

/// An outbound connection attempt that is still pending when the establishment timeout expires (the real direct forwarder
/// towards a loopback listener whose accept queue is full: the SYN is never answered): the client gets its error after E,
/// and the attempt is given up - no socket of the endpoint is left trying (wall clock; real codecs over in-memory transports).
fn abandoned_connects_are_released(ctx: &mut Ctx) {
    use trusttunnel::verif::vlive;
    const E_MS: u64 = 400;
    let tw = crate::c16::make_tcp_world();
    let Some(hanging) = tw.hanging else {
        ctx.notes.push("no hanging destination could be made (accept queue never filled): abandoned-connect scenario skipped".into());
        return;
    };
    let settings = Settings::builder()
        .listen_address(("127.0.0.1", 1))
        .unwrap()
        .listen_protocols(ListenProtocolSettings { http1: Some(Http1Settings::builder().build()), http2: Some(Http2Settings::builder().build()), quic: None })
        .allow_private_network_connections(true)
        .connection_establishment_timeout(Duration::from_millis(E_MS))
        .client_listener_timeout(Duration::from_secs(60))
        .build()
        .unwrap();
    let hosts = TlsHostsSettings::builder()
        .main_hosts(vec![TlsHostInfo { hostname: "localhost".into(), cert_chain_path: FIXTURE_PEM.into(), private_key_path: FIXTURE_PEM.into(), allowed_sni: vec![] }])
        .build()
        .unwrap();
    let core = Arc::new(Core::new(settings, None, hosts, Shutdown::new()).unwrap());
    let rt = tokio::runtime::Builder::new_multi_thread().worker_threads(2).enable_all().build().unwrap();
    for proto in ["h1", "h2"] {
        let core = core.clone();
        let desc = format!("{} CONNECT to a destination that never answers the SYN, establishment timeout {} ms", proto, E_MS);
        ctx.stat("abandoned_connects");
        let Some(before) = syn_sent_towards(hanging) else {
            ctx.notes.push("/proc/net/tcp not readable: abandoned-connect scenario skipped".into());
            return;
        };
        let r: Result<(u16, Duration), String> = rt.block_on(async move {
            let target = hanging.to_string();
            let t0 = Instant::now();
            if proto == "h1" {
                let mut s = vlive::open_h1(&core, "localhost");
                s.send(format!("CONNECT {} HTTP/1.1\r\nHost: {}\r\n\r\n", target, target).as_bytes());
                while !s.received.windows(4).any(|w| w == b"\r\n\r\n") {
                    tokio::time::sleep(Duration::from_millis(5)).await;
                    s.poll();
                    if s.received.windows(4).any(|w| w == b"\r\n\r\n") {
                        break;
                    }
                    if s.eof || t0.elapsed() > Duration::from_secs(5) {
                        return Err(format!("no response to the CONNECT ({} after {:?})", if s.eof { "connection closed" } else { "still waiting" }, t0.elapsed()));
                    }
                }
                let status = String::from_utf8_lossy(&s.received).split(' ').nth(1).and_then(|x| x.parse().ok()).unwrap_or(0);
                Ok((status, t0.elapsed()))
            } else {
                let Some(mut sess) = vlive::open_h2(&core, "localhost").await else { return Err("could not open the HTTP/2 session".into()) };
                let Some(mut x) = sess.request("CONNECT", &target, &[], false).await else { return Err("CONNECT refused by the client library".into()) };
                while x.status.is_none() {
                    tokio::time::sleep(Duration::from_millis(5)).await;
                    x.poll();
                    if x.status.is_some() {
                        break;
                    }
                    if x.failed || t0.elapsed() > Duration::from_secs(5) {
                        return Err(format!("no response to the CONNECT ({} after {:?})", if x.failed { "stream failed" } else { "still waiting" }, t0.elapsed()));
                    }
                }
                Ok((x.status.unwrap_or(0), t0.elapsed()))
            }
        });
        match r {
            Err(e) => ctx.oracle_failure("abandoned_connect", &format!("{}: {}", desc, e)),
            Ok((status, took)) => {
                if status == 200 {
                    // the queue let it in after all: nothing to observe
                    ctx.stat("abandoned_connects_accepted_after_all");
                    continue;
                }
                if took < Duration::from_millis(E_MS - 50) {
                    ctx.oracle_failure("abandoned_connect", &format!("{}: answered {} after {:?}, before the timeout", desc, status, took));
                }
                // the kernel retries an unanswered SYN for minutes: a socket still in SYN_SENT is an attempt still going
                std::thread::sleep(Duration::from_millis(300));
                let after = syn_sent_towards(hanging).unwrap_or(before);
                if after > before {
                    ctx.oracle_failure(
                        "attempt_not_abandoned",
                        &format!("{}: answered {} after {:?}, but {} socket(s) of the endpoint are still trying to connect (SYN_SENT) 300 ms later", desc, status, took, after - before),
                    );
                }
            }
        }
    }
}

/// An established CONNECT tunnel whose two ends fall silent (real codecs over in-memory transports, the real direct forwarder
/// to a loopback origin that holds the connection open and says nothing, wall clock): T after the last byte - and no later than
/// 2T plus scheduling slack - the endpoint must have ended the tunnel *towards the client* (HTTP/1.1: the connection is closed;
/// HTTP/2: the stream is ended or reset) and towards the origin (its connection is closed); not before T.
fn idle_tunnels_seen_from_the_client(ctx: &mut Ctx) {
    use trusttunnel::verif::vlive;
    const T_MS: u64 = 500;
    let origin_l = TcpListener::bind("127.0.0.1:0").unwrap();
    let origin = origin_l.local_addr().unwrap();
    let origin_closed = Arc::new(std::sync::Mutex::new(Vec::<(Instant, Instant)>::new()));
    {
        let oc = origin_closed.clone();
        std::thread::spawn(move || {
            for s in origin_l.incoming() {
                let Ok(mut s) = s else { continue };
                let oc = oc.clone();
                std::thread::spawn(move || {
                    let opened = Instant::now();
                    let _ = s.set_read_timeout(Some(Duration::from_secs(8)));
                    let mut buf = [0u8; 1024];
                    loop {
                        match s.read(&mut buf) {
                            Ok(0) | Err(_) => break,
                            Ok(_) => {}
                        }
                    }
                    oc.lock().unwrap().push((opened, Instant::now()));
                });
            }
        });
    }
    let settings = Settings::builder()
        .listen_address(("127.0.0.1", 1))
        .unwrap()
        .listen_protocols(ListenProtocolSettings { http1: Some(Http1Settings::builder().build()), http2: Some(Http2Settings::builder().build()), quic: None })
        .allow_private_network_connections(true)
        .tcp_connections_timeout(Duration::from_millis(T_MS))
        .client_listener_timeout(Duration::from_secs(60))
        .build()
        .unwrap();
    let hosts = TlsHostsSettings::builder()
        .main_hosts(vec![TlsHostInfo { hostname: "localhost".into(), cert_chain_path: FIXTURE_PEM.into(), private_key_path: FIXTURE_PEM.into(), allowed_sni: vec![] }])
        .build()
        .unwrap();
    let core = Arc::new(Core::new(settings, None, hosts, Shutdown::new()).unwrap());
    trusttunnel::verif::hooks::reset();
    let rt = tokio::runtime::Builder::new_multi_thread().worker_threads(2).enable_all().build().unwrap();
    // one direction busy, the other silent for several timeouts: the silent direction's timer fires again and again and the
    // pipe restarts both of its loops each time (dropping whatever read was pending) - nothing may be lost or cut by that
    for proto in ["h1", "h2"] {
        for uploading in [true, false] {
            let core = core.clone();
            let desc = format!(
                "{} CONNECT tunnel, idle timeout {} ms: {} sends one byte every {} ms for {} ms while the other side is silent",
                proto, T_MS, if uploading { "the client" } else { "the origin" }, T_MS / 3, 3 * T_MS
            );
            ctx.stat("one_sided_traffic_across_timer_restarts");
            let r: Result<(), String> = rt.block_on(async move {
                // an origin of its own: records what it gets, sends what it is told to
                let l = tokio::net::TcpListener::bind("127.0.0.1:0").await.map_err(|e| e.to_string())?;
                let target = l.local_addr().unwrap().to_string();
                let got = Arc::new(std::sync::Mutex::new(Vec::<u8>::new()));
                let got2 = got.clone();
                let (tx, mut rx) = tokio::sync::mpsc::unbounded_channel::<u8>();
                tokio::spawn(async move {
                    use tokio::io::{AsyncReadExt, AsyncWriteExt};
                    if let Ok((s, _)) = l.accept().await {
                        let (mut rd, mut wr) = s.into_split();
                        tokio::spawn(async move {
                            while let Some(b) = rx.recv().await {
                                if wr.write_all(&[b]).await.is_err() {
                                    break;
                                }
                            }
                        });
                        let mut buf = [0u8; 256];
                        loop {
                            match rd.read(&mut buf).await {
                                Ok(0) | Err(_) => break,
                                Ok(n) => got2.lock().unwrap().extend_from_slice(&buf[..n]),
                            }
                        }
                    }
                });
                let n_bytes = 9usize;
                let mut h1 = None;
                let mut st = None;
                let mut _sess = None;
                if proto == "h1" {
                    let mut s = vlive::open_h1(&core, "localhost");
                    s.send(format!("CONNECT {} HTTP/1.1\r\nHost: {}\r\n\r\n", target, target).as_bytes());
                    let t0 = Instant::now();
                    while !s.received.windows(4).any(|w| w == b"\r\n\r\n") {
                        tokio::time::sleep(Duration::from_millis(5)).await;
                        s.poll();
                        if s.eof || t0.elapsed() > Duration::from_secs(3) {
                            return Err("no response to the CONNECT".into());
                        }
                    }
                    h1 = Some(s);
                } else {
                    let Some(mut sess) = vlive::open_h2(&core, "localhost").await else { return Err("could not open the HTTP/2 session".into()) };
                    let Some(mut x) = sess.request("CONNECT", &target, &[], false).await else { return Err("CONNECT refused by the client library".into()) };
                    let t0 = Instant::now();
                    while x.status.is_none() {
                        tokio::time::sleep(Duration::from_millis(5)).await;
                        x.poll();
                        if x.failed || t0.elapsed() > Duration::from_secs(3) {
                            return Err("no response to the CONNECT".into());
                        }
                    }
                    st = Some(x);
                    _sess = Some(sess);
                }
                let head_len = h1.as_ref().map(|h| h.received.len()).unwrap_or(0);
                for k in 0..n_bytes {
                    let b = b'a' + k as u8;
                    if uploading {
                        match (h1.as_mut(), st.as_mut()) {
                            (Some(h), _) => {
                                h.send(&[b]);
                            }
                            (_, Some(x)) => {
                                x.send(&[b], false);
                            }
                            _ => {}
                        }
                    } else {
                        let _ = tx.send(b);
                    }
                    tokio::time::sleep(Duration::from_millis(T_MS / 3)).await;
                    if let Some(h) = h1.as_mut() {
                        h.poll();
                        if h.eof {
                            return Err(format!("the tunnel was closed after {} of {} bytes although a byte passed every {} ms", k + 1, n_bytes, T_MS / 3));
                        }
                    }
                    if let Some(x) = st.as_mut() {
                        x.poll();
                        if x.ended || x.failed {
                            return Err(format!("the stream was ended after {} of {} bytes although a byte passed every {} ms", k + 1, n_bytes, T_MS / 3));
                        }
                    }
                }
                tokio::time::sleep(Duration::from_millis(60)).await;
                let want: Vec<u8> = (0..n_bytes).map(|k| b'a' + k as u8).collect();
                let have: Vec<u8> = if uploading {
                    got.lock().unwrap().clone()
                } else {
                    match (h1.as_mut(), st.as_mut()) {
                        (Some(h), _) => {
                            h.poll();
                            h.received[head_len..].to_vec()
                        }
                        (_, Some(x)) => {
                            x.poll();
                            x.received.clone()
                        }
                        _ => vec![],
                    }
                };
                if have != want {
                    return Err(format!("the other end received {:?}, {:?} was sent", String::from_utf8_lossy(&have), String::from_utf8_lossy(&want)));
                }
                Ok(())
            });
            if let Err(e) = r {
                ctx.oracle_failure("active_tunnel_disturbed_by_timer", &format!("{}: {}", desc, e));
            }
        }
    }
    for proto in ["h1", "h2"] {
        for payload in [true, false] {
            let core = core.clone();
            let before = origin_closed.lock().unwrap().len();
            let desc = format!("{} CONNECT tunnel to a silent origin, idle timeout {} ms, {}", proto, T_MS, if payload { "one byte relayed, then silence" } else { "no payload at all" });
            ctx.stat("idle_tunnels_seen_from_the_client");
            // Ok(ms from the last activity to the end seen by the client) / Err(what went wrong)
            let r: Result<u64, String> = rt.block_on(async move {
                let target = origin.to_string();
                let patience = Duration::from_millis(2 * T_MS + SLACK_MS + 1500);
                if proto == "h1" {
                    let mut s = vlive::open_h1(&core, "localhost");
                    s.send(format!("CONNECT {} HTTP/1.1\r\nHost: {}\r\n\r\n", target, target).as_bytes());
                    let t0 = Instant::now();
                    while !s.received.windows(4).any(|w| w == b"\r\n\r\n") {
                        tokio::time::sleep(Duration::from_millis(5)).await;
                        s.poll();
                        if s.eof || t0.elapsed() > Duration::from_secs(3) {
                            return Err(format!("no response to the CONNECT (got {:?})", String::from_utf8_lossy(&s.received)));
                        }
                    }
                    if !s.received.starts_with(b"HTTP/1.1 200") {
                        return Err(format!("CONNECT answered {:?}", String::from_utf8_lossy(&s.received)));
                    }
                    if payload {
                        s.send(b"x");
                    }
                    let last = Instant::now();
                    loop {
                        tokio::time::sleep(Duration::from_millis(10)).await;
                        s.poll();
                        if s.eof {
                            return Ok(last.elapsed().as_millis() as u64);
                        }
                        if last.elapsed() > patience {
                            return Err(format!("{} ms after the last activity the client's connection is still open (the endpoint's session task ended: {})", last.elapsed().as_millis(), s.server_ended()));
                        }
                    }
                } else {
                    let Some(mut sess) = vlive::open_h2(&core, "localhost").await else { return Err("could not open the HTTP/2 session".into()) };
                    let Some(mut st) = sess.request("CONNECT", &target, &[], false).await else { return Err("CONNECT refused by the client library".into()) };
                    let t0 = Instant::now();
                    while st.status.is_none() {
                        tokio::time::sleep(Duration::from_millis(5)).await;
                        st.poll();
                        if st.failed || t0.elapsed() > Duration::from_secs(3) {
                            return Err("no response to the CONNECT".into());
                        }
                    }
                    if st.status != Some(200) {
                        return Err(format!("CONNECT answered {:?}", st.status));
                    }
                    if payload {
                        st.send(b"x", false);
                    }
                    let last = Instant::now();
                    loop {
                        tokio::time::sleep(Duration::from_millis(10)).await;
                        st.poll();
                        if st.ended || st.failed {
                            return Ok(last.elapsed().as_millis() as u64);
                        }
                        if last.elapsed() > patience {
                            return Err(format!("{} ms after the last activity the client's stream is still open", last.elapsed().as_millis()));
                        }
                    }
                }
            });
            match r {
                Err(e) => ctx.oracle_failure("idle_tunnel_not_closed", &format!("{}: {}", desc, e)),
                Ok(ms) => {
                    if ms + 60 < T_MS {
                        ctx.oracle_failure("idle_tunnel_closed_early", &format!("{}: ended towards the client {} ms after the last activity", desc, ms));
                    }
                    if ms > 2 * T_MS + SLACK_MS {
                        ctx.oracle_failure("idle_tunnel_not_closed", &format!("{}: ended towards the client only {} ms after the last activity (2T = {} ms)", desc, ms, 2 * T_MS));
                    }
                    // the origin's side goes with it
                    let t0 = Instant::now();
                    while origin_closed.lock().unwrap().len() <= before && t0.elapsed() < Duration::from_millis(1500) {
                        std::thread::sleep(Duration::from_millis(10));
                    }
                    if origin_closed.lock().unwrap().len() <= before {
                        ctx.oracle_failure("idle_tunnel_not_closed", &format!("{}: the tunnel ended towards the client but the connection to the origin is still open", desc));
                    }
                }
            }
        }
    }
}
