//! C14 (QUIC timer bookkeeping): HTTP/3 sessions come, idle, transfer, close and vanish on the real
//! QUIC listener; the door records every operation of the multiplexer's deadline bookkeeping
//! (arm / remove / loop iteration with what expired and what was re-armed) with the state it left;
//! the Lean model `TT.QuicTimers` replays the operations and must arrive at the same state
//! (deadline table and `closest_deadline`) after every one of them.
use crate::c02h3::{plain_hosts, LiveEndpoint};
use crate::common::*;
use crate::h3cli::H3Client;
use std::io::Write;
use std::net::TcpListener;
use std::time::{Duration, Instant};
use trusttunnel::core::Core;
use trusttunnel::settings::*;
use trusttunnel::shutdown::Shutdown;
use trusttunnel::verif;

/// "op => closest=X deadlines=[..]" -> (op token for the driver, state as the driver prints it)
fn convert(line: &str) -> Option<(String, String)> {
    let (op, st) = line.split_once(" => ")?;
    let w: Vec<&str> = op.split(' ').collect();
    let tok = match w.as_slice() {
        ["arm", c, t] => format!("arm.{}.{}", c, t),
        ["remove", c] => format!("rm.{}", c),
        ["tick", now, rearm] => {
            let r = rearm.strip_prefix("rearm=[")?.strip_suffix(']')?;
            format!("tick.{}.{}", now, if r.is_empty() { "-".to_string() } else { r.replace(',', "+") })
        }
        _ => return None,
    };
    let (c, d) = st.split_once(" deadlines=[")?;
    let c = c.strip_prefix("closest=")?;
    // "...] conns=H,E": the connection table is not part of the timer model
    let d = d.split_once("] conns=").map(|x| x.0).or_else(|| d.strip_suffix(']'))?;
    Some((tok, format!("{}/{}", c, d)))
}

pub fn run(ctx: &mut Ctx) {
    quiet_panics();
    verif::hooks::reset();
    let Some(ep) = LiveEndpoint::start(|addr| {
        let settings = Settings::builder()
            .listen_address(addr)
            .unwrap()
            .listen_protocols(ListenProtocolSettings {
                http1: Some(Http1Settings::builder().build()),
                http2: Some(Http2Settings::builder().build()),
                quic: Some(QuicSettings::builder().build()),
            })
            .allow_private_network_connections(true)
            // the QUIC idle timeout of a connection whose handshake never completes is the endpoint's own
            .client_listener_timeout(Duration::from_millis(1200))
            .build()
            .unwrap();
        Core::new(settings, None, plain_hosts(), Shutdown::new()).unwrap()
    }) else {
        ctx.notes.push("c14qt: the endpoint's listener did not come up on loopback; nothing was run".to_string());
        return;
    };
    let origin_l = TcpListener::bind("127.0.0.1:0").unwrap();
    origin_l.set_nonblocking(true).unwrap();
    let target = origin_l.local_addr().unwrap().to_string();
    let rounds = if ctx.thorough() { 8 } else { 3 };
    for round in 0..rounds {
        // a few sessions with different idle timeouts, overlapping in time
        let mut sess = vec![];
        let mut origins = vec![];
        for k in 0..3u64 {
            let idle = [400u64, 900, 1100][k as usize];
            if let Ok(mut c) = H3Client::connect_idle(ep.addr, Some("localhost"), &[b"h3"], 1 << 20, Duration::from_secs(3), idle) {
                if let Some(id) = c.request("CONNECT", None, &target, None, &[], false) {
                    let t0 = Instant::now();
                    while t0.elapsed() < Duration::from_secs(2) {
                        c.pump();
                        if let Ok((s, _)) = origin_l.accept() {
                            origins.push(s);
                            break;
                        }
                    }
                    c.wait(Duration::from_secs(1), |c| c.streams.get(&id).map(|s| s.status.is_some()).unwrap_or(false));
                    let _ = c.send_body(id, &vec![7u8; 2000 + 1000 * round], false);
                }
                sess.push(c);
            }
            std::thread::sleep(Duration::from_millis(30));
        }
        // the first one vanishes silently (its idle timer must fire at the endpoint), the second closes, the third idles on
        let t0 = Instant::now();
        while t0.elapsed() < Duration::from_millis(250) {
            for c in sess.iter_mut().skip(1) {
                c.pump();
            }
            std::thread::sleep(Duration::from_millis(5));
        }
        if let Some(o) = origins.first_mut() {
            let _ = o.write_all(&[1u8; 500]);
        }
        if sess.len() > 1 {
            sess[1].close();
        }
        let t0 = Instant::now();
        while t0.elapsed() < Duration::from_millis(900) {
            if let Some(c) = sess.get_mut(2) {
                c.pump();
            }
            std::thread::sleep(Duration::from_millis(5));
        }
        if let Some(c) = sess.get_mut(2) {
            c.close();
        }
        // two abandoned handshakes: a client that gets the Retry, sends its second Initial and is never heard of again
        for _ in 0..2 {
            abandon_handshake(ep.addr);
        }
        std::thread::sleep(Duration::from_millis(200));
        drop(sess);
        ctx.stat("quic_timer_rounds");
    }
    // everybody is gone: once the idle timers of the abandoned handshakes (1.2 s, or three probe timeouts) have run out the
    // multiplexer must hold no connection and no deadline any more
    let t0 = Instant::now();
    loop {
        std::thread::sleep(Duration::from_millis(200));
        let last = verif::hooks::STATE.lock().unwrap().quic_timer_ops.last().cloned().unwrap_or_default();
        if (last.ends_with("conns=0,0") && last.contains("deadlines=[]")) || t0.elapsed() > Duration::from_secs(9) {
            break;
        }
    }
    let log: Vec<String> = verif::hooks::STATE.lock().unwrap().quic_timer_ops.clone();
    if let Some(last) = log.last() {
        let conns = last.rsplit_once(" conns=").map(|x| x.1.to_string()).unwrap_or_default();
        let deadlines_empty = last.contains("deadlines=[]");
        if conns != "0,0" || !deadlines_empty {
            ctx.oracle_failure(
                "connections_not_released",
                &format!("9 s after the last client had gone (sessions closed or idled out, two handshakes abandoned; idle timeout 1.2 s) the QUIC multiplexer still holds connections (handshaking,established) = {} ; last record: {}", conns, last.chars().take(300).collect::<String>()),
            );
        }
    }
    drop(ep);
    let mut conv = vec![];
    for l in &log {
        match convert(l) {
            Some(x) => conv.push(x),
            None => {
                ctx.oracle_failure("harness", &format!("unreadable timer record: {}", l));
                return;
            }
        }
    }
    ctx.stat_add("quic_timer_operations", conv.len() as u64);
    for k in ["arm", "rm", "tick"] {
        ctx.stat_add(&format!("quic_timer_{}", k), conv.iter().filter(|(t, _)| t.starts_with(k)).count() as u64);
    }
    ctx.stat_add("quic_timer_ticks_with_rearm", conv.iter().filter(|(t, _)| t.starts_with("tick") && !t.ends_with(".-")).count() as u64);
    // direct check of the invariants on the implementation's own states
    let mut reported = 0;
    for (tok, st) in &conv {
        if reported >= 10 {
            break;
        }
        let (c, d) = st.split_once('/').unwrap_or(("-", ""));
        let ds: Vec<u128> = d.split(',').filter(|x| !x.is_empty()).filter_map(|x| x.split_once('@').and_then(|(_, t)| t.parse().ok())).collect();
        if let Some(m) = ds.iter().min() {
            match c.parse::<u128>() {
                Ok(cv) if cv <= *m => {}
                _ => {
                    reported += 1;
                    ctx.oracle_failure("deadline_missed", &format!("after {} the multiplexer sleeps until {} although a deadline is armed for {} (state {})", tok, c, m, st))
                }
            }
        }
        if tok.starts_with("tick") {
            let want = ds.iter().min().map(|m| m.to_string()).unwrap_or_else(|| "-".to_string());
            if c != want {
                reported += 1;
                ctx.oracle_failure("closest_not_recomputed", &format!("after the loop iteration {} closest_deadline is {} but the earliest armed deadline is {}", tok, c, want));
            }
        }
    }
    // the model replays the operations in chunks, each from the state the previous one left
    let mut init = ("-".to_string(), "-".to_string());
    for chunk in conv.chunks(60) {
        let q = format!("c14 qtimers {} {} {}", init.0, init.1, chunk.iter().map(|(t, _)| t.as_str()).collect::<Vec<_>>().join(";"));
        let ans = chunk.iter().map(|(_, s)| s.as_str()).collect::<Vec<_>>().join(" | ");
        ctx.emit(&q, &ans);
        let last = &chunk[chunk.len() - 1].1;
        let (c, d) = last.split_once('/').unwrap_or(("-", ""));
        init = (c.to_string(), if d.is_empty() { "-".to_string() } else { d.to_string() });
    }
}

/// the first two flights of a QUIC client (Initial, then the Initial carrying the Retry token) and then silence
fn abandon_handshake(addr: std::net::SocketAddr) {
    let sock = std::net::UdpSocket::bind("127.0.0.1:0").unwrap();
    sock.set_read_timeout(Some(Duration::from_millis(200))).unwrap();
    let local = sock.local_addr().unwrap();
    let mut config = quiche::Config::new(quiche::PROTOCOL_VERSION).unwrap();
    config.verify_peer(false);
    config.set_application_protos(&[b"h3"]).unwrap();
    config.set_max_idle_timeout(600);
    config.set_initial_max_data(1 << 20);
    config.set_initial_max_stream_data_bidi_local(1 << 20);
    config.set_initial_max_stream_data_bidi_remote(1 << 20);
    config.set_initial_max_streams_bidi(10);
    config.set_initial_max_streams_uni(10);
    let mut scid = [0u8; 16];
    for (i, b) in scid.iter_mut().enumerate() {
        *b = (local.port() as u8).wrapping_mul(31).wrapping_add(i as u8);
    }
    let Ok(mut conn) = quiche::connect(Some("localhost"), &quiche::ConnectionId::from_ref(&scid), local, addr, &mut config) else { return };
    let mut buf = [0u8; 1500];
    for _ in 0..2 {
        while let Ok((n, _)) = conn.send(&mut buf) {
            let _ = sock.send_to(&buf[..n], addr);
        }
        let mut rb = [0u8; 2000];
        if let Ok((n, from)) = sock.recv_from(&mut rb) {
            let _ = conn.recv(&mut rb[..n], quiche::RecvInfo { from, to: local });
        }
    }
    // the second Initial has gone out in the second iteration's send; nothing more
}
