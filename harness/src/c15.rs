//! C15: SOCKS5 upstream dialogue
use crate::common::*;
use base64::Engine;
use std::net::{IpAddr, SocketAddr};
use trusttunnel::verif::{self, VAuthSource, VSocksAuth, VSocksRequest};

fn b64(b: &[u8]) -> String {
    base64::engine::general_purpose::STANDARD.encode(b)
}

fn sock_tok(s: &SocketAddr) -> String {
    format!("{} {}", ip_tokens(&s.ip()), s.port())
}

struct AuthCase {
    auth: VSocksAuth,
    tok: String,
}

fn gen_string(ctx: &mut Ctx, max: usize) -> String {
    let n = match ctx.rng.below(8) {
        0 => 0,
        1 => 1,
        2 => 254,
        3 => 255,
        4 => 256,
        5 => 300.min(max),
        _ => ctx.rng.below(20) as usize,
    }
    .min(max);
    let alphabet: Vec<char> = "abcXYZ019 :_-@.\u{e9}\u{4e16}".chars().collect();
    let mut s = String::new();
    while s.len() < n {
        let c = *ctx.rng.pick(&alphabet);
        if s.len() + c.len_utf8() <= n {
            s.push(c);
        } else {
            s.push('a');
        }
    }
    s
}

fn gen_auth(ctx: &mut Ctx) -> AuthCase {
    match ctx.rng.below(10) {
        0 | 1 => AuthCase { auth: VSocksAuth::None, tok: "none".into() },
        2 | 3 => {
            let u = gen_string(ctx, 600);
            let p = gen_string(ctx, 600);
            AuthCase {
                tok: format!("up {} {}", hex(u.as_bytes()), hex(p.as_bytes())),
                auth: VSocksAuth::UsernamePassword(u, p),
            }
        }
        k => {
            let extended = ctx.rng.chance(1, 2);
            let tls_domain = ctx.rng.pick(&["vpn.example.org", "", "x"]).to_string();
            let client: IpAddr = ctx.rng.pick(&["198.51.100.9", "2001:db8::9"]).parse().unwrap();
            let ua = if ctx.rng.chance(1, 2) { Some("Agent/1.0 (x)".to_string()) } else { None };
            let (source, kind, text, decoded): (VAuthSource, &str, String, String) = if k < 6 {
                let s = gen_string(ctx, 300);
                (VAuthSource::Sni(s.clone()), "sni", s, "bad".into())
            } else {
                // Basic token: mostly valid base64 of user:pass, sometimes malformed
                match ctx.rng.below(8) {
                    0 => {
                        let t = "!!!notbase64".to_string();
                        (VAuthSource::ProxyBasic(t.clone()), "basic", t, "bad".into())
                    }
                    1 => {
                        // valid base64 of non-UTF-8 bytes
                        let raw = vec![0xff, 0xfe, b':', 0x80];
                        let t = b64(&raw);
                        (VAuthSource::ProxyBasic(t.clone()), "basic", t, hex(&raw))
                    }
                    2 => {
                        // no colon
                        let raw = b"justauser".to_vec();
                        let t = b64(&raw);
                        (VAuthSource::ProxyBasic(t.clone()), "basic", t, hex(&raw))
                    }
                    3 => {
                        // missing padding
                        let raw = b"ab:c".to_vec();
                        let t = b64(&raw).trim_end_matches('=').to_string();
                        (VAuthSource::ProxyBasic(t.clone()), "basic", t, "bad".into())
                    }
                    _ => {
                        let u = gen_string(ctx, 300).replace(':', "_");
                        let p = gen_string(ctx, 300);
                        let raw = format!("{}:{}", u, p).into_bytes();
                        let t = b64(&raw);
                        (VAuthSource::ProxyBasic(t.clone()), "basic", t, hex(&raw))
                    }
                }
            };
            AuthCase {
                tok: format!(
                    "src {} {} {} {} {} {} {}",
                    kind,
                    extended as u8,
                    hex(text.as_bytes()),
                    decoded,
                    hex(tls_domain.as_bytes()),
                    ip_tokens(&client),
                    match &ua {
                        Some(u) => hex(u.as_bytes()),
                        None => "none".into(),
                    }
                ),
                auth: VSocksAuth::FromSource { source, extended, tls_domain, client_address: client, user_agent: ua },
            }
        }
    }
}

fn make_socks_core(addr: SocketAddr, extended: bool) -> trusttunnel::core::Core {
    use trusttunnel::settings::*;
    let settings = Settings::builder()
        .listen_address(("127.0.0.1", 1))
        .unwrap()
        .listen_protocols(ListenProtocolSettings {
            http1: Some(Http1Settings::builder().build()),
            ..Default::default()
        })
        .forwarder_settings(ForwardProtocolSettings::Socks5(
            Socks5ForwarderSettings::builder().server_address(addr).unwrap().extended_auth(extended).build().unwrap(),
        ))
        .build()
        .unwrap();
    let hosts = TlsHostsSettings::builder()
        .main_hosts(vec![TlsHostInfo {
            hostname: "localhost".into(),
            cert_chain_path: FIXTURE_PEM.into(),
            private_key_path: FIXTURE_PEM.into(),
            allowed_sni: vec![],
        }])
        .build()
        .unwrap();
    trusttunnel::core::Core::new(settings, None, hosts, trusttunnel::shutdown::Shutdown::new()).unwrap()
}

fn gen_reply(ctx: &mut Ctx, code: u8) -> Vec<u8> {
    let mut r = vec![5, code, if ctx.rng.chance(1, 12) { 1 } else { 0 }];
    match ctx.rng.below(6) {
        0 | 1 | 2 => {
            r.push(1);
            r.extend_from_slice(&[127, 0, 0, 1]);
        }
        3 => {
            r.push(4);
            r.extend_from_slice(&"2001:db8::5".parse::<std::net::Ipv6Addr>().unwrap().octets());
        }
        4 => {
            r.push(3);
            let name: &[u8] = if ctx.rng.chance(1, 4) { &[0xff, 0xfe] } else { b"relay.example" };
            r.push(name.len() as u8);
            r.extend_from_slice(name);
        }
        _ => {
            r.push(*ctx.rng.pick(&[0u8, 2, 5, 0xff]));
            r.extend_from_slice(&[1, 2, 3, 4]);
        }
    }
    r.extend_from_slice(&[0x1f, 0x90]);
    r
}

pub fn run(ctx: &mut Ctx) {
    quiet_panics();
    let rt = tokio::runtime::Builder::new_current_thread().enable_all().build().unwrap();
    let n = if ctx.thorough() { 40_000 } else { 4_000 };
    for i in 0..n {
        let ac = gen_auth(ctx);
        let (req, mut req_tok) = match ctx.rng.below(7) {
            0 | 1 => {
                let a: SocketAddr = ctx.rng.pick(&["93.184.216.34:443", "[2606:2800:220:1::1]:80", "0.0.0.0:0", "255.255.255.255:65535", "[::ffff:192.0.2.7]:443", "[::1]:8080", "[::]:1", "[::192.0.2.7]:53", "[64:ff9b::c000:207]:80"]).parse().unwrap();
                (VSocksRequest::ConnectIp(a), format!("cip {}", sock_tok(&a)))
            }
            2 | 3 | 4 => {
                let d = match ctx.rng.below(5) {
                    0 => "a".repeat(255),
                    1 => "b".repeat(256),
                    2 => "c".repeat(300),
                    3 => String::new(),
                    _ => "example.org".to_string(),
                };
                let p = *ctx.rng.pick(&[0u16, 80, 443, 65535]);
                (VSocksRequest::ConnectDomain(d.clone(), p), format!("cdom {} {}", hex(d.as_bytes()), p))
            }
            _ => (VSocksRequest::UdpAssociate, "udp".to_string()),
        };
        // server behaviour
        let offered: u8 = match &ac.auth {
            VSocksAuth::None => 0,
            VSocksAuth::UsernamePassword(..) => 2,
            VSocksAuth::FromSource { extended: true, .. } => 0x80,
            VSocksAuth::FromSource { .. } => 2,
        };
        let method = match ctx.rng.below(10) {
            0 => 0u8,
            1 => 0xff,
            2 => *ctx.rng.pick(&[2u8, 0x80, 1, 3]),
            _ => if ctx.rng.chance(1, 3) { 0 } else { offered },
        };
        let mut server: Vec<u8> = vec![if ctx.rng.chance(1, 30) { 4 } else { 5 }, method];
        if method == offered && method != 0 {
            server.push(if ctx.rng.chance(1, 20) { 5 } else { 1 });
            server.push(*ctx.rng.pick(&[0u8, 0, 0, 0, 1, 0xff]));
        }
        let code = if ctx.rng.chance(1, 2) { 0 } else { ctx.rng.below(11) as u8 };
        server.extend(gen_reply(ctx, code));
        // truncation at every byte (round robin) and segmentation
        let trunc = if i % 3 == 0 { ctx.rng.below(server.len() as u64 + 1) as usize } else { server.len() };
        let untruncated = trunc == server.len();
        server.truncate(trunc);
        let segs: Vec<Vec<u8>> = match i % 4 {
            0 => vec![server.clone()],
            1 => server.iter().map(|b| vec![*b]).collect(),
            _ => {
                let mut cuts: Vec<usize> = (0..ctx.rng.range(1, 3)).map(|_| ctx.rng.below(server.len() as u64 + 1) as usize).collect();
                cuts.sort();
                let mut out = vec![];
                let mut prev = 0;
                for c in cuts {
                    out.push(server[prev..c].to_vec());
                    prev = c;
                }
                out.push(server[prev..].to_vec());
                out
            }
        };
        let d = rt.block_on(verif::socks5_dialogue(ac.auth.clone(), req.clone(), segs));
        let mut outcome = d.outcome.clone();
        if let VSocksRequest::UdpAssociate = req {
            // the locally bound UDP socket is an input of the model: recover it from the request bytes
            let cb = &d.client_bytes;
            let local = if cb.len() >= 10 && cb[cb.len() - 10..cb.len() - 6] == [5, 3, 0, 1] {
                let p = u16::from_be_bytes([cb[cb.len() - 2], cb[cb.len() - 1]]);
                SocketAddr::new(IpAddr::from([cb[cb.len() - 6], cb[cb.len() - 5], cb[cb.len() - 4], cb[cb.len() - 3]]), p)
            } else {
                "0.0.0.0:0".parse().unwrap()
            };
            req_tok = format!("udp {}", sock_tok(&local));
        }
        if let Some(rest) = outcome.strip_prefix("udp ") {
            if let Ok(a) = rest.parse::<SocketAddr>() {
                outcome = format!("udp {}", sock_tok(&a));
            }
        }
        ctx.stat(&format!("outcome_{}", outcome.split(' ').take(2).collect::<Vec<_>>().join("_").replace(|c: char| c.is_ascii_digit(), "")));
        ctx.emit(
            &format!("c15 dialogue {} {} {}", ac.tok, req_tok, hex(&server)),
            &format!("{} | {}", hex(&d.client_bytes), outcome),
        );

        // the same exchange through the configured forwarder (Socks5Forwarder's TcpConnector) against a
        // scripted TCP server: checks the reply-code / error mapping to tunnel errors
        if i % 8 == 0 {
            let src_auth: Option<Option<VAuthSource>> = match &ac.auth {
                VSocksAuth::None => Some(None),
                VSocksAuth::FromSource { source, extended, tls_domain, client_address, user_agent }
                    if tls_domain == "tls.example" || true =>
                {
                    let _ = (extended, client_address, user_agent);
                    Some(Some(source.clone()))
                }
                _ => None,
            };
            let dest = match &req {
                VSocksRequest::ConnectIp(a) => Some(verif::VTcpDestination::Address(*a)),
                VSocksRequest::ConnectDomain(d, p) => Some(verif::VTcpDestination::HostName(d.clone(), *p)),
                VSocksRequest::UdpAssociate => None,
            };
            if let (Some(src_auth), Some(dest)) = (src_auth, dest) {
                let extended = matches!(&ac.auth, VSocksAuth::FromSource { extended: true, .. });
                // behind a complete reply the destination's first bytes follow at once: the tunnel's download direction starts
                // with exactly these - nothing of the proxy's reply in front of them, none of them taken for the reply
                let mut server = server.clone();
                if untruncated {
                    server.extend_from_slice(format!("DESTINATION-DATA-{}", i).as_bytes());
                    if ctx.rng.chance(1, 3) {
                        server.extend_from_slice(&[5, 0, 0, 1, 0, 0, 0, 0, 0, 0]);
                    }
                }
                let server2 = server.clone();
                let res = rt.block_on(async move {
                    use tokio::io::{AsyncReadExt, AsyncWriteExt};
                    let l = tokio::net::TcpListener::bind("127.0.0.1:0").await.unwrap();
                    let addr = l.local_addr().unwrap();
                    let srv = tokio::spawn(async move {
                        let mut sink = vec![];
                        if let Ok((mut s, _)) = l.accept().await {
                            // answer like a server does - each part after the client's message for it has been read - so that a
                            // client that gives up early does not reset the connection over bytes the server has not read yet
                            let mut parts: Vec<&[u8]> = vec![];
                            let sel = server2.len().min(2);
                            parts.push(&server2[..sel]);
                            let mut rest = &server2[sel..];
                            if sel == 2 && server2[0] == 5 && (server2[1] == 2 || server2[1] == 0x80) && !rest.is_empty() {
                                let a = rest.len().min(2);
                                parts.push(&rest[..a]);
                                rest = &rest[a..];
                            }
                            parts.push(rest);
                            let mut buf = [0u8; 4096];
                            for part in parts {
                                if part.is_empty() {
                                    continue;
                                }
                                // the client's message: read until nothing more comes for a moment
                                let mut got_any = false;
                                loop {
                                    let wait = if got_any { 8 } else { 600 };
                                    match tokio::time::timeout(std::time::Duration::from_millis(wait), s.read(&mut buf)).await {
                                        Ok(Ok(n)) if n > 0 => {
                                            sink.extend_from_slice(&buf[..n]);
                                            got_any = true;
                                        }
                                        _ => break,
                                    }
                                }
                                let _ = s.write_all(part).await;
                            }
                            let _ = s.shutdown().await;
                            let _ = tokio::time::timeout(std::time::Duration::from_secs(2), s.read_to_end(&mut sink)).await;
                        }
                        sink
                    });
                    let core = make_socks_core(addr, extended);
                    let r = tokio::time::timeout(std::time::Duration::from_secs(8), verif::forwarder_connect_read(&core, dest, src_auth)).await;
                    // what the upstream was sent by the forwarder (its connection is closed by now)
                    let got = tokio::time::timeout(std::time::Duration::from_secs(3), srv).await.ok().and_then(|x| x.ok()).unwrap_or_default();
                    (r, got)
                });
                let (res, upstream_got) = res;
                let ans = match res {
                    Err(_) => "stalled".to_string(),
                    Ok((o, data)) => {
                        use verif::VConnectOutcome::*;
                        match o {
                            Connected => format!("connected {}", if data.is_empty() { "-".to_string() } else { hex(&data) }),
                            Io(m) if m.to_lowercase().contains("refused") => "refused".into(),
                            Io(_) => "io".into(),
                            Authentication => "authentication".into(),
                            Timeout => "timeout".into(),
                            HostUnreachable => "hostunreachable".into(),
                            DnsNonroutable | DnsLoopback => "policy".into(),
                            Other => "other".into(),
                        }
                    }
                };
                // the forwarder fills in its own tls domain / client address / user agent
                let tok2 = match &ac.auth {
                    VSocksAuth::FromSource { source, extended, .. } => {
                        let (kind, text) = match source {
                            VAuthSource::Sni(x) => ("sni", x.clone()),
                            VAuthSource::ProxyBasic(x) => ("basic", x.clone()),
                        };
                        let decoded = ac.tok.split(' ').nth(4).unwrap_or("bad").to_string();
                        format!(
                            "src {} {} {} {} {} {} {}",
                            kind,
                            *extended as u8,
                            hex(text.as_bytes()),
                            decoded,
                            hex(b"tls.example"),
                            ip_tokens(&"203.0.113.1".parse().unwrap()),
                            hex(b"verif-agent")
                        )
                    }
                    _ => ac.tok.clone(),
                };
                ctx.emit(&format!("c15 fwd {} {} {}", tok2, req_tok, hex(&server)), &format!("{} | {}", hex(&upstream_got), ans));
                ctx.stat(&format!("fwd_{}", ans.split(' ').next().unwrap_or("")));
            }
        }
    }

    // relayed UDP datagrams (RFC 1928 section 7) over real loopback sockets
    rt.block_on(async {
        let relay = tokio::net::UdpSocket::bind("127.0.0.1:0").await.unwrap();
        let ra = relay.local_addr().unwrap();
        let mut server = vec![5u8, 0, 5, 0, 0, 1, 127, 0, 0, 1];
        server.extend_from_slice(&ra.port().to_be_bytes());
        let sends: Vec<(SocketAddr, Vec<u8>)> = vec![
            ("93.184.216.34:53".parse().unwrap(), b"query".to_vec()),
            ("[2001:db8::1]:443".parse().unwrap(), vec![]),
            ("0.0.0.0:0".parse().unwrap(), vec![0xff; 1200]),
        ];
        let mut incoming: Vec<Vec<u8>> = vec![
            vec![0, 0, 0, 1, 9, 9, 9, 9, 0, 53, b'o', b'k'],
            vec![0, 0, 0, 1, 9, 9, 9, 9, 0, 53],
            vec![0, 0, 0, 4, 0x20, 1, 0xd, 0xb8, 0, 0, 0, 0, 0, 0, 0, 0, 0, 0, 0, 7, 1, 187, 1, 2, 3],
            vec![0, 0, 0, 4, 0x20, 1, 0xd, 0xb8, 0, 0],
            vec![0, 0, 0, 4, 0x20, 1, 0xd, 0xb8, 0, 0, 0, 0, 0, 0, 0, 0, 0, 0, 0, 7, 1],
            vec![0, 0, 1, 1, 9, 9, 9, 9, 0, 53, 1],
            vec![1, 0, 0, 1, 9, 9, 9, 9, 0, 53, 1],
            vec![0, 0, 0, 3, 3, b'a', b'b', b'c', 0, 53, 1],
            vec![0, 0, 0],
            vec![0; 9],
            vec![0, 0, 0, 9, 9, 9, 9, 9, 0, 53, 1, 2],
        ];
        for _ in 0..40 {
            let n = ctx.rng.below(30) as usize;
            let mut p = ctx.rng.bytes(n);
            if p.len() > 3 && ctx.rng.chance(2, 3) {
                p[0] = 0;
                p[1] = 0;
                p[2] = 0;
                p[3] = *ctx.rng.pick(&[1u8, 4]);
            }
            incoming.push(p);
        }
        // (a panic on a relayed datagram is reported with the datagrams, not as a crashed suite)
        let exchanged = futures::FutureExt::catch_unwind(std::panic::AssertUnwindSafe(verif::socks5_udp_exchange(server, sends.clone(), &relay, incoming.clone()))).await;
        let exchanged = match exchanged {
            Ok(x) => x,
            Err(_) => {
                ctx.oracle_failure("panic", &format!("the SOCKS5 UDP association panicked on one of these datagrams from the relay: {}", incoming.iter().map(|p| hex(p)).collect::<Vec<_>>().join(" ")));
                for pkt in incoming.iter() {
                    ctx.emit(&format!("c15 udpunwrap {}", hex(pkt)), "panic");
                }
                return;
            }
        };
        match exchanged {
            Ok((seen, results)) => {
                for ((dst, data), wire) in sends.iter().zip(seen.iter()) {
                    ctx.emit(&format!("c15 udpwrap {} {}", sock_tok(dst), hex(data)), &hex(wire));
                    ctx.stat("udp_wrap");
                }
                for (pkt, r) in incoming.iter().zip(results.iter()) {
                    let ans = if let Some(rest) = r.strip_prefix("ok ") {
                        let mut it = rest.rsplitn(2, ' ');
                        let h = it.next().unwrap();
                        let a: SocketAddr = it.next().unwrap().parse().unwrap();
                        format!("ok {} {}", sock_tok(&a), h)
                    } else {
                        r.clone()
                    };
                    ctx.emit(&format!("c15 udpunwrap {}", hex(pkt)), &ans);
                    ctx.stat("udp_unwrap");
                }
            }
            Err(e) => ctx.oracle_failure("udp_association", &e),
        }
    });
}
