//! C16: histories of session / tunnel / UDP-flow / data-transfer events through real tunnel
//! sessions (in-memory HTTP/1.1 and HTTP/2 transports, the real direct forwarder, loopback TCP and
//! UDP servers) under tokio's paused clock; after every step the five documented series are read
//! from the text `Metrics::collect` produces, and at the end of every history through the real
//! metrics listener on a loopback port.
use crate::c07;
use crate::common::*;
use std::io::{Read, Write};
use std::net::{SocketAddr, TcpListener, TcpStream};
use std::time::{Duration, Instant};
use trusttunnel::core::Core;
use trusttunnel::settings::*;
use trusttunnel::shutdown::Shutdown;
use trusttunnel::verif::{self, vlive};

pub const ESTABLISH_MS: u64 = 5_000;
pub const TCP_IDLE_MS: u64 = 60_000;
pub const UDP_IDLE_MS: u64 = 8_000;
pub const SESSION_IDLE_MS: u64 = 3_600_000;
pub const LONG_MS: u64 = 3 * TCP_IDLE_MS;

pub fn make_core_pub() -> Core {
    make_core(None)
}

/// raw ICMP sockets are permitted here (probed once)
pub fn icmp_available() -> bool {
    static ONCE: std::sync::OnceLock<bool> = std::sync::OnceLock::new();
    *ONCE.get_or_init(|| {
        let fd = unsafe { libc::socket(libc::AF_INET, libc::SOCK_RAW, libc::IPPROTO_ICMP) };
        if fd >= 0 {
            unsafe { libc::close(fd) };
            true
        } else {
            false
        }
    })
}

fn make_core(metrics_addr: Option<SocketAddr>) -> Core {
    let mut b = Settings::builder()
        .listen_address(("127.0.0.1", 1))
        .unwrap()
        .listen_protocols(ListenProtocolSettings {
            http1: Some(Http1Settings::builder().build()),
            http2: Some(Http2Settings::builder().build()),
            quic: None,
        })
        .allow_private_network_connections(true)
        .connection_establishment_timeout(Duration::from_millis(ESTABLISH_MS))
        .tcp_connections_timeout(Duration::from_millis(TCP_IDLE_MS))
        .udp_connections_timeout(Duration::from_millis(UDP_IDLE_MS))
        .client_listener_timeout(Duration::from_millis(SESSION_IDLE_MS));
    if icmp_available() {
        b = b.ipv6_available(false).icmp(
            IcmpSettings::builder().interface_name("lo").request_timeout(Duration::from_millis(3_000)).recv_message_queue_capacity(16).build().unwrap(),
        );
    }
    if let Some(a) = metrics_addr {
        b = b.metrics(MetricsSettings::builder().listen_address(a).unwrap().request_timeout(Duration::from_secs(3)).build().unwrap());
    }
    let settings = b.build().unwrap();
    let hosts = TlsHostsSettings::builder()
        .main_hosts(vec![TlsHostInfo {
            hostname: "localhost".into(),
            cert_chain_path: FIXTURE_PEM.into(),
            private_key_path: FIXTURE_PEM.into(),
            allowed_sni: vec![],
        }])
        .build()
        .unwrap();
    Core::new(settings, None, hosts, Shutdown::new()).unwrap()
}

/// the TCP side of the world: a listening origin, a dead port and a port whose accept queue is
/// full (a connect to it hangs in SYN_SENT)
pub struct TcpWorld {
    pub listener: TcpListener,
    pub origin: SocketAddr,
    pub dead: SocketAddr,
    pub hanging: Option<SocketAddr>,
    _hang_keep: Vec<TcpStream>,
    _hang_listener: Option<socket2::Socket>,
}

pub fn make_tcp_world() -> TcpWorld {
    let listener = TcpListener::bind("127.0.0.1:0").unwrap();
    listener.set_nonblocking(true).unwrap();
    let origin = listener.local_addr().unwrap();
    let dead = TcpListener::bind("127.0.0.1:0").unwrap().local_addr().unwrap();
    // fill the accept queue of a listener nobody accepts from
    let hl = socket2::Socket::new(socket2::Domain::IPV4, socket2::Type::STREAM, None).unwrap();
    hl.bind(&SocketAddr::from(([127, 0, 0, 1], 0)).into()).unwrap();
    hl.listen(0).unwrap();
    let haddr = hl.local_addr().unwrap().as_socket().unwrap();
    let mut keep = vec![];
    let mut hanging = None;
    for _ in 0..8 {
        match TcpStream::connect_timeout(&haddr, Duration::from_millis(150)) {
            Ok(s) => keep.push(s),
            Err(e) if e.kind() == std::io::ErrorKind::TimedOut => {
                hanging = Some(haddr);
                break;
            }
            Err(_) => break,
        }
    }
    TcpWorld { listener, origin, dead, hanging, _hang_keep: keep, _hang_listener: Some(hl) }
}

#[derive(Clone, Debug)]
pub enum Op {
    /// open a session: 1 = HTTP/1.1, 2 = HTTP/2
    SessOpen(u8),
    /// the client drops session s
    SessClose(usize),
    /// CONNECT on session s to: 'T' origin, 'D' dead port, 'H' hanging port, 'U' the UDP multiplexer
    TunOpen(usize, char),
    /// n bytes client -> origin on tunnel t
    Up(usize, usize),
    /// n bytes origin -> client on tunnel t
    Down(usize, usize),
    /// close tunnel t: 'g' client ends its stream, 'r' client resets, 's' origin closes
    TunClose(usize, char),
    /// UDP datagram on mux tunnel t, flow f (c07 numbering), n payload bytes
    UdpUp(usize, usize, usize),
    /// reply of the flow's server to mux tunnel t
    UdpDown(usize, usize, usize),
    /// echo request on ICMP mux tunnel t to 127.0.0.1 (4: the kernel answers) or 2001:db8::1 (6: no IPv6, dropped), n data bytes
    IcmpEcho(usize, u8, usize),
    Adv(u64),
}

pub fn op_tok(o: &Op) -> String {
    match o {
        Op::SessOpen(p) => format!("so.{}", p),
        Op::SessClose(s) => format!("sc.{}", s),
        Op::TunOpen(s, k) => format!("to.{}.{}", s, k),
        Op::Up(t, n) => format!("up.{}.{}", t, n),
        Op::Down(t, n) => format!("dn.{}.{}", t, n),
        Op::TunClose(t, k) => format!("tc.{}.{}", t, k),
        Op::UdpUp(t, f, n) => format!("uu.{}.{}.{}", t, f, n),
        Op::UdpDown(t, f, n) => format!("ud.{}.{}.{}", t, f, n),
        Op::IcmpEcho(t, v, n) => format!("ic.{}.{}.{}", t, v, n),
        Op::Adv(ms) => format!("a.{}", ms),
    }
}

enum Sess {
    H1(vlive::H1Session),
    H2(vlive::H2Session),
    Gone,
}

enum TunIo {
    H1,
    H2(vlive::H2Stream),
}

struct Tun {
    sess: usize,
    kind: char,
    io: TunIo,
    /// the origin's side of the connection
    origin: Option<TcpStream>,
    origin_got: usize,
    status: u16,
    /// UDP: socket address each flow last spoke from
    peer: Vec<Option<SocketAddr>>,
    /// the origin's side was taken once (and possibly closed since): never wait for another connection
    origin_taken: bool,
}

pub struct Series {
    pub s1: i64,
    pub s2: i64,
    pub tcp: i64,
    pub udp: i64,
    pub in1: i64,
    pub in2: i64,
    pub out1: i64,
    pub out2: i64,
    pub s3: i64,
    pub in3: i64,
    pub out3: i64,
}

pub fn parse_series(text: &str) -> Series {
    let get = |name: &str, label: Option<&str>| -> i64 {
        for l in text.lines() {
            if l.starts_with('#') {
                continue;
            }
            let (lhs, val) = match l.rsplit_once(' ') {
                Some(x) => x,
                None => continue,
            };
            let ok = match label {
                None => lhs == name,
                Some(p) => lhs == format!("{}{{protocol_type=\"{}\"}}", name, p),
            };
            if ok {
                return val.parse().unwrap_or(-999);
            }
        }
        0
    };
    Series {
        s1: get("client_sessions", Some("http1")),
        s2: get("client_sessions", Some("http2")),
        tcp: get("outbound_tcp_sockets", None),
        udp: get("outbound_udp_sockets", None),
        in1: get("inbound_traffic_bytes", Some("http1")),
        in2: get("inbound_traffic_bytes", Some("http2")),
        out1: get("outbound_traffic_bytes", Some("http1")),
        out2: get("outbound_traffic_bytes", Some("http2")),
        s3: get("client_sessions", Some("http3")),
        in3: get("inbound_traffic_bytes", Some("http3")),
        out3: get("outbound_traffic_bytes", Some("http3")),
    }
}

/// `up_is_outbound`: which series the client -> peer bytes feed (calibrated once per run; the
/// property does not fix the orientation)
pub fn fmt_series(s: &Series, up_is_outbound: bool) -> String {
    let (u1, u2, d1, d2) = if up_is_outbound { (s.out1, s.out2, s.in1, s.in2) } else { (s.in1, s.in2, s.out1, s.out2) };
    // the third value of each triple is the HTTP/3 series (these histories open no HTTP/3 session: suite c16h3 does)
    let (u3, d3) = if up_is_outbound { (s.out3, s.in3) } else { (s.in3, s.out3) };
    format!("s{}/{}/{} t{} u{} up{}/{}/{} dn{}/{}/{}", s.s1, s.s2, s.s3, s.tcp, s.udp, u1, u2, u3, d1, d2, d3)
}

struct Hist<'a> {
    core: Core,
    tw: &'a TcpWorld,
    uw: &'a c07::World,
    sess: Vec<Sess>,
    tuns: Vec<Tun>,
    icmp_id: u16,
    icmp_seq: u16,
    /// keeps the ICMP forwarder's listener running
    _icmp: Option<trusttunnel::verif::vicmp::VIcmp>,
}

fn udp_wire(src: SocketAddr, dst: SocketAddr, payload: &[u8]) -> Vec<u8> {
    let mut v = vec![];
    let body_len = 16 + 2 + 16 + 2 + 1 + payload.len();
    v.extend_from_slice(&(body_len as u32).to_be_bytes());
    for a in [src, dst] {
        match a.ip() {
            std::net::IpAddr::V4(ip) => {
                v.extend_from_slice(&[0u8; 12]);
                v.extend_from_slice(&ip.octets());
            }
            std::net::IpAddr::V6(ip) => v.extend_from_slice(&ip.octets()),
        }
        v.extend_from_slice(&a.port().to_be_bytes());
    }
    v.push(0);
    v.extend_from_slice(payload);
    v
}

impl<'a> Hist<'a> {
    fn poll_all(&mut self) -> (usize, usize) {
        let mut got = 0;
        let mut flags = 0;
        for t in self.tuns.iter_mut() {
            match &mut t.io {
                TunIo::H2(st) => {
                    st.poll();
                    got += st.received.len();
                    flags += st.ended as usize + 2 * st.failed as usize + st.status.map(|x| x as usize).unwrap_or(0);
                    if t.status == 0 {
                        t.status = st.status.unwrap_or(0);
                    }
                }
                TunIo::H1 => {}
            }
            if let Some(o) = t.origin.as_mut() {
                let mut buf = [0u8; 65536];
                loop {
                    match o.read(&mut buf) {
                        Ok(0) => break,
                        Ok(n) => t.origin_got += n,
                        Err(_) => break,
                    }
                }
            }
            got += t.origin_got;
        }
        for s in self.sess.iter_mut() {
            match s {
                Sess::H1(h) => {
                    h.poll();
                    got += h.received.len();
                    flags += h.eof as usize + 2 * h.server_ended() as usize;
                }
                Sess::H2(h) => flags += 2 * h.server_ended() as usize,
                Sess::Gone => {}
            }
        }
        // UDP servers
        let mut buf = vec![0u8; 70000];
        for (d, s) in self.uw.srv.iter().enumerate() {
            if let Some(s) = s {
                while let Ok((len, from)) = s.recv_from(&mut buf) {
                    got += len;
                    if len >= 3 {
                        let (f, t) = (buf[0] as usize, buf[1] as usize);
                        if t < self.tuns.len() && f < self.tuns[t].peer.len() && f % c07::ND == d {
                            self.tuns[t].peer[f] = Some(from);
                        }
                    }
                }
            }
        }
        (got, flags)
    }

    fn accept_origin(&mut self) -> Option<TcpStream> {
        match self.tw.listener.accept() {
            Ok((s, _)) => {
                s.set_nonblocking(true).ok()?;
                // no Nagle: a small segment must not wait for the delayed ACK of the previous one
                s.set_nodelay(true).ok()?;
                Some(s)
            }
            Err(_) => None,
        }
    }

    async fn settle(&mut self) {
        let start = Instant::now();
        let mut last = (usize::MAX, 0usize, String::new());
        let mut stable_since = Instant::now();
        loop {
            for _ in 0..100 {
                tokio::task::yield_now().await;
            }
            // a tunnel waiting for its origin connection
            for i in 0..self.tuns.len() {
                if self.tuns[i].kind == 'T' && self.tuns[i].origin.is_none() && !self.tuns[i].origin_taken {
                    if let Some(s) = self.accept_origin() {
                        self.tuns[i].origin = Some(s);
                        self.tuns[i].origin_taken = true;
                    }
                }
            }
            let (got, flags) = self.poll_all();
            let snap = (got, flags, verif::metrics_text(&self.core).lines().filter(|l| !l.starts_with('#') && !l.starts_with("process_")).collect::<Vec<_>>().join(";"));
            if snap != last {
                last = snap;
                stable_since = Instant::now();
            } else if stable_since.elapsed() >= Duration::from_millis(4) {
                break;
            }
            if start.elapsed() > Duration::from_secs(3) {
                break;
            }
        }
    }

    async fn apply(&mut self, op: &Op) -> Result<(), String> {
        match op {
            Op::SessOpen(1) => self.sess.push(Sess::H1(vlive::open_h1(&self.core, "localhost"))),
            Op::SessOpen(_) => match vlive::open_h2(&self.core, "localhost").await {
                Some(s) => self.sess.push(Sess::H2(s)),
                None => return Err("h2 handshake failed".into()),
            },
            Op::SessClose(s) => {
                if *s >= self.sess.len() {
                    return Ok(());
                }
                if let Sess::H2(h) = &mut self.sess[*s] {
                    h.close();
                }
                self.sess[*s] = Sess::Gone;
                for t in self.tuns.iter_mut() {
                    if t.sess == *s {
                        // the client's stream handles go with the connection
                        t.io = TunIo::H1;
                    }
                }
            }
            Op::TunOpen(s, k) => {
                let target = match k {
                    'T' => self.tw.origin.to_string(),
                    'D' => self.tw.dead.to_string(),
                    'H' => self.tw.hanging.ok_or("no hanging port")?.to_string(),
                    'I' => "_icmp".to_string(),
                    _ => "_udp2".to_string(),
                };
                let nflows = self.uw.src.len() * c07::ND;
                let io = match &mut self.sess[*s] {
                    Sess::H2(h) => match h.request("CONNECT", &target, &[], false).await {
                        Some(st) => TunIo::H2(st),
                        None => TunIo::H1,
                    },
                    Sess::H1(h) => {
                        let head = format!("CONNECT {} HTTP/1.1\r\nHost: {}\r\n\r\n", target, target);
                        h.send(head.as_bytes());
                        TunIo::H1
                    }
                    Sess::Gone => TunIo::H1,
                };
                self.tuns.push(Tun { sess: *s, kind: *k, io, origin: None, origin_got: 0, status: 0, peer: vec![None; nflows], origin_taken: false });
            }
            Op::Up(t, n) => {
                let data = vec![0x55u8; *n];
                let s = self.tuns[*t].sess;
                match (&mut self.tuns[*t].io, &mut self.sess[s]) {
                    (TunIo::H2(st), _) => {
                        st.send(&data, false);
                    }
                    (TunIo::H1, Sess::H1(h)) => {
                        h.send(&data);
                    }
                    _ => {}
                }
            }
            Op::Down(t, n) => {
                if let Some(o) = self.tuns[*t].origin.as_mut() {
                    let data = vec![0x66u8; *n];
                    o.set_nonblocking(false).ok();
                    let _ = o.write_all(&data);
                    o.set_nonblocking(true).ok();
                }
            }
            Op::TunClose(t, k) => {
                let s = self.tuns[*t].sess;
                match k {
                    's' => {
                        // the origin ends its stream (and keeps reading)
                        if let Some(o) = self.tuns[*t].origin.as_ref() {
                            let _ = o.shutdown(std::net::Shutdown::Write);
                        }
                    }
                    'g' => match (&mut self.tuns[*t].io, &mut self.sess[s]) {
                        (TunIo::H2(st), _) => {
                            st.send(&[], true);
                        }
                        (TunIo::H1, Sess::H1(h)) => h.shutdown_write(),
                        _ => {}
                    },
                    _ => match (&mut self.tuns[*t].io, &mut self.sess[s]) {
                        (TunIo::H2(st), _) => st.reset(),
                        (TunIo::H1, Sess::H1(_)) => {
                            self.sess[s] = Sess::Gone;
                        }
                        _ => {}
                    },
                }
            }
            Op::UdpUp(t, f, n) => {
                let mut p = vec![0u8; (*n).max(3)];
                p[0] = *f as u8;
                p[1] = *t as u8;
                p[2] = 0;
                let wire = udp_wire(self.uw.src[f / c07::ND], self.uw.dst[f % c07::ND], &p);
                let s = self.tuns[*t].sess;
                match (&mut self.tuns[*t].io, &mut self.sess[s]) {
                    (TunIo::H2(st), _) => {
                        st.send(&wire, false);
                    }
                    (TunIo::H1, Sess::H1(h)) => {
                        h.send(&wire);
                    }
                    _ => {}
                }
            }
            Op::UdpDown(t, f, n) => {
                if let (Some(to), Some(s)) = (self.tuns[*t].peer[*f], self.uw.srv[f % c07::ND].as_ref()) {
                    let mut p = vec![0u8; (*n).max(3)];
                    p[0] = *f as u8;
                    p[1] = *t as u8;
                    p[2] = 1;
                    let _ = s.send_to(&p, to);
                }
            }
            Op::IcmpEcho(t, v, n) => {
                self.icmp_seq = self.icmp_seq.wrapping_add(1);
                let mut rec = self.icmp_id.to_be_bytes().to_vec();
                if *v == 4 {
                    rec.extend_from_slice(&[0u8; 12]);
                    rec.extend_from_slice(&[127, 0, 0, 1]);
                } else {
                    // (::1 would read as the zero-padded IPv4 address 0.0.0.1 in the 7.3 record)
                    rec.extend_from_slice(&"2001:db8::1".parse::<std::net::Ipv6Addr>().unwrap().octets());
                }
                rec.extend_from_slice(&self.icmp_seq.to_be_bytes());
                rec.push(64);
                rec.extend_from_slice(&(*n as u16).to_be_bytes());
                let s = self.tuns[*t].sess;
                match (&mut self.tuns[*t].io, &mut self.sess[s]) {
                    (TunIo::H2(st), _) => {
                        st.send(&rec, false);
                    }
                    (TunIo::H1, Sess::H1(h)) => {
                        h.send(&rec);
                    }
                    _ => {}
                }
            }
            Op::Adv(ms) => tokio::time::advance(Duration::from_millis(*ms)).await,
        }
        Ok(())
    }
}

pub fn http_get(addr: SocketAddr, path: &str) -> Option<(u16, Vec<u8>)> {
    let mut s = TcpStream::connect_timeout(&addr, Duration::from_secs(2)).ok()?;
    s.set_read_timeout(Some(Duration::from_secs(2))).ok()?;
    s.write_all(format!("GET {} HTTP/1.1\r\nHost: x\r\nConnection: close\r\n\r\n", path).as_bytes()).ok()?;
    let mut all = vec![];
    let mut buf = [0u8; 8192];
    loop {
        match s.read(&mut buf) {
            Ok(0) | Err(_) => break,
            Ok(n) => all.extend_from_slice(&buf[..n]),
        }
        // Content-Length framing: stop once the announced body is there
        if let Some(p) = all.windows(4).position(|w| w == b"\r\n\r\n") {
            let head = String::from_utf8_lossy(&all[..p]).to_ascii_lowercase();
            let cl = head.lines().find_map(|l| l.strip_prefix("content-length:").map(|v| v.trim().parse::<usize>().unwrap_or(0)));
            if let Some(cl) = cl {
                if all.len() >= p + 4 + cl {
                    break;
                }
            } else if !head.contains("transfer-encoding") {
                break;
            }
        }
    }
    let p = all.windows(4).position(|w| w == b"\r\n\r\n")?;
    let head = String::from_utf8_lossy(&all[..p]).to_string();
    let status = head.split(' ').nth(1)?.parse().ok()?;
    Some((status, all[p + 4..].to_vec()))
}

/// run one history; the answer lists the series after every step, then what the real listener
/// exported at the end
pub fn exec(tw: &TcpWorld, uw: &c07::World, ops: &[Op], up_is_outbound: bool, with_listener: bool) -> Result<String, String> {
    let rt = tokio::runtime::Builder::new_current_thread().enable_all().start_paused(true).build().unwrap();
    rt.block_on(async {
        let maddr = if with_listener {
            let l = TcpListener::bind("127.0.0.1:0").map_err(|e| e.to_string())?;
            Some(l.local_addr().unwrap())
        } else {
            None
        };
        let core = make_core(maddr);
        let listener_task = maddr.map(|_| vlive::spawn_metrics_listener(&core));
        let icmp = if icmp_available() { trusttunnel::verif::vicmp::spawn(&core, 0).and_then(|r| r.ok()) } else { None };
        let mut h = Hist { core, tw, uw, sess: vec![], tuns: vec![], icmp_id: (std::process::id() as u16).wrapping_mul(977) | 0x2000, icmp_seq: 0, _icmp: icmp };
        h.settle().await;
        let mut outs = vec![];
        for op in ops {
            h.apply(op).await.map_err(|e| format!("{}: {}", op_tok(op), e))?;
            h.settle().await;
            let txt = verif::metrics_text(&h.core);
            outs.push(fmt_series(&parse_series(&txt), up_is_outbound));
            if std::env::var("C16_DEBUG").is_ok() {
                let port = h.tw.origin.port();
                if let Ok(o) = std::process::Command::new("sh").arg("-c").arg(format!("ss -tnoi | grep -A1 ':{}' | head -8", port)).output() {
                    eprintln!("{}", String::from_utf8_lossy(&o.stdout));
                }
                for (i, t) in h.tuns.iter().enumerate() {
                    let got = match &t.io {
                        TunIo::H2(st) => st.received.len(),
                        TunIo::H1 => match &h.sess[t.sess] {
                            Sess::H1(x) => x.received.len(),
                            _ => 0,
                        },
                    };
                    eprintln!("  after {}: tunnel {} status {} client_got {} origin_got {} origin_present {}", op_tok(op), i, t.status, got, t.origin_got, t.origin.is_some());
                }
            }
        }
        if let Some(addr) = maddr {
            // the real listener, queried from another thread while this one keeps the runtime turning
            let (tx, rx) = std::sync::mpsc::channel();
            std::thread::spawn(move || {
                // other connections to the listener that have not sent a (complete) request must not delay the scrape
                let _silent: Vec<TcpStream> = (0..2).filter_map(|_| TcpStream::connect_timeout(&addr, Duration::from_secs(2)).ok()).collect();
                let mut _half = TcpStream::connect_timeout(&addr, Duration::from_secs(2)).ok();
                if let Some(h) = _half.as_mut() {
                    let _ = h.write_all(b"GET /metr");
                }
                std::thread::sleep(Duration::from_millis(30));
                let m = http_get(addr, "/metrics");
                let hc = http_get(addr, "/health-check");
                let other = http_get(addr, "/nope");
                // a query string does not change which resource is asked for (scrape configurations and probes add them)
                let mq = http_get(addr, "/metrics?format=prometheus").map(|x| x.0).unwrap_or(0);
                let hq = http_get(addr, "/health-check?probe=1").map(|x| x.0).unwrap_or(0);
                let _ = tx.send((m, hc, other, mq, hq));
            });
            let start = Instant::now();
            let got = loop {
                for _ in 0..50 {
                    tokio::task::yield_now().await;
                }
                if let Ok(x) = rx.try_recv() {
                    break Some(x);
                }
                if start.elapsed() > Duration::from_secs(8) {
                    break None;
                }
            };
            match got {
                Some((m, hc, other, mq, hq)) => {
                    if (mq, hq) != (200, 200) {
                        outs.push(format!("listener:with-query metrics={} health={}", mq, hq));
                    }
                    let (ms, mtext) = m.map(|(s, b)| (s, String::from_utf8_lossy(&b).to_string())).unwrap_or((0, String::new()));
                    outs.push(format!(
                        "listener:metrics={} {} health={} other={}",
                        ms,
                        fmt_series(&parse_series(&mtext), up_is_outbound),
                        hc.map(|x| x.0).unwrap_or(0),
                        other.map(|x| x.0).unwrap_or(0)
                    ));
                }
                None => outs.push("listener:no-answer".into()),
            }
        }
        if let Some(t) = listener_task {
            t.abort();
        }
        Ok(outs.join(" | "))
    })
}

/// what the generator remembers so as to emit operations that mean something
#[derive(Clone, Copy, PartialEq)]
enum GT {
    Tcp,
    Other,
    Udp,
    Icmp,
}

fn gen_hist(rng: &mut Rng, nflows: usize, n: usize, hanging: bool) -> Vec<Op> {
    let mut ops = vec![];
    let mut sess: Vec<(u8, bool, bool)> = vec![]; // proto, client side present, has had a tunnel
    let mut tuns: Vec<(usize, GT)> = vec![];
    let mut short_total = 0u64;
    let mut longs = 0;
    let lens = [1usize, 5, 100, 1000, 16384, 70000];
    for _ in 0..n {
        let live: Vec<usize> = (0..sess.len()).filter(|i| sess[*i].1).collect();
        let r = rng.below(100);
        if sess.is_empty() || (r < 10 && sess.len() < 4) {
            sess.push((if rng.chance(1, 3) { 1 } else { 2 }, true, false));
            ops.push(Op::SessOpen(sess.last().unwrap().0));
        } else if r < 18 && !live.is_empty() {
            let s = *rng.pick(&live);
            sess[s].1 = false;
            ops.push(Op::SessClose(s));
        } else if r < 40 && !live.is_empty() {
            let s = *rng.pick(&live);
            if sess[s].0 == 1 && sess[s].2 {
                continue;
            }
            sess[s].2 = true;
            let k = match rng.below(11) {
                0..=4 => 'T',
                5 => 'D',
                6 if hanging => 'H',
                7 if icmp_available() => 'I',
                _ => 'U',
            };
            tuns.push((s, match k { 'T' => GT::Tcp, 'U' => GT::Udp, 'I' => GT::Icmp, _ => GT::Other }));
            ops.push(Op::TunOpen(s, k));
        } else if r < 75 && !tuns.is_empty() {
            let t = rng.below(tuns.len() as u64) as usize;
            match tuns[t].1 {
                GT::Tcp => ops.push(if rng.chance(1, 2) { Op::Up(t, *rng.pick(&lens)) } else { Op::Down(t, *rng.pick(&lens)) }),
                GT::Udp => {
                    // few flows per history, so that flows are reused, fail twice, expire and come back
                    let f = if rng.chance(3, 4) { [0usize, 3, 2, 8][rng.below(4) as usize] % nflows } else { rng.below(nflows as u64) as usize };
                    let l = *rng.pick(&[3usize, 10, 100, 1200]);
                    ops.push(if rng.chance(3, 5) { Op::UdpUp(t, f, l) } else { Op::UdpDown(t, f, l) })
                }
                GT::Icmp => ops.push(Op::IcmpEcho(t, if rng.chance(2, 3) { 4 } else { 6 }, *rng.pick(&[0usize, 1, 56, 1000]))),
                GT::Other => {}
            }
        } else if r < 88 && !tuns.is_empty() {
            let t = rng.below(tuns.len() as u64) as usize;
            let how = *rng.pick(&['g', 'r', 's']);
            if how == 's' && tuns[t].1 != GT::Tcp {
                continue;
            }
            if sess[tuns[t].0].0 == 1 && how != 's' {
                sess[tuns[t].0].1 = false;
            }
            ops.push(Op::TunClose(t, how));
        } else {
            let ms = match rng.below(8) {
                0 => 1,
                1 => ESTABLISH_MS - 1,
                2 => ESTABLISH_MS + 1,
                3 => UDP_IDLE_MS / 4,
                4 => UDP_IDLE_MS + UDP_IDLE_MS / 4 + 1,
                5 | 6 => LONG_MS,
                _ => 1000,
            };
            if ms == LONG_MS {
                if longs >= 4 {
                    continue;
                }
                longs += 1;
                short_total = 0;
            } else {
                if short_total + ms > TCP_IDLE_MS / 2 {
                    continue;
                }
                short_total += ms;
            }
            ops.push(Op::Adv(ms));
        }
    }
    // wind everything down: the clients go away and every timer runs out
    if rng.chance(2, 3) {
        for s in 0..sess.len() {
            if sess[s].1 {
                ops.push(Op::SessClose(s));
            }
        }
        ops.push(Op::Adv(LONG_MS));
    }
    ops
}

fn families(text: &str) -> (String, String) {
    use std::collections::BTreeMap;
    let mut fams: BTreeMap<String, (String, BTreeMap<String, std::collections::BTreeSet<String>>)> = BTreeMap::new();
    let mut order = vec![];
    let mut seen = std::collections::BTreeSet::new();
    for l in text.lines() {
        if let Some(rest) = l.strip_prefix("# TYPE ") {
            let mut it = rest.split(' ');
            let (name, typ) = (it.next().unwrap_or(""), it.next().unwrap_or(""));
            if !name.starts_with("process_") {
                fams.insert(name.to_string(), (typ.to_string(), BTreeMap::new()));
                order.push(name.to_string());
            }
        } else if !l.starts_with('#') {
            if let Some((lhs, _)) = l.rsplit_once(' ') {
                if let Some((name, labels)) = lhs.split_once('{') {
                    if let Some((_, m)) = fams.get_mut(name) {
                        for kv in labels.trim_end_matches('}').split(',') {
                            if let Some((k, v)) = kv.split_once('=') {
                                let v = v.trim_matches('"').to_string();
                                seen.insert(v.clone());
                                m.entry(k.to_string()).or_default().insert(v);
                            }
                        }
                    }
                }
            }
        }
    }
    let rows: Vec<String> = fams
        .iter()
        .map(|(name, (typ, labels))| {
            let ls: Vec<String> = labels.iter().map(|(k, vs)| format!("{}={}", k, vs.iter().cloned().collect::<Vec<_>>().join(","))).collect();
            format!("{}:{}:{}", name, typ, ls.join(";"))
        })
        .collect();
    (seen.into_iter().collect::<Vec<_>>().join(","), rows.join(" "))
}

pub fn case_line(uw: &c07::World, ops: &[Op], with_listener: bool) -> String {
    format!(
        "c16 run E={} I={} U={} K={} L={} ops={}",
        ESTABLISH_MS,
        TCP_IDLE_MS,
        UDP_IDLE_MS,
        uw.kinds.iter().collect::<String>(),
        with_listener as u8,
        ops.iter().map(op_tok).collect::<Vec<_>>().join(";")
    )
}

/// Datagrams that arrive for an HTTP/1.1 client faster than its session drains them: the datagram sink of that codec holds
/// one, the rest is dropped. What was dropped was not relayed: the peer -> client counter of the protocol must equal the
/// payload bytes of the 6.4 records the client was actually sent (no model here: which ones are dropped is scheduling).
fn h1_datagram_bursts(ctx: &mut Ctx, tw: &TcpWorld, uw: &c07::World, up_is_outbound: bool) {
    datagram_bursts(ctx, tw, uw, up_is_outbound, false);
    // HTTP/2: the datagram sink drops what the stream's send window cannot take; three datagrams of 30 KB at once do not fit
    datagram_bursts(ctx, tw, uw, up_is_outbound, true);
}

fn datagram_bursts(ctx: &mut Ctx, tw: &TcpWorld, uw: &c07::World, up_is_outbound: bool, h2: bool) {
    let rt = tokio::runtime::Builder::new_current_thread().enable_all().start_paused(true).build().unwrap();
    let r: Result<(i64, usize, usize), String> = rt.block_on(async {
        let core = make_core(None);
        let mut h = Hist { core, tw, uw, sess: vec![], tuns: vec![], icmp_id: 0x2001, icmp_seq: 0, _icmp: None };
        h.settle().await;
        for op in [Op::SessOpen(if h2 { 2 } else { 1 }), Op::TunOpen(0, 'U'), Op::UdpUp(0, 0, 10)] {
            h.apply(&op).await.map_err(|e| format!("{}: {}", op_tok(&op), e))?;
            h.settle().await;
        }
        let mut sent = 0usize;
        for round in 0..10usize {
            for k in 0..3usize {
                let n = if h2 { 30_000 } else { 100 } + round + k;
                h.apply(&Op::UdpDown(0, 0, n)).await?;
                sent += n;
            }
            h.settle().await;
        }
        let series = parse_series(&verif::metrics_text(&h.core));
        let counted = match (h2, up_is_outbound) {
            (false, true) => series.in1,
            (false, false) => series.out1,
            (true, true) => series.in2,
            (true, false) => series.out2,
        };
        let body = if h2 {
            match &h.tuns[0].io {
                TunIo::H2(st) => st.received.clone(),
                _ => return Err("no HTTP/2 stream for the _udp2 tunnel".into()),
            }
        } else {
            let got = match &h.sess[0] {
                Sess::H1(x) => x.received.clone(),
                _ => vec![],
            };
            got.windows(4).position(|w| w == b"\r\n\r\n").map(|p| got[p + 4..].to_vec()).ok_or("no response head on the _udp2 tunnel")?
        };
        // 6.4 records: 4-byte length (excluding itself), 16+2 source, 16+2 destination, payload
        let (mut pos, mut delivered) = (0usize, 0usize);
        while pos + 4 <= body.len() {
            let len = u32::from_be_bytes([body[pos], body[pos + 1], body[pos + 2], body[pos + 3]]) as usize;
            if len < 36 || pos + 4 + len > body.len() {
                return Err(format!("the client's stream does not parse as 6.4 records at byte {}", pos));
            }
            delivered += len - 36;
            pos += 4 + len;
        }
        Ok((counted, delivered, sent))
    });
    match r {
        Ok((counted, delivered, sent)) => {
            ctx.stat(if h2 { "h2_datagram_bursts" } else { "h1_datagram_bursts" });
            ctx.stat(&format!("{}_datagram_bursts_{}", if h2 { "h2" } else { "h1" }, if delivered < sent { "with_drops" } else { "all_delivered" }));
            if counted != delivered as i64 {
                ctx.oracle_failure(
                    "counter_vs_delivered",
                    &format!(
                        "{} _udp2 tunnel, ten bursts of three datagrams from the peer ({} payload bytes): the client was sent records with {} payload bytes, the peer -> client traffic counter of {} says {}",
                        if h2 { "HTTP/2" } else { "HTTP/1.1" }, sent, delivered, if h2 { "http2" } else { "http1" }, counted
                    ),
                );
            }
        }
        Err(e) => ctx.oracle_failure("harness", &format!("{} datagram bursts: {}", if h2 { "h2" } else { "h1" }, e)),
    }
}

pub fn run(ctx: &mut Ctx) {
    let tw = make_tcp_world();
    let uw = c07::make_world(2);
    ctx.notes.push(format!("origin {} dead {} hanging {:?}; udp {:?}", tw.origin, tw.dead, tw.hanging, uw.dst));
    // calibration: which series counts client -> peer bytes
    let cal = vec![Op::SessOpen(2), Op::TunOpen(0, 'T'), Op::Up(0, 3), Op::Down(0, 5)];
    let up_is_outbound = match exec(&tw, &uw, &cal, true, false) {
        Ok(out) => {
            ctx.notes.push(format!("calibration: {}", out));
            let last = out.rsplit(" | ").next().unwrap_or("").to_string();
            if last.contains("up0/3/0 dn0/5/0") {
                true
            } else if last.contains("up0/5/0 dn0/3/0") {
                false
            } else {
                ctx.oracle_failure("calibration", &format!("3 bytes up and 5 bytes down on one HTTP/2 tunnel gave: {}", out));
                true
            }
        }
        Err(e) => {
            ctx.oracle_failure("harness", &format!("calibration: {}", e));
            true
        }
    };
    ctx.notes.push(format!("client->peer bytes feed {}", if up_is_outbound { "outbound_traffic_bytes" } else { "inbound_traffic_bytes" }));
    h1_datagram_bursts(ctx, &tw, &uw, up_is_outbound);
    let mut hist: Vec<Vec<Op>> = vec![];
    let so = Op::SessOpen;
    hist.push(vec![so(2), Op::TunOpen(0, 'T'), Op::Up(0, 100), Op::Down(0, 7), Op::TunClose(0, 'g'), Op::SessClose(0)]);
    hist.push(vec![so(2), Op::TunOpen(0, 'T'), Op::TunClose(0, 'r'), Op::TunOpen(0, 'T'), Op::TunClose(1, 's'), Op::SessClose(0)]);
    hist.push(vec![so(1), Op::TunOpen(0, 'T'), Op::Up(0, 100), Op::Down(0, 7), Op::TunClose(0, 'g')]);
    hist.push(vec![so(1), Op::TunOpen(0, 'T'), Op::Down(0, 9), Op::TunClose(0, 's')]);
    hist.push(vec![so(1), Op::TunOpen(0, 'T'), Op::Up(0, 9), Op::TunClose(0, 'r')]);
    hist.push(vec![so(2), Op::TunOpen(0, 'D'), Op::TunOpen(0, 'T'), Op::SessClose(0)]);
    hist.push(vec![so(1), Op::TunOpen(0, 'D')]);
    if tw.hanging.is_some() {
        hist.push(vec![so(2), Op::TunOpen(0, 'H'), Op::Adv(ESTABLISH_MS - 1), Op::Adv(2), Op::SessClose(0)]);
        hist.push(vec![so(2), Op::TunOpen(0, 'H'), Op::SessClose(0)]);
        hist.push(vec![so(1), Op::TunOpen(0, 'H'), Op::Adv(ESTABLISH_MS + 1)]);
    }
    hist.push(vec![so(2), Op::TunOpen(0, 'T'), Op::Adv(1000), Op::Adv(LONG_MS), Op::SessClose(0)]);
    hist.push(vec![so(2), Op::TunOpen(0, 'T'), Op::TunOpen(0, 'T'), Op::SessClose(0), Op::Adv(1), Op::Down(0, 4), Op::Adv(LONG_MS)]);
    hist.push(vec![so(1), Op::TunOpen(0, 'T'), Op::TunClose(0, 'g'), Op::Down(0, 5)]);
    hist.push(vec![so(2), Op::TunOpen(0, 'T'), Op::TunClose(0, 'g'), Op::Down(0, 5), Op::Up(0, 3), Op::TunClose(0, 's')]);
    hist.push(vec![so(2), Op::TunOpen(0, 'U'), Op::UdpUp(0, 0, 10), Op::UdpDown(0, 0, 20), Op::UdpUp(0, 1, 5), Op::Adv(UDP_IDLE_MS + UDP_IDLE_MS / 4 + 1), Op::UdpUp(0, 0, 10), Op::SessClose(0)]);
    hist.push(vec![so(1), Op::TunOpen(0, 'U'), Op::UdpUp(0, 2, 10), Op::UdpDown(0, 2, 20), Op::UdpUp(0, 3, 5), Op::UdpUp(0, 4, 5), Op::UdpUp(0, 0, 5), Op::TunClose(0, 'r')]);
    hist.push(vec![so(2), so(2), so(1), Op::SessClose(1), Op::SessClose(0), Op::SessClose(2)]);
    if icmp_available() {
        // ICMP multiplexer: answered echoes count both ways, an echo the forwarder drops (IPv6 peer, IPv6 off) counts nothing
        hist.push(vec![so(2), Op::TunOpen(0, 'I'), Op::IcmpEcho(0, 4, 56), Op::IcmpEcho(0, 6, 56), Op::IcmpEcho(0, 4, 0), Op::IcmpEcho(0, 6, 1000), Op::TunClose(0, 'g'), Op::SessClose(0)]);
        hist.push(vec![so(1), Op::TunOpen(0, 'I'), Op::IcmpEcho(0, 6, 8), Op::IcmpEcho(0, 4, 8), Op::TunClose(0, 'r')]);
    } else {
        ctx.notes.push("raw ICMP sockets are not permitted here: no ICMP multiplexer traffic in the histories".into());
    }
    // a UDP flow whose send fails (dead port, second datagram) next to healthy ones, then reuse and expiry
    hist.push(vec![so(2), Op::TunOpen(0, 'U'), Op::UdpUp(0, 0, 10), Op::UdpUp(0, 3, 5), Op::UdpUp(0, 3, 5), Op::UdpUp(0, 3, 5), Op::UdpUp(0, 1, 5), Op::UdpDown(0, 0, 7), Op::Adv(UDP_IDLE_MS + UDP_IDLE_MS / 4 + 1), Op::SessClose(0)]);
    hist.push(vec![so(1), Op::TunOpen(0, 'U'), Op::UdpUp(0, 8, 10), Op::UdpUp(0, 8, 10), Op::UdpUp(0, 4, 10), Op::UdpUp(0, 4, 10), Op::UdpUp(0, 8, 10), Op::TunClose(0, 'r')]);
    let n_random = if ctx.thorough() { 1200 } else { 120 };
    for _ in 0..n_random {
        let n = ctx.rng.range(4, 16) as usize;
        hist.push(gen_hist(&mut ctx.rng, 2 * c07::ND, n, tw.hanging.is_some()));
    }
    if let Ok(x) = std::env::var("C16_ONLY") {
        hist = vec![parse_ops(&x)];
    }
    for (i, ops) in hist.iter().enumerate() {
        let with_listener = i % 3 == 0;
        let q = case_line(&uw, ops, with_listener);
        match exec(&tw, &uw, ops, up_is_outbound, with_listener) {
            Ok(out) => ctx.emit(&q, &out),
            Err(e) => ctx.oracle_failure("harness", &format!("{} :: {}", q, e)),
        }
        for o in ops {
            ctx.stat(&format!("op_{}", op_tok(o).split('.').next().unwrap_or("")));
            if let Op::TunOpen(_, k) = o {
                ctx.stat(&format!("tunnel_{}", k));
            }
            if let Op::TunClose(_, k) = o {
                ctx.stat(&format!("close_{}", k));
            }
        }
    }
    // the exported families against METRICS.md
    let rt = tokio::runtime::Builder::new_current_thread().enable_all().start_paused(true).build().unwrap();
    let text = rt.block_on(async {
        let core = make_core(None);
        let mut h = Hist { core, tw: &tw, uw: &uw, sess: vec![], tuns: vec![], icmp_id: 1, icmp_seq: 0, _icmp: None };
        for op in [Op::SessOpen(1), Op::SessOpen(2), Op::TunOpen(0, 'T'), Op::TunOpen(1, 'T'), Op::Up(0, 1), Op::Up(1, 1), Op::Down(0, 1), Op::Down(1, 1)] {
            let _ = h.apply(&op).await;
            h.settle().await;
        }
        verif::metrics_text(&h.core)
    });
    let (seen, rows) = families(&text);
    ctx.emit(&format!("c16 families seen={}", seen), &rows);
}

pub fn parse_ops(s: &str) -> Vec<Op> {
    s.split(';')
        .filter_map(|t| {
            let p: Vec<&str> = t.split('.').collect();
            let n = |i: usize| p.get(i).and_then(|x| x.parse::<usize>().ok()).unwrap_or(0);
            let c = |i: usize| p.get(i).and_then(|x| x.chars().next()).unwrap_or('?');
            Some(match p[0] {
                "so" => Op::SessOpen(n(1) as u8),
                "sc" => Op::SessClose(n(1)),
                "to" => Op::TunOpen(n(1), c(2)),
                "up" => Op::Up(n(1), n(2)),
                "dn" => Op::Down(n(1), n(2)),
                "tc" => Op::TunClose(n(1), c(2)),
                "uu" => Op::UdpUp(n(1), n(2), n(3)),
                "ud" => Op::UdpDown(n(1), n(2), n(3)),
                "ic" => Op::IcmpEcho(n(1), n(2) as u8, n(3)),
                "a" => Op::Adv(n(1) as u64),
                _ => return None,
            })
        })
        .collect()
}
