//! C16 (live HTTP/3 part): the real `Core::listen` with its real metrics listener; QUIC sessions,
//! CONNECT tunnels to a loopback origin, traffic, the ways tunnels and sessions end - after every
//! phase `GET /metrics` must show client_sessions{http3}, outbound_tcp_sockets and the http3 traffic
//! counters equal to what is alive / was relayed, every other series untouched, and all gauges
//! back at zero at the end.
use crate::c02h3::{free_port, plain_hosts, LiveEndpoint};
use crate::c16::http_get;
use crate::common::*;
use crate::h3cli::H3Client;
use std::io::{Read, Write};
use std::net::{SocketAddr, TcpListener, TcpStream};
use std::time::{Duration, Instant};
use trusttunnel::core::Core;
use trusttunnel::settings::*;
use trusttunnel::shutdown::Shutdown;

#[derive(Debug, Clone, PartialEq, Default)]
struct Obs {
    s: [i64; 3],
    tcp: i64,
    udp: i64,
    inb: [i64; 3],
    outb: [i64; 3],
}

fn scrape(maddr: SocketAddr) -> Option<Obs> {
    let (st, body) = http_get(maddr, "/metrics")?;
    if st != 200 {
        return None;
    }
    let text = String::from_utf8_lossy(&body).to_string();
    let get = |name: &str, label: Option<&str>| -> i64 {
        for l in text.lines() {
            if l.starts_with('#') {
                continue;
            }
            let Some((lhs, val)) = l.rsplit_once(' ') else { continue };
            let ok = match label {
                None => lhs == name,
                Some(p) => lhs == format!("{}{{protocol_type=\"{}\"}}", name, p),
            };
            if ok {
                return val.parse().unwrap_or(-999);
            }
        }
        0
    };
    let p = ["http1", "http2", "http3"];
    Some(Obs {
        s: [0, 1, 2].map(|i| get("client_sessions", Some(p[i]))),
        tcp: get("outbound_tcp_sockets", None),
        udp: get("outbound_udp_sockets", None),
        inb: [0, 1, 2].map(|i| get("inbound_traffic_bytes", Some(p[i]))),
        outb: [0, 1, 2].map(|i| get("outbound_traffic_bytes", Some(p[i]))),
    })
}

struct Tun {
    sess: usize,
    id: u64,
    origin: TcpStream,
    open: bool,
}

pub fn run(ctx: &mut Ctx) {
    quiet_panics();
    let maddr: SocketAddr = ([127, 0, 0, 1], free_port()).into();
    let Some(ep) = LiveEndpoint::start(move |addr| {
        let settings = Settings::builder()
            .listen_address(addr)
            .unwrap()
            .listen_protocols(ListenProtocolSettings {
                http1: Some(Http1Settings::builder().build()),
                http2: Some(Http2Settings::builder().build()),
                quic: Some(QuicSettings::builder().build()),
            })
            .allow_private_network_connections(true)
            .metrics(MetricsSettings::builder().listen_address(maddr).unwrap().request_timeout(Duration::from_secs(3)).build().unwrap())
            .build()
            .unwrap();
        Core::new(settings, None, plain_hosts(), Shutdown::new()).unwrap()
    }) else {
        ctx.notes.push("c16h3: the endpoint's listener did not come up on loopback; nothing was run".to_string());
        return;
    };
    let origin_l = TcpListener::bind("127.0.0.1:0").unwrap();
    origin_l.set_nonblocking(true).unwrap();
    let target = origin_l.local_addr().unwrap().to_string();
    // the traffic counters are process-wide and only grow: everything is measured against the first scrape
    let t0 = Instant::now();
    let base = loop {
        if let Some(o) = scrape(maddr) {
            break o;
        }
        if t0.elapsed() > Duration::from_secs(5) {
            ctx.oracle_failure("metrics_listener", "GET /metrics on the metrics listener was not answered 200 within 5 s");
            return;
        }
        std::thread::sleep(Duration::from_millis(20));
    };
    match http_get(maddr, "/health-check") {
        Some((200, _)) => {}
        other => ctx.oracle_failure("health_check", &format!("GET /health-check on the metrics listener was answered {:?}", other.map(|x| x.0))),
    }
    let rounds = if ctx.thorough() { 12 } else { 3 };
    // which series the client -> peer bytes feed is not fixed by the property: settled by the first transfer of the run
    let mut up_is_outbound: Option<bool> = None;
    let (mut up_total, mut dn_total) = (0i64, 0i64);
    for round in 0..rounds {
        let mut sess: Vec<Option<H3Client>> = vec![];
        let mut tuns: Vec<Tun> = vec![];
        let mut history: Vec<String> = vec![];
        // what must be visible once things are quiet
        let mut check = |ctx: &mut Ctx, sess: &mut Vec<Option<H3Client>>, history: &Vec<String>, live_s: i64, live_tcp: i64, up_total: i64, dn_total: i64, up_is_outbound: &mut Option<bool>| {
            let t0 = Instant::now();
            let mut last = None;
            loop {
                for c in sess.iter_mut().flatten() {
                    c.pump();
                }
                if let Some(o) = scrape(maddr) {
                    let d_in = o.inb[2] - base.inb[2];
                    let d_out = o.outb[2] - base.outb[2];
                    if up_is_outbound.is_none() && up_total != dn_total && (d_in, d_out) == (up_total, dn_total) {
                        *up_is_outbound = Some(false);
                    }
                    if up_is_outbound.is_none() && up_total != dn_total && (d_out, d_in) == (up_total, dn_total) {
                        *up_is_outbound = Some(true);
                    }
                    let traffic_ok = match *up_is_outbound {
                        Some(true) => (d_out, d_in) == (up_total, dn_total),
                        Some(false) => (d_in, d_out) == (up_total, dn_total),
                        None => up_total == dn_total && d_in == up_total && d_out == up_total,
                    };
                    let others_ok = o.s[0] == base.s[0] && o.s[1] == base.s[1] && o.inb[..2] == base.inb[..2] && o.outb[..2] == base.outb[..2] && o.udp == base.udp;
                    if o.s[2] - base.s[2] == live_s && o.tcp - base.tcp == live_tcp && traffic_ok && others_ok {
                        return;
                    }
                    last = Some(o);
                }
                if t0.elapsed() > Duration::from_secs(3) {
                    break;
                }
                std::thread::sleep(Duration::from_millis(10));
            }
            ctx.oracle_failure(
                "metrics_differ",
                &format!(
                    "HTTP/3 history [{}]: {} live sessions, {} live outbound TCP connections, {} payload bytes client->origin and {} origin->client relayed so far; GET /metrics (relative to the start of the run) still shows after 3 s: client_sessions http1/http2/http3 = {:?}, outbound_tcp_sockets = {:?}, outbound_udp_sockets = {:?}, inbound_traffic_bytes = {:?}, outbound_traffic_bytes = {:?}",
                    history.join("; "),
                    live_s,
                    live_tcp,
                    up_total,
                    dn_total,
                    last.as_ref().map(|o| [o.s[0] - base.s[0], o.s[1] - base.s[1], o.s[2] - base.s[2]]),
                    last.as_ref().map(|o| o.tcp - base.tcp),
                    last.as_ref().map(|o| o.udp - base.udp),
                    last.as_ref().map(|o| [o.inb[0] - base.inb[0], o.inb[1] - base.inb[1], o.inb[2] - base.inb[2]]),
                    last.as_ref().map(|o| [o.outb[0] - base.outb[0], o.outb[1] - base.outb[1], o.outb[2] - base.outb[2]]),
                ),
            );
        };
        // ---- sessions ----
        let n_sess = 1 + ctx.rng.below(3) as usize;
        for k in 0..n_sess {
            match H3Client::connect(ep.addr, Some("localhost"), &[b"h3"], 1 << 20, Duration::from_secs(3)) {
                Ok(mut c) => {
                    let id = c.request("CONNECT", None, "_check", None, &[], false);
                    c.wait(Duration::from_secs(2), |c| id.and_then(|i| c.streams.get(&i)).map(|s| s.status.is_some()).unwrap_or(false));
                    sess.push(Some(c));
                    history.push(format!("session {} opened (health check answered)", k));
                }
                Err(e) => {
                    ctx.oracle_failure("quic_handshake_failed", &format!("{:?}", e));
                    return;
                }
            }
        }
        ctx.stat_add("h3_sessions", n_sess as u64);
        check(ctx, &mut sess, &history, n_sess as i64, 0, up_total, dn_total, &mut up_is_outbound);
        // ---- tunnels ----
        let n_tun = 1 + ctx.rng.below(4) as usize;
        for k in 0..n_tun {
            let si = ctx.rng.below(n_sess as u64) as usize;
            let c = sess[si].as_mut().unwrap();
            let Some(id) = c.request("CONNECT", None, &target, None, &[], false) else {
                ctx.oracle_failure("harness", "request stream refused");
                return;
            };
            let t0 = Instant::now();
            let origin = loop {
                c.pump();
                if let Ok((s, _)) = origin_l.accept() {
                    break Some(s);
                }
                if t0.elapsed() > Duration::from_secs(3) {
                    break None;
                }
                std::thread::sleep(Duration::from_millis(1));
            };
            let Some(origin) = origin else {
                ctx.oracle_failure("live_tunnel", "the origin saw no connection for a CONNECT over HTTP/3");
                return;
            };
            let _ = origin.set_nonblocking(true);
            let _ = origin.set_nodelay(true);
            c.wait(Duration::from_secs(2), |c| c.streams.get(&id).map(|s| s.status.is_some()).unwrap_or(false));
            tuns.push(Tun { sess: si, id, origin, open: true });
            history.push(format!("tunnel {} opened on session {}", k, si));
        }
        ctx.stat_add("h3_tunnels", n_tun as u64);
        check(ctx, &mut sess, &history, n_sess as i64, n_tun as i64, up_total, dn_total, &mut up_is_outbound);
        // ---- traffic ----
        for (k, t) in tuns.iter_mut().enumerate() {
            let up = *ctx.rng.pick(&[0usize, 3, 1000, 40_000]);
            let dn = *ctx.rng.pick(&[0usize, 5, 700, 90_000]);
            let c = sess[t.sess].as_mut().unwrap();
            let data = vec![0x55u8; up];
            let mut off = 0;
            let mut got_up = 0usize;
            let mut sent_dn = 0usize;
            let down = vec![0x33u8; dn];
            let before = c.stream(t.id).body.len();
            let t0 = Instant::now();
            let mut buf = vec![0u8; 65536];
            while (got_up < up || c.stream(t.id).body.len() < before + dn) && t0.elapsed() < Duration::from_secs(5) {
                if off < up {
                    off += c.send_body(t.id, &data[off..], false).unwrap_or(0);
                }
                if sent_dn < dn {
                    if let Ok(n) = t.origin.write(&down[sent_dn..]) {
                        sent_dn += n;
                    }
                }
                if let Ok(n) = t.origin.read(&mut buf) {
                    got_up += n;
                }
                c.pump();
            }
            if got_up != up || c.stream(t.id).body.len() != before + dn {
                ctx.oracle_failure("live_tunnel", &format!("tunnel {}: {} of {} bytes reached the origin, {} of {} the client", k, got_up, up, c.stream(t.id).body.len() - before, dn));
                return;
            }
            up_total += up as i64;
            dn_total += dn as i64;
            history.push(format!("tunnel {}: {} bytes client->origin, {} bytes origin->client", k, up, dn));
        }
        check(ctx, &mut sess, &history, n_sess as i64, n_tun as i64, up_total, dn_total, &mut up_is_outbound);
        // ---- tunnels end ----
        let mut live_tcp = n_tun as i64;
        for (k, t) in tuns.iter_mut().enumerate() {
            let how = ctx.rng.below(4);
            let c = sess[t.sess].as_mut().unwrap();
            match how {
                0 => {
                    // the client ends its side, the origin then closes: both directions have ended
                    let _ = c.finish(t.id);
                    let t0 = Instant::now();
                    let mut b = [0u8; 64];
                    while t0.elapsed() < Duration::from_secs(2) {
                        c.pump();
                        if let Ok(0) = t.origin.read(&mut b) {
                            break;
                        }
                    }
                    let _ = t.origin.shutdown(std::net::Shutdown::Both);
                    history.push(format!("tunnel {}: the client ended its stream, then the origin closed", k));
                }
                1 => {
                    let _ = t.origin.shutdown(std::net::Shutdown::Both);
                    c.wait(Duration::from_secs(2), |c| c.streams.get(&t.id).map(|s| s.finished || s.reset.is_some()).unwrap_or(true));
                    let _ = c.finish(t.id);
                    history.push(format!("tunnel {}: the origin closed", k));
                }
                2 => {
                    c.reset_stream(t.id, 0x10c);
                    history.push(format!("tunnel {}: the client reset its stream", k));
                }
                _ => {
                    history.push(format!("tunnel {} stays open", k));
                    continue;
                }
            }
            t.open = false;
            live_tcp -= 1;
            check(ctx, &mut sess, &history, n_sess as i64, live_tcp, up_total, dn_total, &mut up_is_outbound);
        }
        // ---- sessions end (with whatever tunnels they still carry) ----
        let mut live_s = n_sess as i64;
        for si in 0..n_sess {
            if let Some(mut c) = sess[si].take() {
                c.close();
                c.wait(Duration::from_millis(50), |_| false);
            }
            live_s -= 1;
            for t in tuns.iter_mut().filter(|t| t.sess == si && t.open) {
                t.open = false;
                live_tcp -= 1;
            }
            history.push(format!("session {} closed by the client", si));
            check(ctx, &mut sess, &history, live_s, live_tcp, up_total, dn_total, &mut up_is_outbound);
        }
        ctx.stat("h3_metric_histories");
        let _ = round;
    }
    ctx.notes.push(format!(
        "client->peer bytes of HTTP/3 tunnels feed {}",
        match up_is_outbound {
            Some(true) => "outbound_traffic_bytes",
            Some(false) => "inbound_traffic_bytes",
            None => "(not determined: equal totals)",
        }
    ));
}
