//! C16 (live HTTP/3 part): the real `Core::listen` with its real metrics listener; histories of
//! QUIC sessions, CONNECT tunnels to a loopback origin (or a refusing port), traffic, and the ways
//! tunnels and sessions end, in the operation language of the C16 model. After every operation the
//! series of `GET /metrics` (relative to the start of the run) are recorded once they are stable;
//! the Lean model predicts them. All gauges must be back at zero when every client is gone.
use crate::c02h3::{free_port, plain_hosts, LiveEndpoint};
use crate::c16::http_get;
use crate::common::*;
use crate::h3cli::H3Client;
use std::io::{Read, Write};
use std::net::{SocketAddr, TcpListener, TcpStream};
use std::time::{Duration, Instant};
use trusttunnel::core::Core;
use trusttunnel::settings::*;
use trusttunnel::shutdown::Shutdown;

#[derive(Debug, Clone, PartialEq, Default)]
struct Obs {
    s: [i64; 3],
    tcp: i64,
    udp: i64,
    inb: [i64; 3],
    outb: [i64; 3],
}

fn scrape(maddr: SocketAddr) -> Option<Obs> {
    let (st, body) = http_get(maddr, "/metrics")?;
    if st != 200 {
        return None;
    }
    let text = String::from_utf8_lossy(&body).to_string();
    let get = |name: &str, label: Option<&str>| -> i64 {
        for l in text.lines() {
            if l.starts_with('#') {
                continue;
            }
            let Some((lhs, val)) = l.rsplit_once(' ') else { continue };
            let ok = match label {
                None => lhs == name,
                Some(p) => lhs == format!("{}{{protocol_type=\"{}\"}}", name, p),
            };
            if ok {
                return val.parse().unwrap_or(-999);
            }
        }
        0
    };
    let p = ["http1", "http2", "http3"];
    Some(Obs {
        s: [0, 1, 2].map(|i| get("client_sessions", Some(p[i]))),
        tcp: get("outbound_tcp_sockets", None),
        udp: get("outbound_udp_sockets", None),
        inb: [0, 1, 2].map(|i| get("inbound_traffic_bytes", Some(p[i]))),
        outb: [0, 1, 2].map(|i| get("outbound_traffic_bytes", Some(p[i]))),
    })
}

#[derive(Clone, Debug)]
enum Op {
    SessOpen,
    SessClose(usize),
    /// CONNECT on session s: 'T' the origin, 'D' a port that refuses
    TunOpen(usize, char),
    Up(usize, usize),
    Down(usize, usize),
    /// 'g' the client ends its stream, 'r' the client resets it, 's' the origin ends its side
    TunClose(usize, char),
}

fn op_tok(o: &Op) -> String {
    match o {
        Op::SessOpen => "so.3".to_string(),
        Op::SessClose(s) => format!("sc.{}", s),
        Op::TunOpen(s, k) => format!("to.{}.{}", s, k),
        Op::Up(t, n) => format!("up.{}.{}", t, n),
        Op::Down(t, n) => format!("dn.{}.{}", t, n),
        Op::TunClose(t, k) => format!("tc.{}.{}", t, k),
    }
}

struct Tun {
    sess: usize,
    id: u64,
    origin: Option<TcpStream>,
    /// what the generator knows: the client may still send / the origin may still send / the tunnel is over
    client_open: bool,
    origin_open: bool,
    over: bool,
}

/// a history the suite can execute: data only where the sender can still send
fn gen_hist(rng: &mut Rng, n: usize) -> Vec<Op> {
    let mut ops = vec![Op::SessOpen];
    let mut sess_alive = vec![true];
    let mut tuns: Vec<(usize, bool, bool, bool)> = vec![]; // sess, client_open, origin_open, over
    for _ in 0..n {
        let live_sess: Vec<usize> = (0..sess_alive.len()).filter(|i| sess_alive[*i]).collect();
        let usable: Vec<usize> = (0..tuns.len()).filter(|t| !tuns[*t].3 && sess_alive[tuns[*t].0]).collect();
        let r = rng.below(100);
        if live_sess.is_empty() || r < 8 {
            if sess_alive.len() < 4 {
                ops.push(Op::SessOpen);
                sess_alive.push(true);
            }
        } else if r < 18 {
            let s = *rng.pick(&live_sess);
            ops.push(Op::SessClose(s));
            sess_alive[s] = false;
            for t in tuns.iter_mut().filter(|t| t.0 == s) {
                t.3 = true;
            }
        } else if r < 40 || usable.is_empty() {
            if tuns.len() < 8 {
                let s = *rng.pick(&live_sess);
                if rng.chance(1, 6) {
                    ops.push(Op::TunOpen(s, 'D'));
                    tuns.push((s, false, false, true));
                } else {
                    ops.push(Op::TunOpen(s, 'T'));
                    tuns.push((s, true, true, false));
                }
            }
        } else if r < 60 {
            let t = *rng.pick(&usable);
            if tuns[t].1 {
                ops.push(Op::Up(t, *rng.pick(&[1usize, 3, 1000, 40_000])));
            }
        } else if r < 80 {
            let t = *rng.pick(&usable);
            if tuns[t].2 {
                ops.push(Op::Down(t, *rng.pick(&[1usize, 5, 700, 90_000])));
            }
        } else {
            let t = *rng.pick(&usable);
            match rng.below(3) {
                0 if tuns[t].1 => {
                    ops.push(Op::TunClose(t, 'g'));
                    tuns[t].1 = false;
                    if !tuns[t].2 {
                        tuns[t].3 = true;
                    }
                }
                1 => {
                    ops.push(Op::TunClose(t, 'r'));
                    tuns[t].3 = true;
                }
                2 if tuns[t].2 => {
                    ops.push(Op::TunClose(t, 's'));
                    tuns[t].2 = false;
                    if !tuns[t].1 {
                        tuns[t].3 = true;
                    }
                }
                _ => {}
            }
        }
    }
    // everybody leaves
    for (s, alive) in sess_alive.iter().enumerate() {
        if *alive {
            ops.push(Op::SessClose(s));
        }
    }
    ops
}

pub fn run(ctx: &mut Ctx) {
    quiet_panics();
    let maddr: SocketAddr = ([127, 0, 0, 1], free_port()).into();
    let Some(ep) = LiveEndpoint::start(move |addr| {
        let settings = Settings::builder()
            .listen_address(addr)
            .unwrap()
            .listen_protocols(ListenProtocolSettings {
                http1: Some(Http1Settings::builder().build()),
                http2: Some(Http2Settings::builder().build()),
                quic: Some(QuicSettings::builder().build()),
            })
            .allow_private_network_connections(true)
            .metrics(MetricsSettings::builder().listen_address(maddr).unwrap().request_timeout(Duration::from_secs(3)).build().unwrap())
            .build()
            .unwrap();
        Core::new(settings, None, plain_hosts(), Shutdown::new()).unwrap()
    }) else {
        ctx.notes.push("c16h3: the endpoint's listener did not come up on loopback; nothing was run".to_string());
        return;
    };
    let origin_l = TcpListener::bind("127.0.0.1:0").unwrap();
    origin_l.set_nonblocking(true).unwrap();
    let target = origin_l.local_addr().unwrap().to_string();
    let dead = TcpListener::bind("127.0.0.1:0").unwrap().local_addr().unwrap().to_string();
    let t0 = Instant::now();
    while scrape(maddr).is_none() {
        if t0.elapsed() > Duration::from_secs(5) {
            ctx.oracle_failure("metrics_listener", "GET /metrics on the metrics listener was not answered 200 within 5 s");
            return;
        }
        std::thread::sleep(Duration::from_millis(20));
    }
    // silent / half-written connections to the metrics listener must not delay the others
    let _silent: Vec<std::net::TcpStream> = (0..2).filter_map(|_| std::net::TcpStream::connect_timeout(&maddr, Duration::from_secs(2)).ok()).collect();
    let mut _half = std::net::TcpStream::connect_timeout(&maddr, Duration::from_secs(2)).ok();
    if let Some(h) = _half.as_mut() {
        use std::io::Write;
        let _ = h.write_all(b"GET /metr");
    }
    std::thread::sleep(Duration::from_millis(30));
    match http_get(maddr, "/health-check") {
        Some((200, _)) => {}
        other => ctx.oracle_failure("health_check", &format!("GET /health-check on the metrics listener was answered {:?}", other.map(|x| x.0))),
    }
    // which series the client -> peer bytes feed is not fixed by the property: calibrated once (3 bytes up, 5 down)
    let mut up_is_outbound = true;
    let mut hists: Vec<Vec<Op>> = vec![
        vec![Op::SessOpen, Op::TunOpen(0, 'T'), Op::Up(0, 3), Op::Down(0, 5), Op::TunClose(0, 'g'), Op::TunClose(0, 's'), Op::SessClose(0)],
        vec![Op::SessOpen, Op::SessOpen, Op::TunOpen(0, 'T'), Op::TunOpen(0, 'T'), Op::TunOpen(1, 'T'), Op::Up(0, 40), Op::Down(2, 7), Op::TunClose(0, 'g'), Op::Down(0, 5), Op::TunClose(0, 's'), Op::SessClose(1), Op::SessClose(0)],
        vec![Op::SessOpen, Op::TunOpen(0, 'D'), Op::TunOpen(0, 'T'), Op::TunClose(1, 's'), Op::Up(1, 9), Op::TunClose(1, 'r'), Op::SessClose(0)],
        vec![Op::SessOpen, Op::TunOpen(0, 'T'), Op::TunClose(0, 'g'), Op::TunClose(0, 'r'), Op::TunOpen(0, 'T'), Op::TunClose(1, 'r'), Op::SessClose(0)],
    ];
    let n_random = if ctx.thorough() { 40 } else { 8 };
    for _ in 0..n_random {
        let n = ctx.rng.range(4, 14) as usize;
        hists.push(gen_hist(&mut ctx.rng, n));
    }
    if std::env::var("C16H3_VANISH_ONLY").is_ok() {
        hists.clear();
    }
    for (hi, ops) in hists.iter().enumerate() {
        let base = match scrape(maddr) {
            Some(o) => o,
            None => {
                ctx.oracle_failure("metrics_listener", "GET /metrics failed between histories");
                return;
            }
        };
        if base.s != [0, 0, 0] || base.tcp != 0 || base.udp != 0 {
            // wait for the previous history's clients to be released
            let t0 = Instant::now();
            let mut ok = false;
            while t0.elapsed() < Duration::from_secs(3) {
                if let Some(o) = scrape(maddr) {
                    if o.s == [0, 0, 0] && o.tcp == 0 && o.udp == 0 {
                        ok = true;
                        break;
                    }
                }
                std::thread::sleep(Duration::from_millis(20));
            }
            if !ok {
                ctx.oracle_failure("gauges_not_zero", &format!("3 s after every client of the previous history had gone the gauges read {:?}", scrape(maddr).map(|o| (o.s, o.tcp, o.udp))));
            }
        }
        let base = scrape(maddr).unwrap_or(base);
        let mut sess: Vec<Option<H3Client>> = vec![];
        let mut tuns: Vec<Tun> = vec![];
        let mut outs: Vec<String> = vec![];
        let mut failed: Option<String> = None;
        for op in ops {
            match op {
                Op::SessOpen => match H3Client::connect(ep.addr, Some("localhost"), &[b"h3"], 1 << 20, Duration::from_secs(3)) {
                    Ok(mut c) => {
                        let id = c.request("CONNECT", None, "_check", None, &[], false);
                        c.wait(Duration::from_secs(2), |c| id.and_then(|i| c.streams.get(&i)).map(|s| s.status.is_some()).unwrap_or(false));
                        sess.push(Some(c));
                    }
                    Err(e) => failed = Some(format!("QUIC handshake failed: {:?}", e)),
                },
                Op::SessClose(s) => {
                    if let Some(mut c) = sess[*s].take() {
                        c.close();
                        c.wait(Duration::from_millis(30), |_| false);
                    }
                }
                Op::TunOpen(s, k) => {
                    let Some(c) = sess[*s].as_mut() else {
                        failed = Some("harness: tunnel on a closed session".to_string());
                        break;
                    };
                    let dest = if *k == 'T' { &target } else { &dead };
                    let Some(id) = c.request("CONNECT", None, dest, None, &[], false) else {
                        failed = Some("request stream refused".to_string());
                        break;
                    };
                    let mut origin = None;
                    if *k == 'T' {
                        let t0 = Instant::now();
                        while t0.elapsed() < Duration::from_secs(3) {
                            c.pump();
                            if let Ok((s, _)) = origin_l.accept() {
                                let _ = s.set_nonblocking(true);
                                let _ = s.set_nodelay(true);
                                origin = Some(s);
                                break;
                            }
                            std::thread::sleep(Duration::from_millis(1));
                        }
                        if origin.is_none() {
                            failed = Some("the origin saw no connection for a CONNECT over HTTP/3".to_string());
                            break;
                        }
                    }
                    c.wait(Duration::from_secs(2), |c| c.streams.get(&id).map(|s| s.status.is_some()).unwrap_or(false));
                    let want = if *k == 'T' { 200 } else { 502 };
                    if c.stream(id).status != Some(want) {
                        failed = Some(format!("CONNECT ({}) answered {:?}", k, c.stream(id).status));
                        break;
                    }
                    tuns.push(Tun { sess: *s, id, origin, client_open: *k == 'T', origin_open: *k == 'T', over: *k != 'T' });
                }
                Op::Up(t, n) => {
                    let tn = &mut tuns[*t];
                    let (Some(c), Some(o)) = (sess[tn.sess].as_mut(), tn.origin.as_mut()) else { continue };
                    let data = vec![0x55u8; *n];
                    let (mut off, mut got) = (0usize, 0usize);
                    let mut buf = vec![0u8; 65536];
                    let t0 = Instant::now();
                    while got < *n && t0.elapsed() < Duration::from_secs(5) {
                        if off < *n {
                            off += c.send_body(tn.id, &data[off..], false).unwrap_or(0);
                        }
                        if let Ok(k) = o.read(&mut buf) {
                            got += k;
                        }
                        c.pump();
                    }
                    if got != *n {
                        failed = Some(format!("{} of {} bytes reached the origin", got, n));
                        break;
                    }
                }
                Op::Down(t, n) => {
                    let tn = &mut tuns[*t];
                    let (Some(c), Some(o)) = (sess[tn.sess].as_mut(), tn.origin.as_mut()) else { continue };
                    let data = vec![0x33u8; *n];
                    let before = c.stream(tn.id).body.len();
                    let mut off = 0usize;
                    let t0 = Instant::now();
                    while c.stream(tn.id).body.len() < before + *n && t0.elapsed() < Duration::from_secs(5) {
                        if off < *n {
                            if let Ok(k) = o.write(&data[off..]) {
                                off += k;
                            }
                        }
                        c.pump();
                    }
                    if c.stream(tn.id).body.len() != before + *n {
                        failed = Some(format!("{} of {} bytes reached the client", c.stream(tn.id).body.len() - before, n));
                        break;
                    }
                }
                Op::TunClose(t, how) => {
                    let tn = &mut tuns[*t];
                    match how {
                        'g' => {
                            if let Some(c) = sess[tn.sess].as_mut() {
                                let t0 = Instant::now();
                                while !c.finish(tn.id).unwrap_or(true) && t0.elapsed() < Duration::from_secs(2) {}
                                // the origin sees the end of the client's stream
                                if let Some(o) = tn.origin.as_mut() {
                                    let mut b = [0u8; 64];
                                    let t0 = Instant::now();
                                    while t0.elapsed() < Duration::from_secs(2) {
                                        c.pump();
                                        if let Ok(0) = o.read(&mut b) {
                                            break;
                                        }
                                    }
                                }
                            }
                            tn.client_open = false;
                        }
                        'r' => {
                            if let Some(c) = sess[tn.sess].as_mut() {
                                c.reset_stream(tn.id, 0x10c);
                            }
                            tn.client_open = false;
                            tn.over = true;
                        }
                        _ => {
                            if let Some(o) = tn.origin.as_mut() {
                                let _ = o.shutdown(std::net::Shutdown::Write);
                            }
                            if let Some(c) = sess[tn.sess].as_mut() {
                                let id = tn.id;
                                c.wait(Duration::from_secs(2), |c| c.streams.get(&id).map(|s| s.finished || s.reset.is_some()).unwrap_or(true));
                            }
                            tn.origin_open = false;
                        }
                    }
                    if !tn.client_open && !tn.origin_open {
                        tn.over = true;
                    }
                }
            }
            // the series once they are stable: equal scrapes over a window (longer after operations whose effect arrives
            // asynchronously - a close is noticed through QUIC's draining timer - and longer still on a slow machine), at most 4 s
            let asynchronous = matches!(op, Op::SessClose(_) | Op::TunClose(_, _) | Op::TunOpen(_, _));
            let t0 = Instant::now();
            let probe = Instant::now();
            let mut prev: Option<Obs> = scrape(maddr);
            let scrape_cost = probe.elapsed();
            let window = Duration::from_millis(if asynchronous { 300 } else { 100 }) + scrape_cost * 20;
            let mut stable_since = Instant::now();
            let settled = loop {
                let t1 = Instant::now();
                while t1.elapsed() < Duration::from_millis(30) {
                    for c in sess.iter_mut().flatten() {
                        c.pump();
                    }
                    std::thread::sleep(Duration::from_millis(2));
                }
                let cur = scrape(maddr);
                if cur != prev {
                    stable_since = Instant::now();
                    prev = cur.clone();
                }
                if (cur.is_some() && stable_since.elapsed() >= window) || t0.elapsed() > Duration::from_secs(4) {
                    break cur;
                }
            };
            let Some(o) = settled else {
                failed = Some("GET /metrics failed".to_string());
                break;
            };
            let d = |a: [i64; 3], b: [i64; 3]| [a[0] - b[0], a[1] - b[1], a[2] - b[2]];
            let (s, i, u) = (d(o.s, base.s), d(o.inb, base.inb), d(o.outb, base.outb));
            if hi == 0 && outs.len() == 3 {
                // calibration point: 3 bytes up, 5 bytes down so far
                if (u[2], i[2]) == (3, 5) {
                    up_is_outbound = true;
                } else if (i[2], u[2]) == (3, 5) {
                    up_is_outbound = false;
                } else {
                    ctx.oracle_failure("calibration", &format!("3 bytes up and 5 bytes down on one HTTP/3 tunnel gave inbound {:?} outbound {:?}", i, u));
                }
            }
            let (up, dn) = if up_is_outbound { (u, i) } else { (i, u) };
            outs.push(format!("s{}/{}/{} t{} u{} up{}/{}/{} dn{}/{}/{}", s[0], s[1], s[2], o.tcp - base.tcp, o.udp - base.udp, up[0], up[1], up[2], dn[0], dn[1], dn[2]));
        }
        for c in sess.iter_mut().flatten() {
            c.close();
        }
        let q = format!("c16 run E=30000 I=604800000 U=120000 K=L L=0 ops={}", ops.iter().map(op_tok).collect::<Vec<_>>().join(";"));
        match failed {
            Some(e) => ctx.oracle_failure("live_h3_history", &format!("{} :: {} (after {} operations)", q, e, outs.len())),
            None => ctx.emit(&q, &outs.join(" | ")),
        }
        ctx.stat("h3_metric_histories");
        ctx.stat_add("h3_operations", ops.len() as u64);
    }
    // ---- a client that vanishes without closing (no CONNECTION_CLOSE, no more datagrams) ---------------------------------
    // its session and tunnels are released by the QUIC idle timeout - also when the endpoint still had data for it
    drop(ep);
    let maddr2: SocketAddr = ([127, 0, 0, 1], free_port()).into();
    const IDLE_MS: u64 = 2000;
    if let Some(ep2) = LiveEndpoint::start(move |addr| {
        let settings = Settings::builder()
            .listen_address(addr)
            .unwrap()
            .listen_protocols(ListenProtocolSettings {
                http1: Some(Http1Settings::builder().build()),
                http2: Some(Http2Settings::builder().build()),
                quic: Some(QuicSettings::builder().build()),
            })
            .allow_private_network_connections(true)
            .metrics(MetricsSettings::builder().listen_address(maddr2).unwrap().request_timeout(Duration::from_secs(3)).build().unwrap())
            .build()
            .unwrap();
        Core::new(settings, None, plain_hosts(), Shutdown::new()).unwrap()
    }) {
        let t0 = Instant::now();
        while scrape(maddr2).is_none() && t0.elapsed() < Duration::from_secs(5) {
            std::thread::sleep(Duration::from_millis(20));
        }
        for late_data in [false, true] {
            ctx.stat("h3_vanishing_clients");
            let desc = format!(
                "an HTTP/3 client with an open tunnel stops sending without closing (QUIC idle timeout {} ms){}",
                IDLE_MS,
                if late_data { "; the origin sends 1000 bytes 1 s later" } else { "" }
            );
            // the client asks for the short idle timeout; the endpoint's own session timeout stays at its default
            let Ok(mut c) = H3Client::connect_idle(ep2.addr, Some("localhost"), &[b"h3"], 1 << 20, Duration::from_secs(3), IDLE_MS) else {
                ctx.oracle_failure("quic_handshake_failed", &desc);
                continue;
            };
            let Some(id) = c.request("CONNECT", None, &target, None, &[], false) else { continue };
            let t0 = Instant::now();
            let mut origin = None;
            while t0.elapsed() < Duration::from_secs(3) && origin.is_none() {
                c.pump();
                if let Ok((s, _)) = origin_l.accept() {
                    origin = Some(s);
                }
                std::thread::sleep(Duration::from_millis(1));
            }
            c.wait(Duration::from_secs(2), |c| c.streams.get(&id).map(|s| s.status.is_some()).unwrap_or(false));
            let up = scrape(maddr2);
            if up.as_ref().map(|o| (o.s[2], o.tcp)) != Some((1, 1)) {
                ctx.oracle_failure("metrics_differ", &format!("{}: with the session and its tunnel up the gauges read {:?}", desc, up.map(|o| (o.s, o.tcp))));
            }
            // the client is gone without a word: it is neither polled nor closed any more (its socket stays bound, so
            // nothing is ever answered to the endpoint)
            let gone = Instant::now();
            let _silent = c;
            if late_data {
                std::thread::sleep(Duration::from_millis(1000));
                if let Some(o) = origin.as_mut() {
                    let _ = o.write_all(&[0x44u8; 1000]);
                }
            }
            // released by idle timeout + draining; generous bound
            let bound = Duration::from_millis(IDLE_MS + 1000 + 4000);
            let mut last = None;
            let mut ok = false;
            while gone.elapsed() < bound {
                last = scrape(maddr2);
                if last.as_ref().map(|o| o.s[2] == 0 && o.tcp == 0).unwrap_or(false) {
                    ok = true;
                    break;
                }
                std::thread::sleep(Duration::from_millis(50));
            }
            if !ok {
                ctx.oracle_failure(
                    "gauges_not_zero",
                    &format!("{}: {} ms after the client had gone client_sessions{{http3}} = {:?}, outbound_tcp_sockets = {:?}", desc, gone.elapsed().as_millis(), last.as_ref().map(|o| o.s[2]), last.as_ref().map(|o| o.tcp)),
                );
            } else {
                ctx.notes.push(format!("vanished client (late data: {}): gauges back at zero after {} ms", late_data, gone.elapsed().as_millis()));
            }
            drop(origin);
        }
    }
    ctx.notes.push(format!("client->peer bytes of HTTP/3 tunnels feed {}", if up_is_outbound { "outbound_traffic_bytes" } else { "inbound_traffic_bytes" }));
}
