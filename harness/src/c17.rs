//! C17: plain-HTTP forwarding. Origin responses (Content-Length, chunked, close-delimited, bodiless,
//! 1xx prefixes) x segmentations of the origin byte stream x acceptance patterns of the client
//! sink, through the real `into_forwarded` source/sink driven by the real `DuplexPipe`.
use crate::common::*;
use trusttunnel::verif::vfwd::{self, VFwdRequest};
use trusttunnel::verif::vpipe::{LogEntry, SinkScript, SrcEv, SrcScript};

#[derive(Clone, Debug)]
pub struct Case {
    pub version: u8,
    pub method: String,
    pub uri: String,
    pub headers: Vec<(String, Vec<u8>)>,
    /// request body chunks, then end of stream
    pub body: Vec<Vec<u8>>,
    /// the origin's byte stream, as segments
    pub origin: Vec<Vec<u8>>,
    /// the origin closes after the last segment (otherwise it stays silent)
    pub origin_closes: bool,
    /// bytes the client-side sink accepts per write call (then everything)
    pub quotas: Vec<usize>,
    /// bytes the origin-side sink accepts per write call
    pub origin_quotas: Vec<usize>,
}

fn unhex(s: &str) -> Vec<u8> {
    if s == "-" {
        return vec![];
    }
    (0..s.len() / 2).map(|i| u8::from_str_radix(&s[2 * i..2 * i + 2], 16).unwrap_or(0)).collect()
}

fn join_hex(v: &[Vec<u8>]) -> String {
    if v.is_empty() {
        "-".into()
    } else {
        v.iter().map(|x| hex(x)).collect::<Vec<_>>().join(",")
    }
}

fn nums(v: &[usize]) -> String {
    if v.is_empty() {
        "-".into()
    } else {
        v.iter().map(|x| x.to_string()).collect::<Vec<_>>().join(",")
    }
}

pub fn case_line(c: &Case) -> String {
    let hs: Vec<String> = c.headers.iter().map(|(n, v)| format!("{}:{}", hex(n.as_bytes()), hex(v))).collect();
    // the parsed view of the URI is a model input (http crate)
    let (target, authority) = match c.uri.parse::<http::Uri>() {
        Ok(u) => (
            u.path_and_query().map(|x| x.as_str().to_string()).unwrap_or_else(|| u.path().to_string()),
            u.authority().map(|x| x.as_str().to_string()).unwrap_or_default(),
        ),
        Err(_) => (String::new(), String::new()),
    };
    format!(
        "c17 run v={} m={} uri={} t={} a={} h={} body={} origin={} close={} q={} oq={}",
        c.version,
        c.method,
        hex(c.uri.as_bytes()),
        hex(target.as_bytes()),
        hex(authority.as_bytes()),
        if hs.is_empty() { "-".to_string() } else { hs.join(",") },
        join_hex(&c.body),
        join_hex(&c.origin),
        c.origin_closes as u8,
        nums(&c.quotas),
        nums(&c.origin_quotas)
    )
}

/// accepted prefix of every logged write of direction `dir`
fn accepted(log: &[LogEntry], dir: u8) -> Vec<u8> {
    let mut out = vec![];
    for e in log {
        if e.dir == dir && e.call.starts_with("write:") {
            if let Some(k) = e.resp.strip_prefix("accepted:").and_then(|x| x.parse::<usize>().ok()) {
                let data = unhex(&e.call[6..]);
                out.extend_from_slice(&data[..k.min(data.len())]);
            }
        }
    }
    out
}

pub fn observe(built: bool, result: &str, log: &[LogEntry]) -> String {
    if !built {
        let bad: Vec<String> = log.iter().filter(|e| e.dir == 3 && e.call.starts_with("head")).map(|e| e.resp.split(':').next().unwrap_or("").to_string()).collect();
        return format!("refused:{} answered=[{}]", result, bad.join(","));
    }
    let req = accepted(log, 0);
    let req_eof = log.iter().filter(|e| e.dir == 0 && e.call == "sinkeof").count();
    let interim: Vec<String> = log.iter().filter(|e| e.dir == 3 && e.call == "interim").map(|e| e.resp.split(':').next().unwrap_or("").to_string()).collect();
    let heads: Vec<String> = log
        .iter()
        .filter(|e| e.dir == 3 && e.call.starts_with("head:"))
        .map(|e| {
            let mut it = e.resp.splitn(3, ':');
            let status = it.next().unwrap_or("");
            let _version = it.next();
            let mut hs: Vec<&str> = it.next().unwrap_or("").split(',').filter(|x| !x.is_empty()).collect();
            hs.sort();
            format!("{}/{}/{}", status, &e.call[5..], hs.join(";"))
        })
        .collect();
    let body = accepted(log, 3);
    // end of stream towards the client: position (in delivered bytes) of the first one, and how many
    let mut delivered = 0usize;
    let mut eof_at: Option<usize> = None;
    let mut eofs = 0;
    for e in log {
        if e.dir != 3 {
            continue;
        }
        if e.call.starts_with("write:") {
            if let Some(k) = e.resp.strip_prefix("accepted:").and_then(|x| x.parse::<usize>().ok()) {
                delivered += k;
            }
        } else if e.call == "sinkeof" {
            eofs += 1;
            eof_at.get_or_insert(delivered);
        }
    }
    let head_eof = heads.iter().any(|h| h.contains("/eof=1/"));
    // flow-control credit handed to the client's request-body source (`consume`): never ahead of what was read from it
    let (mut read2, mut rel2, mut over) = (0usize, 0usize, None);
    for e in log {
        if e.dir != 2 {
            continue;
        }
        if e.call == "read" {
            if let Some(h) = e.resp.strip_prefix("chunk:") {
                read2 += if h == "-" { 0 } else { h.len() / 2 };
            }
        } else if let Some(n) = e.call.strip_prefix("consume:").and_then(|x| x.parse::<usize>().ok()) {
            rel2 += n;
            if rel2 > read2 && over.is_none() {
                over = Some((rel2, read2));
            }
        }
    }
    let rel = match over {
        Some((r, d)) => format!("over:{}>{}", r, d),
        None => rel2.to_string(),
    };
    format!(
        "req={} reqeof={} interim=[{}] head=[{}] body={} ceof={} rel={}",
        hex(&req),
        (req_eof > 0) as u8,
        interim.join(","),
        heads.join("|"),
        hex(&body),
        match (eof_at, head_eof) {
            (Some(p), _) => format!("at{}", p),
            (None, true) => "head".to_string(),
            (None, false) => "none".to_string(),
        },
        rel,
    ) + &{
        let _ = (result, eofs);
        String::new()
    }
}

pub fn exec(c: &Case) -> Result<String, String> {
    let c = c.clone();
    let r = catch(std::panic::AssertUnwindSafe(move || {
        let rt = tokio::runtime::Builder::new_current_thread().enable_all().start_paused(true).build().unwrap();
        rt.block_on(async move {
            let mut body_ev: Vec<(u64, SrcEv)> = c.body.iter().map(|b| (1, SrcEv::Chunk(b.clone()))).collect();
            body_ev.push((1, SrcEv::Eof));
            let mut origin_ev: Vec<(u64, SrcEv)> = c.origin.iter().map(|b| (1, SrcEv::Chunk(b.clone()))).collect();
            if c.origin_closes {
                origin_ev.push((1, SrcEv::Eof));
            }
            let run = vfwd::run(
                VFwdRequest { method: c.method.clone(), uri: c.uri.clone(), version: c.version, headers: c.headers.clone() },
                SrcScript { events: body_ev, consume_err_at: None },
                SinkScript { quotas: c.origin_quotas.clone(), ..Default::default() },
                SrcScript { events: origin_ev, consume_err_at: None },
                SinkScript { quotas: c.quotas.clone(), writable_delays: vec![], ..Default::default() },
                30_000,
            )
            .await;
            observe(run.built, &run.result, &run.log)
        })
    }));
    r
}

fn chunked(body: &[u8], sizes: &[usize], ext: bool, upper: bool) -> Vec<u8> {
    let mut out = vec![];
    let mut pos = 0;
    let mut i = 0;
    while pos < body.len() {
        let n = sizes.get(i).copied().unwrap_or(body.len()).max(1).min(body.len() - pos);
        let sz = if upper { format!("{:X}", n) } else { format!("{:x}", n) };
        out.extend_from_slice(sz.as_bytes());
        if ext && i % 2 == 0 {
            out.extend_from_slice(b";ext=1");
        }
        out.extend_from_slice(b"\r\n");
        out.extend_from_slice(&body[pos..pos + n]);
        out.extend_from_slice(b"\r\n");
        pos += n;
        i += 1;
    }
    out.extend_from_slice(b"0\r\n\r\n");
    out
}

fn segment(rng: &mut Rng, bytes: &[u8], style: u64) -> Vec<Vec<u8>> {
    match style {
        0 => vec![bytes.to_vec()],
        1 => bytes.iter().map(|b| vec![*b]).collect(),
        _ => {
            let mut out = vec![];
            let mut pos = 0;
            while pos < bytes.len() {
                let n = (rng.range(1, if style == 2 { 4 } else { 40 }) as usize).min(bytes.len() - pos);
                out.push(bytes[pos..pos + n].to_vec());
                pos += n;
            }
            out
        }
    }
}

pub fn gen_case(rng: &mut Rng) -> Case {
    let version = *rng.pick(&[11u8, 11, 2, 2, 2, 3, 10]);
    let method = rng.pick(&["GET", "GET", "POST", "HEAD", "PUT", "DELETE", "OPTIONS"]).to_string();
    let host = rng.pick(&["origin.test", "origin.test:8080", "10.1.2.3", "[2001:db8::1]:81"]).to_string();
    let path = rng.pick(&["/", "/a/b?x=1&y=2", "/index.html", ""]).to_string();
    let uri = format!("http://{}{}", host, path);
    let mut headers: Vec<(String, Vec<u8>)> = vec![];
    if version == 11 || version == 10 {
        headers.push(("host".into(), host.clone().into_bytes()));
    }
    for _ in 0..rng.below(4) {
        let (n, v) = *rng.pick(&[
            ("accept", "*/*"),
            ("user-agent", "ua/1.0"),
            ("proxy-authorization", "Basic Zm9vOmJhcg=="),
            ("proxy-connection", "keep-alive"),
            ("x-custom", "a b  c"),
            ("cookie", "k=v; k2=v2"),
        ]);
        if !headers.iter().any(|(hn, _)| hn == n) {
            headers.push((n.to_string(), v.as_bytes().to_vec()));
        }
    }
    // a header name may come as several field lines (cookie crumbs of an HTTP/2 client, x-forwarded-for ...): every line is
    // forwarded (kept next to its first line, as the header map orders them)
    if rng.chance(1, 3) {
        if let Some(k) = (0..headers.len()).find(|k| !["host", "proxy-authorization", "proxy-connection"].contains(&headers[*k].0.as_str())) {
            let (n, _) = headers[k].clone();
            headers.insert(k + 1, (n.clone(), b"second=line".to_vec()));
            if rng.chance(1, 2) {
                headers.insert(k + 2, (n, b"third".to_vec()));
            }
        }
    }
    // request body
    let mut body: Vec<Vec<u8>> = vec![];
    if ["POST", "PUT"].contains(&method.as_str()) {
        let len = *rng.pick(&[0usize, 1, 5, 40]);
        let data: Vec<u8> = (0..len).map(|i| b'a' + (i % 26) as u8).collect();
        if rng.chance(4, 5) || version == 11 || version == 10 {
            headers.push(("content-length".into(), len.to_string().into_bytes()));
        }
        let style = rng.below(3);
        let declared = headers.iter().any(|(n, _)| n == "content-length");
        let mut data = data;
        if declared && rng.chance(1, 3) {
            // more bytes than the request declares (a pipelined next request in the same read): they are not this request's
            data.extend_from_slice(b"GET http://origin.test/next HTTP/1.1\r\n\r\n");
        }
        body = segment(rng, &data, style).into_iter().filter(|x| !x.is_empty()).collect();
    }
    // origin response
    let rbody_len = *rng.pick(&[0usize, 1, 2, 7, 26, 100]);
    let rbody: Vec<u8> = (0..rbody_len).map(|i| b'A' + (i % 26) as u8).collect();
    let framing = rng.below(10);
    let status = if method == "HEAD" { 200 } else { *rng.pick(&[200u16, 200, 200, 404, 204, 304, 500, 301]) };
    let mut resp: Vec<u8> = vec![];
    for _ in 0..(if rng.chance(1, 4) { rng.range(1, 2) } else { 0 }) {
        resp.extend_from_slice(if rng.chance(1, 2) { b"HTTP/1.1 100 Continue\r\n\r\n".as_slice() } else { b"HTTP/1.1 103 Early Hints\r\nlink: </s.css>\r\n\r\n".as_slice() });
    }
    resp.extend_from_slice(format!("HTTP/1.1 {} Reason\r\n", status).as_bytes());
    // a Connection header that nominates other fields of this response as hop-by-hop, in its own spelling, ahead of them
    // (one that follows them is generated below)
    match rng.below(10) {
        0 => resp.extend_from_slice(b"Connection: close, X-Thing\r\n"),
        1 => resp.extend_from_slice(b"Connection: x-thing ,SERVER\r\nconnection: Set-Cookie\r\n"),
        2 => resp.extend_from_slice(b"Connection: Content-Type, Upgrade\r\n"),
        _ => {}
    }
    for _ in 0..rng.below(3) {
        let (n, v) = *rng.pick(&[
            ("Server", "o/1"),
            ("Content-Type", "text/plain"),
            ("Keep-Alive", "timeout=5"),
            ("Proxy-Connection", "keep-alive"),
            ("X-Thing", "v1, v2"),
            ("Set-Cookie", "a=b; Path=/"),
            ("Upgrade", "h2c"),
        ]);
        resp.extend_from_slice(format!("{}: {}\r\n", n, v).as_bytes());
    }
    match rng.below(8) {
        0 | 1 => resp.extend_from_slice(b"Connection: close\r\n"),
        // a Connection header that nominates other fields of this response as hop-by-hop, in its own spelling
        2 => resp.extend_from_slice(b"Connection: close, X-Thing\r\n"),
        3 => resp.extend_from_slice(b"Connection: x-thing ,SERVER\r\nconnection: Set-Cookie\r\n"),
        4 => resp.extend_from_slice(b"Connection: Content-Type\r\n"),
        _ => {}
    }
    let bodiless = status == 204 || status == 304 || method == "HEAD";
    let mut closes = rng.chance(1, 2);
    if bodiless {
        // what the origin would announce for the GET: a length, chunked coding, or nothing
        match rng.below(4) {
            0 | 1 => resp.extend_from_slice(format!("Content-Length: {}\r\n", rbody_len).as_bytes()),
            2 => resp.extend_from_slice(b"Transfer-Encoding: chunked\r\n"),
            _ => {}
        }
        resp.extend_from_slice(b"\r\n");
    } else if framing < 4 {
        resp.extend_from_slice(format!("Content-Length: {}\r\n\r\n", rbody_len).as_bytes());
        resp.extend_from_slice(&rbody);
    } else if framing < 8 {
        resp.extend_from_slice(b"Transfer-Encoding: chunked\r\n\r\n");
        let sizes: Vec<usize> = (0..8).map(|_| rng.range(1, 20) as usize).collect();
        resp.extend_from_slice(&chunked(&rbody, &sizes, rng.chance(1, 3), rng.chance(1, 3)));
    } else {
        // close-delimited
        resp.extend_from_slice(b"\r\n");
        resp.extend_from_slice(&rbody);
        closes = true;
    }
    let style = rng.below(4);
    let origin = segment(rng, &resp, style);
    let quotas: Vec<usize> = match rng.below(4) {
        0 => vec![],
        1 => (0..rng.range(1, 30)).map(|_| rng.range(0, 3) as usize).collect(),
        2 => (0..rng.range(1, 10)).map(|_| rng.range(1, 9) as usize).collect(),
        _ => (0..rng.range(1, 6)).map(|_| *rng.pick(&[0usize, 1, 1000])).collect(),
    };
    let origin_quotas: Vec<usize> = if rng.chance(1, 3) { (0..rng.range(1, 8)).map(|_| rng.range(0, 20) as usize).collect() } else { vec![] };
    Case { version, method, uri, headers, body, origin, origin_closes: closes, quotas, origin_quotas }
}

/// the forwarded request must let the origin delimit its body: body bytes after the head need a
/// Content-Length or a chunked Transfer-Encoding in the head
fn request_framing_problem(out: &str) -> bool {
    let req = match out.split(' ').find_map(|t| t.strip_prefix("req=")) {
        Some(x) => unhex(x),
        None => return false,
    };
    match req.windows(4).position(|w| w == b"\r\n\r\n") {
        Some(p) => {
            let head = String::from_utf8_lossy(&req[..p]).to_ascii_lowercase();
            req.len() > p + 4 && !head.contains("\r\ncontent-length:") && !head.contains("\r\ntransfer-encoding:")
        }
        None => false,
    }
}

/// `exec` under a wall-clock watchdog: the scripted run uses virtual time and takes milliseconds, so a run
/// that is still going after 20 s of real time is a busy loop / a wedged pipe (`None`; the thread is lost and the
/// caller has to end the process)
pub fn exec_watched(c: &Case) -> Option<Result<String, String>> {
    begin_case(&case_line(c));
    let (tx, rx) = std::sync::mpsc::channel();
    let c2 = c.clone();
    std::thread::spawn(move || {
        let _ = tx.send(exec(&c2));
    });
    rx.recv_timeout(std::time::Duration::from_secs(20)).ok()
}

/// record a wedged run and end the suite (a thread of this process is spinning in the implementation)
fn wedged(ctx: &mut Ctx, q: &str) -> ! {
    ctx.oracle_failure(
        "spin_or_hang",
        &format!("the forwarded stream made no progress for 20 s of real time (input re-offered forever / busy loop; the idle timeout cannot fire) on {}", q),
    );
    ctx.emit(q, "hang");
    ctx.finish_ref();
    std::process::exit(0);
}

fn emit_case(ctx: &mut Ctx, c: &Case) {
    let q = case_line(c);
    let r = match exec_watched(c) {
        Some(r) => r,
        None => wedged(ctx, &q),
    };
    match r {
        Ok(out) => {
            if request_framing_problem(&out) {
                ctx.oracle_failure(
                    "unframed-request-body",
                    &format!("forwarded request has a body but neither Content-Length nor Transfer-Encoding: {}", q),
                );
            }
            ctx.emit(&q, &out)
        }
        Err(m) => ctx.oracle_failure("panic", &format!("forwarded sink panicked ({}) on {}", m, q)),
    }
}

/// independent reference for the live runs: the body an origin byte stream encodes
fn reference_body(resp_after_head: &[u8], chunked: bool) -> Vec<u8> {
    if !chunked {
        return resp_after_head.to_vec();
    }
    let mut out = vec![];
    let mut i = 0;
    loop {
        let line_end = match resp_after_head[i..].windows(2).position(|w| w == b"\r\n") {
            Some(p) => i + p,
            None => return out,
        };
        let line = String::from_utf8_lossy(&resp_after_head[i..line_end]).to_string();
        let n = usize::from_str_radix(line.split(';').next().unwrap_or("").trim(), 16).unwrap_or(0);
        i = line_end + 2;
        if n == 0 {
            return out;
        }
        out.extend_from_slice(&resp_after_head[i..(i + n).min(resp_after_head.len())]);
        i += n + 2;
        if i > resp_after_head.len() {
            return out;
        }
    }
}

/// non-CONNECT requests through real HTTP/1.1 and HTTP/2 sessions and the real direct forwarder
/// to a loopback origin that answers with a scripted byte stream in scripted segments
fn live(ctx: &mut Ctx) {
    use crate::c16;
    use std::io::{Read, Write};
    use std::time::{Duration, Instant};
    use trusttunnel::verif::vlive;
    let tw = c16::make_tcp_world();
    let n = if ctx.thorough() { 60 } else { 16 };
    for k in 0..n {
        let h2 = k % 2 == 0;
        let body_len = *ctx.rng.pick(&[0usize, 1, 10, 1000, 40000]);
        let body: Vec<u8> = (0..body_len).map(|i| b'a' + (i % 26) as u8).collect();
        let chunked_resp = ctx.rng.chance(1, 2);
        let interim = ctx.rng.chance(1, 2);
        let mut resp: Vec<u8> = vec![];
        if interim {
            resp.extend_from_slice(b"HTTP/1.1 100 Continue\r\n\r\n");
        }
        let mut after_head: Vec<u8> = vec![];
        if chunked_resp {
            resp.extend_from_slice(b"HTTP/1.1 200 OK\r\nTransfer-Encoding: chunked\r\nX-A: 1\r\n\r\n");
            let sizes: Vec<usize> = (0..6).map(|_| ctx.rng.range(1, 3000) as usize).collect();
            after_head = chunked(&body, &sizes, true, false);
        } else {
            resp.extend_from_slice(format!("HTTP/1.1 200 OK\r\nContent-Length: {}\r\nX-A: 1\r\n\r\n", body.len()).as_bytes());
            after_head.extend_from_slice(&body);
        }
        resp.extend_from_slice(&after_head);
        let style = ctx.rng.range(0, 3);
        let segs = segment(&mut ctx.rng, &resp, if style == 1 { 3 } else { style });
        let desc = format!("live {} body={} chunked={} interim={} segments={}", if h2 { "h2" } else { "h1" }, body_len, chunked_resp, interim, segs.len());
        let rt = tokio::runtime::Builder::new_current_thread().enable_all().start_paused(true).build().unwrap();
        let origin = tw.origin;
        let listener = &tw.listener;
        let got: Result<(u16, Vec<u8>, Vec<u8>), String> = rt.block_on(async {
            let core = c16::make_core_pub();
            let spin = |ms: u64| async move {
                let t = Instant::now();
                while t.elapsed() < Duration::from_millis(ms) {
                    for _ in 0..50 {
                        tokio::task::yield_now().await;
                    }
                }
            };
            let uri = format!("http://{}/p?q=1", origin);
            let mut h1s = None;
            let mut h2s = None;
            let mut st = None;
            if h2 {
                let mut s = vlive::open_h2(&core, "localhost").await.ok_or("h2 handshake")?;
                st = Some(s.request("GET", &uri, &[("accept".to_string(), "*/*".to_string())], true).await.ok_or("h2 request")?);
                h2s = Some(s);
            } else {
                let mut s = vlive::open_h1(&core, "localhost");
                s.send(format!("GET {} HTTP/1.1\r\nHost: {}\r\nAccept: */*\r\n\r\n", uri, origin).as_bytes());
                h1s = Some(s);
            }
            // the origin: accept, read the request head, answer in segments
            let t0 = Instant::now();
            let mut conn = loop {
                spin(1).await;
                if let Ok((c, _)) = listener.accept() {
                    break c;
                }
                if t0.elapsed() > Duration::from_secs(3) {
                    return Err("origin saw no connection".to_string());
                }
            };
            conn.set_nodelay(true).ok();
            conn.set_nonblocking(true).ok();
            let mut req = vec![];
            let t0 = Instant::now();
            while !req.windows(4).any(|w| w == b"\r\n\r\n") {
                spin(1).await;
                let mut buf = [0u8; 4096];
                if let Ok(n) = conn.read(&mut buf) {
                    req.extend_from_slice(&buf[..n]);
                }
                if t0.elapsed() > Duration::from_secs(3) {
                    return Err("origin saw no request head".to_string());
                }
            }
            conn.set_nonblocking(false).ok();
            for sg in &segs {
                let _ = conn.write_all(sg);
                spin(1).await;
            }
            spin(8).await;
            drop(conn);
            spin(8).await;
            let _ = &h2s;
            match (st.as_mut(), h1s.as_mut()) {
                (Some(st), _) => {
                    st.poll();
                    Ok((st.status.unwrap_or(0), st.received.clone(), req))
                }
                (_, Some(h)) => {
                    h.poll();
                    let raw = h.received.clone();
                    // skip interim heads
                    let mut rest: &[u8] = &raw;
                    let mut status = 0u16;
                    loop {
                        let p = match rest.windows(4).position(|w| w == b"\r\n\r\n") {
                            Some(p) => p,
                            None => break,
                        };
                        let head = String::from_utf8_lossy(&rest[..p]).to_string();
                        status = head.split(' ').nth(1).and_then(|x| x.parse().ok()).unwrap_or(0);
                        rest = &rest[p + 4..];
                        if status >= 200 {
                            break;
                        }
                    }
                    Ok((status, rest.to_vec(), req))
                }
                _ => Err("no client".to_string()),
            }
        });
        ctx.stat("live_runs");
        match got {
            Err(e) => ctx.oracle_failure("live-forward", &format!("{}: {}", desc, e)),
            Ok((status, client_body, req)) => {
                // an HTTP/1.1 client gets the chunked framing as is; an HTTP/2 client the body
                let want = if h2 { body.clone() } else { reference_body(&after_head, false) };
                let want = if !h2 && chunked_resp { after_head.clone() } else { want };
                let req_s = String::from_utf8_lossy(&req).to_string();
                let req_ok = req_s.starts_with("GET /p?q=1 HTTP/1.1\r\n") && req_s.to_ascii_lowercase().contains(&format!("\r\nhost: {}\r\n", origin)) && req_s.to_ascii_lowercase().contains("\r\naccept: */*\r\n");
                if status != 200 || client_body != want || !req_ok {
                    ctx.oracle_failure(
                        "live-forward",
                        &format!("{}: status {} body {}B (want {}B, equal={}) request ok={} [{}]", desc, status, client_body.len(), want.len(), client_body == want, req_ok, req_s.replace("\r\n", "\\r\\n")),
                    );
                }
                let _ = reference_body;
            }
        }
    }
}

/// non-CONNECT requests over HTTP/3: the real `Core::listen` on a loopback UDP port (QUIC multiplexer,
/// HTTP/3 codec, Tunnel, forwarded stream, direct forwarder) to a loopback origin that answers with a
/// scripted byte stream in scripted segments (wall clock)
pub fn live_h3(ctx: &mut Ctx) {
    use crate::c02h3::{plain_hosts, LiveEndpoint};
    use crate::h3cli::H3Client;
    use std::io::{Read, Write};
    use std::time::{Duration, Instant};
    use trusttunnel::settings::*;
    use trusttunnel::shutdown::Shutdown;
    let Some(ep) = LiveEndpoint::start(|addr| {
        let settings = Settings::builder()
            .listen_address(addr)
            .unwrap()
            .listen_protocols(ListenProtocolSettings {
                http1: Some(Http1Settings::builder().build()),
                http2: Some(Http2Settings::builder().build()),
                quic: Some(QuicSettings::builder().build()),
            })
            .allow_private_network_connections(true)
            .build()
            .unwrap();
        trusttunnel::core::Core::new(settings, None, plain_hosts(), Shutdown::new()).unwrap()
    }) else {
        ctx.notes.push("c17 live h3: the endpoint's listener did not come up on loopback; nothing was run".to_string());
        return;
    };
    let listener = std::net::TcpListener::bind("127.0.0.1:0").unwrap();
    listener.set_nonblocking(true).unwrap();
    let origin = listener.local_addr().unwrap();
    let n = if ctx.thorough() { 120 } else { 24 };
    for k in 0..n {
        let body_len = *ctx.rng.pick(&[0usize, 1, 10, 1000, 40000]);
        let body: Vec<u8> = (0..body_len).map(|i| b'a' + (i % 26) as u8).collect();
        let framing = k % 3; // 0 Content-Length, 1 chunked, 2 close-delimited
        let interim = ctx.rng.below(3); // 0 none, 1 "100", 2 "103" + "100"
        let method = if k % 4 == 3 { "POST" } else { "GET" };
        let req_body: Vec<u8> = if method == "POST" { (0..*ctx.rng.pick(&[0usize, 5, 3000])).map(|i| b'0' + (i % 10) as u8).collect() } else { vec![] };
        // a request body travels with its Content-Length, or (every other POST) without one
        let with_cl = method == "POST" && (k % 8 == 3);
        let mut resp: Vec<u8> = vec![];
        if interim == 2 {
            resp.extend_from_slice(b"HTTP/1.1 103 Early Hints\r\nlink: </s.css>\r\n\r\n");
        }
        if interim >= 1 {
            resp.extend_from_slice(b"HTTP/1.1 100 Continue\r\n\r\n");
        }
        let mut after_head: Vec<u8> = vec![];
        match framing {
            1 => {
                resp.extend_from_slice(b"HTTP/1.1 200 OK\r\nTransfer-Encoding: chunked\r\nX-A: 1\r\nKeep-Alive: timeout=5\r\nConnection: keep-alive\r\n\r\n");
                let sizes: Vec<usize> = (0..6).map(|_| ctx.rng.range(1, 3000) as usize).collect();
                after_head = chunked(&body, &sizes, true, false);
            }
            0 => {
                resp.extend_from_slice(format!("HTTP/1.1 200 OK\r\nContent-Length: {}\r\nX-A: 1\r\n\r\n", body.len()).as_bytes());
                after_head.extend_from_slice(&body);
            }
            _ => {
                resp.extend_from_slice(b"HTTP/1.1 200 OK\r\nX-A: 1\r\nConnection: close\r\n\r\n");
                after_head.extend_from_slice(&body);
            }
        }
        resp.extend_from_slice(&after_head);
        let style = ctx.rng.range(0, 3);
        let segs = segment(&mut ctx.rng, &resp, if style == 1 { 3 } else { style });
        let client_step = *ctx.rng.pick(&[0usize, 0, 300]);
        let desc = format!(
            "live h3 {} (request body {} bytes{}) answered with {} body bytes, {}, {} interim response(s), in {} segments, client takes {} per read",
            method,
            req_body.len(),
            if method == "POST" { if with_cl { ", Content-Length" } else { ", no Content-Length" } } else { "" },
            body_len,
            ["Content-Length", "chunked", "close-delimited"][framing],
            interim,
            segs.len(),
            if client_step == 0 { "everything".to_string() } else { client_step.to_string() }
        );
        ctx.stat("live_h3_runs");
        let mut cl = match H3Client::connect(ep.addr, Some("localhost"), &[b"h3"], 1 << 20, Duration::from_secs(3)) {
            Ok(c) => c,
            Err(e) => {
                ctx.oracle_failure("live-forward", &format!("{}: QUIC handshake {:?}", desc, e));
                continue;
            }
        };
        cl.read_step = client_step;
        let mut hs = vec![("accept".to_string(), b"*/*".to_vec()), ("proxy-authorization".to_string(), b"Basic dTpw".to_vec()), ("te".to_string(), b"trailers".to_vec())];
        if with_cl {
            hs.push(("content-length".to_string(), req_body.len().to_string().into_bytes()));
        }
        let Some(id) = cl.request(method, Some("http"), &origin.to_string(), Some("/p?q=1"), &hs, method == "GET") else {
            ctx.oracle_failure("live-forward", &format!("{}: request stream refused", desc));
            continue;
        };
        if method == "POST" {
            let mut off = 0;
            let t0 = Instant::now();
            while off < req_body.len() && t0.elapsed() < Duration::from_secs(3) {
                off += cl.send_body(id, &req_body[off..], false).unwrap_or(0);
            }
            let t0 = Instant::now();
            while !cl.finish(id).unwrap_or(true) && t0.elapsed() < Duration::from_secs(2) {}
        }
        // the origin: accept, read the request (head and announced / sent body), answer in segments, close
        let t0 = Instant::now();
        let conn = loop {
            cl.pump();
            if let Ok((c, _)) = listener.accept() {
                break Some(c);
            }
            if t0.elapsed() > Duration::from_secs(3) {
                break None;
            }
            std::thread::sleep(Duration::from_millis(1));
        };
        let Some(mut conn) = conn else {
            ctx.oracle_failure("live-forward", &format!("{}: the origin saw no connection (client status {:?})", desc, cl.stream(id).status));
            continue;
        };
        conn.set_nodelay(true).ok();
        conn.set_nonblocking(true).ok();
        let mut req = vec![];
        let t0 = Instant::now();
        loop {
            cl.pump();
            let mut buf = [0u8; 8192];
            if let Ok(n) = conn.read(&mut buf) {
                req.extend_from_slice(&buf[..n]);
            }
            if let Some(p) = req.windows(4).position(|w| w == b"\r\n\r\n") {
                if req.len() >= p + 4 + req_body.len() {
                    break;
                }
            }
            if t0.elapsed() > Duration::from_secs(3) {
                break;
            }
        }
        conn.set_nonblocking(false).ok();
        for sg in &segs {
            let _ = conn.write_all(sg);
            let t0 = Instant::now();
            while t0.elapsed() < Duration::from_millis(2) {
                cl.pump();
            }
        }
        let t0 = Instant::now();
        while t0.elapsed() < Duration::from_millis(10) {
            cl.pump();
        }
        drop(conn);
        cl.reading = true;
        cl.wait(Duration::from_secs(4), |c| c.streams.get(&id).map(|s| s.finished || s.reset.is_some()).unwrap_or(false));
        let st = cl.stream(id);
        cl.close();
        let req_s = String::from_utf8_lossy(&req).to_string();
        let lower = req_s.to_ascii_lowercase();
        let head_end = req.windows(4).position(|w| w == b"\r\n\r\n").map(|p| p + 4).unwrap_or(req.len());
        let mut problems = vec![];
        if !req_s.starts_with(&format!("{} /p?q=1 HTTP/1.1\r\n", method)) {
            problems.push("the forwarded request line is not the client's method and path".to_string());
        }
        if !lower.contains(&format!("\r\nhost: {}\r\n", origin)) || !lower.contains("\r\naccept: */*\r\n") {
            problems.push("the forwarded request lacks the Host of the target or the client's Accept header".to_string());
        }
        if lower.contains("\r\nproxy-authorization:") {
            problems.push("Proxy-Authorization was forwarded to the origin".to_string());
        }
        if req[head_end..] != req_body[..] && !(req.len() > head_end && lower[..head_end].contains("transfer-encoding: chunked")) {
            problems.push(format!("the origin received {} body bytes, the client sent {}", req.len() - head_end, req_body.len()));
        }
        let unframed = req.len() > head_end && !lower[..head_end].contains("\r\ncontent-length:") && !lower[..head_end].contains("\r\ntransfer-encoding:");
        if st.status != Some(200) {
            problems.push(format!("the client got status {:?}", st.status));
        }
        if st.body != body {
            problems.push(format!("the client got {} body bytes, the origin's body has {} (equal: false; first difference at {:?})", st.body.len(), body.len(), st.body.iter().zip(body.iter()).position(|(a, b)| a != b)));
        }
        if !st.finished || st.reset.is_some() {
            problems.push(format!("the response stream did not end cleanly (finished {}, reset {:?})", st.finished, st.reset));
        }
        if !st.headers.iter().any(|(n, v)| n == "x-a" && v == "1") {
            problems.push("the origin's X-A header did not reach the client".to_string());
        }
        for hop in ["connection", "keep-alive", "transfer-encoding", "proxy-connection", "upgrade"] {
            if st.headers.iter().any(|(n, _)| n == hop) {
                problems.push(format!("hop-by-hop header {} reached the HTTP/3 client", hop));
            }
        }
        if unframed {
            ctx.oracle_failure(
                "unframed-request-body",
                &format!("forwarded request has a body but neither Content-Length nor Transfer-Encoding: {} [{}]", desc, req_s[..head_end].replace("\r\n", "\\r\\n")),
            );
        }
        if !problems.is_empty() {
            ctx.oracle_failure("live-forward", &format!("{}: {} [origin saw: {}]", desc, problems.join("; "), req_s[..head_end.min(req_s.len())].replace("\r\n", "\\r\\n")));
        }
    }
}

pub fn run(ctx: &mut Ctx) {
    let n = if ctx.thorough() { 20000 } else { 2500 };
    let mut cases: Vec<Case> = vec![];
    // directed: the defects this property was written around
    let base = |version: u8, origin: Vec<&[u8]>, quotas: Vec<usize>, closes: bool| Case {
        version,
        method: "GET".into(),
        uri: "http://origin.test/x".into(),
        headers: vec![],
        body: vec![],
        origin: origin.into_iter().map(|x| x.to_vec()).collect(),
        origin_closes: closes,
        quotas,
        origin_quotas: vec![],
    };
    // 1xx and the final response in one segment
    cases.push(base(11, vec![b"HTTP/1.1 100 Continue\r\n\r\nHTTP/1.1 200 OK\r\nContent-Length: 2\r\n\r\nhi"], vec![], true));
    cases.push(base(2, vec![b"HTTP/1.1 100 Continue\r\n\r\nHTTP/1.1 200 OK\r\nContent-Length: 2\r\n\r\nhi"], vec![], true));
    // a chunk arriving in two segments
    cases.push(base(2, vec![b"HTTP/1.1 200 OK\r\nTransfer-Encoding: chunked\r\n\r\n", b"a\r\n0123", b"456789\r\n0\r\n\r\n"], vec![], true));
    // a chunk the client accepts only partly
    cases.push(base(2, vec![b"HTTP/1.1 200 OK\r\nTransfer-Encoding: chunked\r\n\r\n", b"a\r\n0123456789\r\n0\r\n\r\n"], vec![6], true));
    // Content-Length body accepted partly
    cases.push(base(2, vec![b"HTTP/1.1 200 OK\r\nContent-Length: 10\r\n\r\n0123456789"], vec![4, 0, 3], false));
    // bytes beyond the announced Content-Length, the body accepted partly
    cases.push(base(2, vec![b"HTTP/1.1 200 OK\r\nContent-Length: 10\r\n\r\n0123456789XY"], vec![8], true));
    cases.push(base(11, vec![b"HTTP/1.1 200 OK\r\nContent-Length: 5\r\n\r\n", b"01234EXTRA"], vec![], true));
    // bodiless responses that announce a chunked body (a HEAD answered with the GET's headers, 304 / 204): the origin stays silent
    for version in [11u8, 2, 3] {
        let mut c = base(version, vec![b"HTTP/1.1 200 OK\r\nTransfer-Encoding: chunked\r\n\r\n"], vec![], false);
        c.method = "HEAD".into();
        cases.push(c);
        cases.push(base(version, vec![b"HTTP/1.1 304 Not Modified\r\nTransfer-Encoding: chunked\r\n\r\n"], vec![], false));
        cases.push(base(version, vec![b"HTTP/1.1 204 No Content\r\nTransfer-Encoding: chunked\r\n", b"\r\n"], vec![], true));
    }
    // response heads with many header lines: around every size of the parser's header array (32, 64, 128) and beyond
    for nh in [31usize, 32, 33, 63, 64, 65, 100, 127, 128, 129, 200] {
        for version in [11u8, 2] {
            let mut head = b"HTTP/1.1 200 OK\r\n".to_vec();
            for i in 0..nh - 1 {
                head.extend_from_slice(format!("X-H{}: v{}\r\n", i, i).as_bytes());
            }
            head.extend_from_slice(b"Content-Length: 2\r\n\r\nok");
            cases.push(base(version, vec![&head[..]], vec![], true));
            let cut = head.len() / 2;
            cases.push(base(version, vec![&head[..cut], &head[cut..]], vec![3], false));
        }
    }
    for c in cases.drain(..).collect::<Vec<_>>() {
        emit_case(ctx, &c);
    }
    for _ in 0..n {
        let c = gen_case(&mut ctx.rng);
        ctx.stat(&format!("client_version_{}", c.version));
        ctx.stat(&format!("method_{}", c.method));
        ctx.stat(if c.quotas.is_empty() { "sink_accepts_all" } else { "sink_partial" });
        ctx.stat(if c.origin.len() == 1 { "origin_one_segment" } else { "origin_segmented" });
        emit_case(ctx, &c);
    }
    // (b) malformed origin streams: nothing is compared, the sink must not panic
    for _ in 0..n / 2 {
        let mut c = gen_case(&mut ctx.rng);
        let mut all: Vec<u8> = c.origin.concat();
        if all.is_empty() {
            continue;
        }
        for _ in 0..ctx.rng.range(1, 4) {
            let i = ctx.rng.below(all.len() as u64) as usize;
            match ctx.rng.below(4) {
                0 => all[i] = ctx.rng.next() as u8,
                1 => {
                    all.remove(i);
                    if all.is_empty() {
                        all.push(b'x');
                    }
                }
                2 => all.insert(i, *ctx.rng.pick(&[b'\r', b'\n', b';', b'0', b'f', b' ', 0xff])),
                _ => all.extend_from_slice(b"TRAILING"),
            }
        }
        c.origin = segment(&mut ctx.rng, &all, 3);
        ctx.stat("malformed_streams");
        match exec_watched(&c) {
            None => wedged(ctx, &case_line(&c)),
            Some(Err(m)) => ctx.oracle_failure("panic", &format!("forwarded sink panicked ({}) on {}", m, case_line(&c))),
            Some(Ok(_)) => {}
        }
    }
    live(ctx);
}

/// C09: the origin of a plain-HTTP forwarding is untrusted input too. Hostile origin byte streams
/// (more bytes than announced, bodies on bodiless responses, broken / conflicting framing, endless
/// interim responses, heads that never end) x segmentations x client acceptance patterns through the real
/// forwarded source/sink and the real pipe: no panic, no busy loop (wall-clock watchdog), and the client is
/// never sent more body bytes than the origin produced. The well-framed-but-overlong classes are also put to
/// the model (`c17 run`).
pub fn run_malicious(ctx: &mut Ctx) {
    let n = if ctx.thorough() { 6000 } else { 900 };
    set_stall_limit(90);
    for k in 0..n {
        let rng = &mut ctx.rng;
        let version = *rng.pick(&[11u8, 2, 3]);
        let class = if k < 44 { k % 11 } else { rng.below(11) };
        let method = if class == 3 { "HEAD" } else { "GET" };
        let extra: Vec<u8> = (0..*rng.pick(&[1usize, 2, 5, 17, 64])).map(|i| b'x' + (i % 3) as u8).collect();
        let body: Vec<u8> = (0..*rng.pick(&[0usize, 1, 3, 10, 50])).map(|i| b'A' + (i % 26) as u8).collect();
        let mut resp: Vec<u8> = vec![];
        let mut modelled = false;
        let name;
        match class {
            0 => {
                name = "overlong_content_length_body";
                resp.extend_from_slice(format!("HTTP/1.1 200 OK\r\nContent-Length: {}\r\n\r\n", body.len()).as_bytes());
                resp.extend_from_slice(&body);
                resp.extend_from_slice(&extra);
                modelled = true;
            }
            1 => {
                name = "body_on_204_or_304";
                let st = *rng.pick(&[204u16, 304]);
                resp.extend_from_slice(format!("HTTP/1.1 {} X\r\n", st).as_bytes());
                if rng.chance(1, 2) {
                    resp.extend_from_slice(format!("Content-Length: {}\r\n", extra.len()).as_bytes());
                }
                resp.extend_from_slice(b"\r\n");
                resp.extend_from_slice(&extra);
                modelled = true;
            }
            2 => {
                name = "body_after_content_length_0";
                resp.extend_from_slice(b"HTTP/1.1 200 OK\r\nContent-Length: 0\r\n\r\n");
                resp.extend_from_slice(&extra);
                modelled = true;
            }
            3 => {
                name = "body_on_head_response";
                resp.extend_from_slice(format!("HTTP/1.1 200 OK\r\nContent-Length: {}\r\n\r\n", extra.len()).as_bytes());
                resp.extend_from_slice(&extra);
                modelled = true;
            }
            4 => {
                name = "bytes_after_last_chunk";
                resp.extend_from_slice(b"HTTP/1.1 200 OK\r\nTransfer-Encoding: chunked\r\n\r\n");
                resp.extend_from_slice(&chunked(&body, &[3, 4, 5], false, false));
                resp.extend_from_slice(&extra);
            }
            5 => {
                name = "broken_chunk_size";
                resp.extend_from_slice(b"HTTP/1.1 200 OK\r\nTransfer-Encoding: chunked\r\n\r\n");
                resp.extend_from_slice(*rng.pick(&[
                    b"ffffffffffffffffffffff\r\nabc\r\n".as_slice(),
                    b"-1\r\nabc\r\n0\r\n\r\n",
                    b"zz\r\nabc\r\n",
                    b"3abc\r\n0\r\n\r\n",
                    b"3\r\nabcdef\r\n0\r\n\r\n",
                    b"\r\n\r\n\r\n",
                    b"7fffffffffffffff\r\nabc",
                    b"0000000000000000000000000000000000000000000000000000000000000003\r\nabc\r\n0\r\n\r\n",
                ]));
            }
            6 => {
                name = "conflicting_framing";
                resp.extend_from_slice(b"HTTP/1.1 200 OK\r\n");
                resp.extend_from_slice(*rng.pick(&[
                    b"Content-Length: 3\r\nContent-Length: 5\r\n".as_slice(),
                    b"Content-Length: 3\r\nTransfer-Encoding: chunked\r\n",
                    b"Content-Length: -3\r\n",
                    b"Content-Length: 99999999999999999999999\r\n",
                    b"Content-Length: 3, 3\r\n",
                    b"Content-Length: 0x3\r\n",
                    b"Transfer-Encoding: gzip\r\n",
                    b"Content-Length:\r\n",
                ]));
                resp.extend_from_slice(b"\r\n");
                resp.extend_from_slice(&body);
                resp.extend_from_slice(&extra);
            }
            7 => {
                name = "endless_interim_responses";
                for _ in 0..rng.range(20, 200) {
                    resp.extend_from_slice(b"HTTP/1.1 100 Continue\r\n\r\n");
                }
                if rng.chance(1, 2) {
                    resp.extend_from_slice(b"HTTP/1.1 200 OK\r\nContent-Length: 0\r\n\r\n");
                }
            }
            8 => {
                name = "head_that_never_ends";
                resp.extend_from_slice(b"HTTP/1.1 200 OK\r\n");
                for i in 0..rng.range(200, 3000) {
                    resp.extend_from_slice(format!("X-{}: {}\r\n", i, "v".repeat(rng.below(60) as usize)).as_bytes());
                }
            }
            9 => {
                name = "many_header_lines";
                resp.extend_from_slice(b"HTTP/1.1 200 OK\r\n");
                let nh = *rng.pick(&[33u64, 64, 65, 66, 100, 127, 128, 129, 130, 257, 300]) + rng.below(2);
                for i in 0..nh {
                    resp.extend_from_slice(format!("X-{}: {}\r\n", i, i).as_bytes());
                }
                resp.extend_from_slice(b"\r\n");
                resp.extend_from_slice(&body);
                modelled = true;
            }
            _ => {
                name = "not_http";
                let len = rng.range(1, 400) as usize;
                resp = rng.bytes(len);
                if rng.chance(1, 2) {
                    let mut r = b"HTTP/1.1 200 OK\r\n".to_vec();
                    r.extend_from_slice(&resp);
                    resp = r;
                }
            }
        }
        let style = if resp.len() > 4000 { 3 } else { rng.below(4) };
        let origin = segment(rng, &resp, style);
        let quotas: Vec<usize> = match rng.below(4) {
            0 => vec![],
            1 => (0..rng.range(1, 30)).map(|_| rng.range(0, 3) as usize).collect(),
            2 => (0..rng.range(1, 10)).map(|_| rng.range(1, 9) as usize).collect(),
            _ => (0..rng.range(1, 6)).map(|_| *rng.pick(&[0usize, 1, 1000])).collect(),
        };
        let c = Case {
            version,
            method: method.into(),
            uri: "http://origin.test/x".into(),
            headers: if version == 11 { vec![("host".into(), b"origin.test".to_vec())] } else { vec![] },
            body: vec![],
            origin,
            origin_closes: rng.chance(1, 2),
            quotas,
            origin_quotas: vec![],
        };
        ctx.stat(&format!("origin_{}", name));
        let q = case_line(&c);
        match exec_watched(&c) {
            None => wedged(ctx, &q),
            Some(Err(m)) => {
                ctx.oracle_failure("panic", &format!("forwarded stream panicked ({}) on a hostile origin stream: {}", m, q));
                ctx.emit(&q, "panic");
            }
            Some(Ok(out)) => {
                // no amplification: the body delivered to the client is made of origin bytes
                let delivered = out.split(' ').find_map(|t| t.strip_prefix("body=")).map(|h| h.len() / 2).unwrap_or(0);
                if delivered > resp.len() {
                    ctx.oracle_failure("amplification", &format!("{} body bytes delivered from a {}-byte origin stream: {}", delivered, resp.len(), q));
                }
                if modelled || (std::env::var("C09ORIGIN_ALL").is_ok() && class != 7 && class != 8) {
                    ctx.emit(&q, &out);
                }
            }
        }
    }
}

/// Plain-HTTP requests whose body pauses for longer than the idle timeout while the origin keeps the exchange alive (an
/// upload that stalls, an origin that streams something meanwhile): the per-direction timers fire and the pipe restarts its
/// two loops, dropping the pending `read` of the request body - which must not lose the rest of the body.
/// The other direction across timer restarts: the client takes part of the response body and then does not take more for
/// several idle timeouts, while its request body keeps trickling in (so the exchange is alive and the pipe restarts both of
/// its loops each time the silent direction's timer fires, dropping whatever was pending). The part of the response that the
/// client had not taken yet must still be delivered when it reads again.
fn response_across_timer_restarts(ctx: &mut Ctx) {
    for (version, t_ms, first_quota, stall_factor) in [(11u8, 1_000u64, 5usize, 25u64), (2, 1_000, 5, 25), (2, 30_000, 1, 15), (11, 1_000, 0, 35), (3, 1_000, 25, 12)] {
        let stall = t_ms * stall_factor / 10;
        let desc = format!(
            "POST over HTTP/{} with Content-Length 80 sent one byte every {} ms; the origin answers 200 with 26 body bytes in one segment; the client takes {} of them and then nothing for {} ms (idle timeout {} ms)",
            version, t_ms / 10, first_quota, stall, t_ms
        );
        begin_case(&desc);
        let r = catch(std::panic::AssertUnwindSafe(move || {
            let rt = tokio::runtime::Builder::new_current_thread().enable_all().start_paused(true).build().unwrap();
            rt.block_on(async move {
                let mut body_ev: Vec<(u64, SrcEv)> = (0..80).map(|i| (t_ms / 10, SrcEv::Chunk(vec![b'a' + (i % 26) as u8]))).collect();
                body_ev.push((1, SrcEv::Eof));
                let origin_ev: Vec<(u64, SrcEv)> = vec![(t_ms / 5, SrcEv::Chunk(b"HTTP/1.1 200 OK\r\nContent-Length: 26\r\n\r\nabcdefghijklmnopqrstuvwxyz".to_vec())), (1, SrcEv::Eof)];
                let run = vfwd::run(
                    VFwdRequest {
                        method: "POST".into(),
                        uri: "http://origin.test/upload".into(),
                        version,
                        headers: {
                            let mut h: Vec<(String, Vec<u8>)> = vec![("content-length".into(), b"80".to_vec())];
                            if version == 11 {
                                h.insert(0, ("host".into(), b"origin.test".to_vec()));
                            }
                            h
                        },
                    },
                    SrcScript { events: body_ev, consume_err_at: None },
                    SinkScript { quotas: vec![], ..Default::default() },
                    SrcScript { events: origin_ev, consume_err_at: None },
                    SinkScript { quotas: vec![first_quota], writable_delays: vec![stall], ..Default::default() },
                    t_ms,
                )
                .await;
                (accepted(&run.log, 0), accepted(&run.log, 3), run.result.clone())
            })
        }));
        ctx.stat("response_body_across_timer_restarts");
        match r {
            Err(m) => ctx.oracle_failure("panic", &format!("{}: panicked ({})", desc, m)),
            Ok((req, body, result)) => {
                let body_at = req.windows(4).position(|w| w == b"\r\n\r\n").map(|p| p + 4).unwrap_or(req.len());
                if body != b"abcdefghijklmnopqrstuvwxyz" {
                    ctx.oracle_failure(
                        "response_body_cut_at_restart",
                        &format!("{}: the client was sent the body {:?} (exchange result {})", desc, String::from_utf8_lossy(&body), result),
                    );
                } else if req.len() - body_at != 80 {
                    ctx.oracle_failure("request_body_cut_at_restart", &format!("{}: the origin was sent {} of the 80 body bytes (exchange result {})", desc, req.len() - body_at, result));
                }
            }
        }
    }
}

/// A forwarded download that stalls: the origin's head and the first body bytes come in one segment, the client takes a few
/// bytes and then nothing, and everybody is silent. Such an exchange is idle: it waits under the idle timer (without
/// spinning) and is closed with a time-out between T and 2T after its last activity.
fn stalled_download_times_out(ctx: &mut Ctx) {
    for (version, t_ms, quota, chunked) in [(11u8, 1_000u64, 3usize, false), (2, 1_000, 3, false), (2, 30_000, 0, false), (3, 1_000, 1, true), (11, 200, 5, true)] {
        let desc = format!(
            "GET over HTTP/{}; the origin answers 200 with {} in the segment of its head and then says nothing more; the client takes {} body byte(s) and then nothing (idle timeout {} ms)",
            version, if chunked { "the first chunk of a chunked body" } else { "the first 10 of 100 announced body bytes" }, quota, t_ms
        );
        begin_case(&desc);
        let (tx, rx) = std::sync::mpsc::channel();
        std::thread::spawn(move || {
            let rt = tokio::runtime::Builder::new_current_thread().enable_all().start_paused(true).build().unwrap();
            let ans = rt.block_on(async move {
                let head: &[u8] = if chunked { b"HTTP/1.1 200 OK\r\nTransfer-Encoding: chunked\r\n\r\na\r\n0123456789\r\n" } else { b"HTTP/1.1 200 OK\r\nContent-Length: 100\r\n\r\n0123456789" };
                let origin_ev: Vec<(u64, SrcEv)> = vec![(t_ms / 10, SrcEv::Chunk(head.to_vec()))];
                let run = vfwd::run(
                    VFwdRequest { method: "GET".into(), uri: "http://origin.test/big".into(), version, headers: if version == 11 { vec![("host".into(), b"origin.test".to_vec())] } else { vec![] } },
                    SrcScript { events: vec![(1, SrcEv::Eof)], consume_err_at: None },
                    SinkScript { quotas: vec![], ..Default::default() },
                    SrcScript { events: origin_ev, consume_err_at: None },
                    // (the client takes `quota` bytes and refuses everything after that, however often it is offered)
                    SinkScript { quotas: std::iter::once(quota).chain(std::iter::repeat(0).take(20_000)).collect(), writable_delays: vec![1_000 * t_ms], ..Default::default() },
                    t_ms,
                )
                .await;
                let offered = run.log.iter().filter(|e| e.dir == 3 && e.call.starts_with("write:")).count();
                format!("{} {} {}", run.result, run.end_ms, offered)
            });
            let _ = tx.send(ans);
        });
        let watched: Result<String, String> = match rx.recv_timeout(std::time::Duration::from_secs(20)) {
            Ok(a) => Ok(a),
            Err(_) => wedged(ctx, &desc),
        };
        ctx.stat("stalled_forwarded_downloads");
        match watched {
            Err(e) => ctx.oracle_failure("no_progress", &format!("{}: {}", desc, e)),
            Ok(ans) => {
                let mut it = ans.split(' ');
                let (result, end) = (it.next().unwrap_or(""), it.next().and_then(|x| x.parse::<u64>().ok()).unwrap_or(0));
                let offered = it.next().and_then(|x| x.parse::<usize>().ok()).unwrap_or(0);
                if offered > 4 {
                    ctx.oracle_failure("spin_or_hang", &format!("{}: the client's sink, which was refusing, was offered the pending bytes {} times before the exchange ended ({} at {} ms): the pipe did not wait for it to become writable (busy loop)", desc, offered, result, end));
                }
                let last_activity = t_ms / 10;
                if result != "timedout" || end < last_activity + t_ms || end > last_activity + 2 * t_ms + t_ms / 2 {
                    ctx.oracle_failure("stalled_download_not_timed_out", &format!("{}: exchange() ended with {} at {} ms (last activity at {} ms)", desc, result, end, last_activity));
                }
            }
        }
    }
}

pub fn run_restarts(ctx: &mut Ctx) {
    stalled_download_times_out(ctx);
    response_across_timer_restarts(ctx);
    for (version, t_ms, pause) in [(11u8, 30_000u64, 40_000u64), (2, 30_000, 40_000), (3, 1_000, 1_700), (11, 1_000, 2_500)] {
        let desc = format!(
            "POST over HTTP/{} with Content-Length 8: 4 body bytes, a pause of {} ms (idle timeout {} ms; the origin sends an interim response every {} ms meanwhile), 4 more bytes",
            version, pause, t_ms, t_ms / 2
        );
        begin_case(&desc);
        let r = catch(std::panic::AssertUnwindSafe(move || {
            let rt = tokio::runtime::Builder::new_current_thread().enable_all().start_paused(true).build().unwrap();
            rt.block_on(async move {
                let body_ev = vec![(1, SrcEv::Chunk(b"aaaa".to_vec())), (pause, SrcEv::Chunk(b"bbbb".to_vec())), (1, SrcEv::Eof)];
                // the origin keeps its direction active while it waits for the body, then answers
                let mut origin_ev: Vec<(u64, SrcEv)> = vec![];
                let n = (pause / (t_ms / 2)) as usize + 1;
                for _ in 0..n {
                    origin_ev.push((t_ms / 2, SrcEv::Chunk(b"HTTP/1.1 100 Continue\r\n\r\n".to_vec())));
                }
                origin_ev.push((t_ms / 2, SrcEv::Chunk(b"HTTP/1.1 200 OK\r\nContent-Length: 2\r\n\r\nok".to_vec())));
                origin_ev.push((1, SrcEv::Eof));
                let run = vfwd::run(
                    VFwdRequest {
                        method: "POST".into(),
                        uri: "http://origin.test/upload".into(),
                        version,
                        headers: {
                            let mut h: Vec<(String, Vec<u8>)> = vec![("content-length".into(), b"8".to_vec())];
                            if version == 11 {
                                h.insert(0, ("host".into(), b"origin.test".to_vec()));
                            }
                            h
                        },
                    },
                    SrcScript { events: body_ev, consume_err_at: None },
                    SinkScript { quotas: vec![], ..Default::default() },
                    SrcScript { events: origin_ev, consume_err_at: None },
                    SinkScript { quotas: vec![], writable_delays: vec![], ..Default::default() },
                    t_ms,
                )
                .await;
                (accepted(&run.log, 0), run.result.clone())
            })
        }));
        ctx.stat("request_body_across_timer_restarts");
        match r {
            Err(m) => ctx.oracle_failure("panic", &format!("{}: panicked ({})", desc, m)),
            Ok((req, result)) => {
                let body_at = req.windows(4).position(|w| w == b"\r\n\r\n").map(|p| p + 4).unwrap_or(req.len());
                let body = &req[body_at..];
                if body != b"aaaabbbb" {
                    ctx.oracle_failure(
                        "request_body_cut_at_restart",
                        &format!("{}: the origin was sent the body {:?} (exchange result {}), the client sent \"aaaabbbb\"", desc, String::from_utf8_lossy(body), result),
                    );
                }
            }
        }
    }
}
