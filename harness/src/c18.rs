//! C18: ping, speedtest and reverse-proxy channels
use crate::common::*;
use std::collections::HashMap;
use std::sync::{Arc, Mutex};
use trusttunnel::core::Core;
use trusttunnel::settings::*;
use trusttunnel::shutdown::Shutdown;
use trusttunnel::verif::{self, vtunnel::*};

fn make_core(speedtest: bool, rp: Option<(std::net::SocketAddr, &str)>, allow_private: bool) -> Core {
    make_core_t(speedtest, rp, allow_private, None)
}

fn make_core_t(speedtest: bool, rp: Option<(std::net::SocketAddr, &str)>, allow_private: bool, establish_ms: Option<u64>) -> Core {
    let mut b = Settings::builder()
        .listen_address(("127.0.0.1", 1))
        .unwrap()
        .listen_protocols(ListenProtocolSettings {
            http1: Some(Http1Settings::builder().build()),
            http2: Some(Http2Settings::builder().build()),
            quic: None,
        })
        .speedtest_enable(speedtest)
        .allow_private_network_connections(allow_private);
    if let Some(ms) = establish_ms {
        b = b.connection_establishment_timeout(std::time::Duration::from_millis(ms));
    }
    if let Some((addr, mask)) = rp {
        b = b.reverse_proxy(ReverseProxySettings::builder().server_address(addr).unwrap().path_mask(mask.to_string()).build().unwrap());
    }
    let settings = b.build().unwrap();
    let hosts = TlsHostsSettings::builder()
        .main_hosts(vec![TlsHostInfo {
            hostname: "localhost".into(),
            cert_chain_path: FIXTURE_PEM.into(),
            private_key_path: FIXTURE_PEM.into(),
            allowed_sni: vec![],
        }])
        .build()
        .unwrap();
    // an authenticator is configured: none of the service channels may ask for credentials
    let authn: Arc<dyn trusttunnel::authentication::Authenticator> = Arc::new(
        trusttunnel::authentication::registry_based::RegistryBasedAuthenticator::new(&[trusttunnel::authentication::registry_based::Client {
            username: "u".into(),
            password: "p".into(),
        }]),
    );
    Core::new(settings, Some(authn), hosts, Shutdown::new()).unwrap()
}

fn split_h1(raw: &[u8]) -> (u16, HashMap<String, String>, Vec<u8>) {
    let pos = raw.windows(4).position(|w| w == b"\r\n\r\n");
    match pos {
        None => (0, HashMap::new(), vec![]),
        Some(p) => {
            let head = String::from_utf8_lossy(&raw[..p]).to_string();
            let mut lines = head.split("\r\n");
            let status = lines.next().and_then(|l| l.split(' ').nth(1)).and_then(|s| s.parse().ok()).unwrap_or(0);
            let mut h = HashMap::new();
            for l in lines {
                if let Some((n, v)) = l.split_once(": ") {
                    h.insert(n.to_lowercase(), v.to_string());
                }
            }
            (status, h, raw[p + 4..].to_vec())
        }
    }
}

pub fn run(ctx: &mut Ctx) {
    quiet_panics();
    // ---- demultiplexer precedence -------------------------------------------------------------------
    let origin_dummy: std::net::SocketAddr = "127.0.0.1:9".parse().unwrap();
    let cores = [
        (make_core(false, None, false), false, None),
        (make_core(true, None, false), true, None),
        (make_core(true, Some((origin_dummy, "/rp")), false), true, Some("/rp")),
        (make_core(false, Some((origin_dummy, "/")), false), false, Some("/")),
    ];
    let paths = ["/", "/speed/5mb.bin", "/speed", "/speed/", "/speedy/1mb.bin", "/rp", "/rp/x", "/rpx", "/r", "/5mb.bin", "/upload.html", "/speed/upload.html", "/SPEED/1mb.bin"];
    for (core, st, mask) in &cores {
        for proto in [1u8, 2, 3] {
            for method in ["GET", "POST", "CONNECT"] {
                for path in paths {
                    for marker in 0..6 {
                        let mut headers: Vec<(String, String)> = vec![];
                        let mut ping = false;
                        let mut upgrade = false;
                        match marker {
                            1 => {
                                headers.push(("x-ping".into(), "1".into()));
                                ping = true;
                            }
                            2 => {
                                headers.push(("sec-fetch-mode".into(), "navigate".into()));
                                ping = true;
                            }
                            3 => headers.push(("x-ping".into(), "0".into())),
                            4 => {
                                headers.push(("upgrade".into(), "websocket".into()));
                                upgrade = true;
                            }
                            5 => {
                                headers.push(("upgrade".into(), "h2c".into()));
                                headers.push(("x-ping".into(), "1".into()));
                                ping = true;
                                upgrade = true;
                            }
                            _ => {}
                        }
                        let uri = if method == "CONNECT" { "localhost:443".to_string() } else { format!("https://localhost{}", path) };
                        let real_path = if method == "CONNECT" { "" } else { path };
                        if let Some(ch) = verif::http_demux_select(core, proto, method, &uri, &headers) {
                            ctx.emit(
                                &format!(
                                    "c18 select {} {} {} {} {} {} {}",
                                    proto,
                                    *st as u8,
                                    mask.map(|m| hex(m.as_bytes())).unwrap_or_else(|| "-".into()),
                                    method,
                                    hex(real_path.as_bytes()),
                                    ping as u8,
                                    upgrade as u8
                                ),
                                ch,
                            );
                            ctx.stat(&format!("select_{}", ch));
                        }
                    }
                }
            }
        }
    }

    // ---- ping and speedtest through real sessions (paused clock) -------------------------------------------
    let core = make_core(true, None, false);
    let big = ctx.thorough();
    let mut speed_cases: Vec<(&str, String, Option<String>, usize)> = vec![]; // method, path, content-length, bytes actually uploaded
    for n in ["0", "1", "2", "3", "100", "101", "4294967296", "+2", "02", "-1", "", "1.5", "1e1", "٣"] {
        speed_cases.push(("GET", format!("/speed/{}mb.bin", n), None, 0));
    }
    for p in ["/speed/1mb.bi", "/speed/mb.bin", "/speed/1MB.bin", "/speed/x/1mb.bin", "/speed//1mb.bin", "/speed/1mb.bin/", "/speed/upload.html"] {
        speed_cases.push(("GET", p.to_string(), None, 0));
    }
    for (cl, actual) in [("1", 1usize), ("5", 5), ("5", 3), ("5", 9), ("0", 0), ("125829120", 10), ("125829121", 0), ("+7", 7), ("x", 0), ("", 0), ("70000", 70000)] {
        speed_cases.push(("POST", "/speed/upload.html".into(), Some(cl.to_string()), actual));
    }
    speed_cases.push(("POST", "/speed/upload.htm".into(), Some("5".into()), 5));
    speed_cases.push(("POST", "/speed/1mb.bin".into(), Some("5".into()), 5));
    speed_cases.push(("PUT", "/speed/upload.html".into(), Some("5".into()), 5));
    speed_cases.push(("DELETE", "/speed/1mb.bin".into(), None, 0));
    for (method, path, cl, actual) in speed_cases {
        for proto in ["h1", "h2"] {
            if !big {
                // the large downloads only once per protocol in the quick tier
                if path == "/speed/100mb.bin" {
                    continue;
                }
            }
            let rt = tokio::runtime::Builder::new_current_thread().enable_all().start_paused(true).build().unwrap();
            let body: Vec<u8> = vec![0x5a; actual];
            let (status, got_len) = if proto == "h1" {
                let mut raw = format!("{} {} HTTP/1.1\r\nHost: localhost\r\n", method, path).into_bytes();
                if let Some(c) = &cl {
                    raw.extend_from_slice(format!("Content-Length: {}\r\n", c).as_bytes());
                }
                raw.extend_from_slice(b"\r\n");
                raw.extend_from_slice(&body);
                let out = rt.block_on(h1_session(&core, "localhost", None, raw, 20_000));
                let (s, _, b) = split_h1(&out);
                (s, b.len())
            } else {
                let mut headers = vec![];
                if let Some(c) = &cl {
                    headers.push(("content-length".to_string(), c.clone().into_bytes()));
                }
                let req = VReq { method: method.to_string(), target: format!("https://localhost{}", path), headers, body: body.clone() };
                if http::Request::builder().method(method).uri(req.target.as_str()).body(()).is_err() {
                    continue;
                }
                let r = rt.block_on(h2_session(&core, "localhost", None, vec![req], 1, 20_000));
                match r.first() {
                    Some(x) => (x.status, x.body.len()),
                    None => (0, 0),
                }
            };
            // combinations the transport itself cannot deliver to the handler: HTTP/2 enforces content-length
            // consistency and syntax; on HTTP/1.1 a client that ends its stream early ends the session
            if status == 0 {
                let cl_num = cl.as_ref().and_then(|c| c.parse::<usize>().ok());
                let canonical = cl.as_ref().map(|c| cl_num.map(|n| n.to_string()) == Some(c.clone())).unwrap_or(true);
                let undeliverable = (proto == "h2" && (!canonical || cl_num.map(|n| n != actual).unwrap_or(false)))
                    || (proto == "h1" && cl_num.map(|n| actual < n).unwrap_or(false))
                    || !path.is_ascii();
                if undeliverable {
                    ctx.stat("speed_case_not_deliverable_by_transport");
                    continue;
                }
            }
            ctx.emit(
                &format!("c18 speed {} {} {}", method, hex(path.as_bytes()), cl.as_ref().map(|c| format!("c{}", if c.is_empty() { String::new() } else { hex(c.as_bytes()) })).unwrap_or_else(|| "-".into())),
                &format!("{} {}", status, got_len),
            );
            ctx.stat(&format!("speed_{}_{}", proto, status));
        }
    }
    // ping: 200, empty body, no credentials needed
    for proto in ["h1", "h2"] {
        for (hn, hv) in [("x-ping", "1"), ("sec-fetch-mode", "navigate")] {
            let rt = tokio::runtime::Builder::new_current_thread().enable_all().start_paused(true).build().unwrap();
            let (status, len) = if proto == "h1" {
                let raw = format!("GET /anything HTTP/1.1\r\nHost: localhost\r\n{}: {}\r\n\r\n", hn, hv).into_bytes();
                let out = rt.block_on(h1_session(&core, "localhost", None, raw, 20_000));
                let (s, _, b) = split_h1(&out);
                (s, b.len())
            } else {
                let req = VReq { method: "GET".into(), target: "https://localhost/anything".into(), headers: vec![(hn.to_string(), hv.as_bytes().to_vec())], body: vec![] };
                let r = rt.block_on(h2_session(&core, "localhost", None, vec![req], 1, 20_000));
                r.first().map(|x| (x.status, x.body.len())).unwrap_or((0, 0))
            };
            if status != 200 || len != 0 {
                ctx.oracle_failure("ping", &format!("{} request with {}: {} answered {} with {} body bytes", proto, hn, hv, status, len));
            }
            ctx.stat("ping_sessions");
        }
    }

    // ---- reverse proxy against a loopback origin, both values of the egress policy ---------------------------------
    // (through a tunnel host's path mask, and on a connection of the reverse-proxy host itself)
    for (allow_private, own_host) in [(false, false), (true, false), (false, true)] {
        let rt = tokio::runtime::Builder::new_multi_thread().worker_threads(2).enable_all().build().unwrap();
        let seen = Arc::new(Mutex::new(Vec::<u8>::new()));
        let seen2 = seen.clone();
        let verdict: Result<Vec<u8>, String> = rt.block_on(async move {
            use tokio::io::{AsyncReadExt, AsyncWriteExt};
            let l = tokio::net::TcpListener::bind("127.0.0.1:0").await.unwrap();
            let origin = l.local_addr().unwrap();
            tokio::spawn(async move {
                if let Ok((mut s, _)) = l.accept().await {
                    let mut buf = vec![0u8; 4096];
                    let mut got = vec![];
                    while !got.windows(4).any(|w| w == b"\r\n\r\n") {
                        match s.read(&mut buf).await {
                            Ok(0) | Err(_) => break,
                            Ok(n) => got.extend_from_slice(&buf[..n]),
                        }
                    }
                    seen2.lock().unwrap().extend_from_slice(&got);
                    // the origin writes its response head in pieces (inside the status line, inside the header block, before the
                    // final CRLF): however it is segmented, it is one response
                    let resp: &[u8] = b"HTTP/1.1 101 Switching Protocols\r\nUpgrade: websocket\r\nConnection: Upgrade\r\nX-Filler: abcdefghijklmnopqrstuvwxyz\r\n\r\nORIGIN-BYTES";
                    let _ = s.set_nodelay(true);
                    let mut prev = 0;
                    for cut in [12usize, 50, 100, resp.len() - 14] {
                        let _ = s.write_all(&resp[prev..cut]).await;
                        prev = cut;
                        tokio::time::sleep(std::time::Duration::from_millis(15)).await;
                    }
                    let _ = s.write_all(&resp[prev..]).await;
                    // the exchange outlives the session's poll timeout (300 ms here): more bytes at 900 ms
                    let (mut rd, mut wr) = s.into_split();
                    let late = tokio::spawn(async move {
                        tokio::time::sleep(std::time::Duration::from_millis(900)).await;
                        let _ = wr.write_all(b"LATE-ORIGIN-BYTES").await;
                        wr
                    });
                    // what the client sent after its request head
                    let mut got_more = 0usize;
                    while got_more < 12 {
                        match rd.read(&mut buf).await {
                            Ok(0) | Err(_) => break,
                            Ok(n) => {
                                seen2.lock().unwrap().extend_from_slice(&buf[..n]);
                                got_more += n;
                            }
                        }
                    }
                    let mut wr = match late.await {
                        Ok(w) => w,
                        Err(_) => return,
                    };
                    let _ = wr.write_all(b"CLIENT-BYTES").await;
                    let mut s = match rd.reunite(wr) {
                        Ok(s) => s,
                        Err(_) => return,
                    };
                    // echo whatever follows
                    loop {
                        match s.read(&mut buf).await {
                            Ok(0) | Err(_) => break,
                            Ok(n) => {
                                seen2.lock().unwrap().extend_from_slice(&buf[..n]);
                                let _ = s.write_all(&buf[..n]).await;
                            }
                        }
                    }
                }
            });
            let core = make_core_t(false, Some((origin, "/rp")), allow_private, Some(300));
            let mut raw = b"GET /rp/socket?x=1 HTTP/1.1\r\nHost: localhost\r\nUpgrade: websocket\r\nConnection: Upgrade\r\nProxy-Authorization: Basic bogus\r\nX-Original-Protocol: HTTP3\r\nX-Custom: v\r\n\r\n".to_vec();
            raw.extend_from_slice(b"CLIENT-BYTES");
            if own_host {
                // the reverse-proxy host's own connection handler (`reverse_proxy::listen` over the HTTP/1.1 codec)
                let sess = trusttunnel::verif::vservice::spawn(&core, "reverse_proxy", false).ok_or("could not start the reverse proxy session")?;
                let (mut cr, mut cw) = tokio::io::split(sess.client);
                cw.write_all(&raw).await.map_err(|e| e.to_string())?;
                let mut all = vec![];
                let mut buf = vec![0u8; 4096];
                let t0 = std::time::Instant::now();
                while t0.elapsed() < std::time::Duration::from_millis(1600) {
                    match tokio::time::timeout(std::time::Duration::from_millis(100), cr.read(&mut buf)).await {
                        Ok(Ok(0)) | Ok(Err(_)) => break,
                        Ok(Ok(n)) => all.extend_from_slice(&buf[..n]),
                        Err(_) => {}
                    }
                }
                drop(cw);
                return Ok(all);
            }
            let out = tokio::time::timeout(std::time::Duration::from_secs(10), h1_session(&core, "localhost", None, raw, 1600)).await;
            out.map_err(|_| "reverse proxy session hung".to_string())
        });
        match verdict {
            Err(e) => ctx.oracle_failure("reverse_proxy", &e),
            Ok(out) => {
                let origin_saw = String::from_utf8_lossy(&seen.lock().unwrap()).to_string();
                let (status, _, body) = split_h1(&out);
                let body_s = String::from_utf8_lossy(&body).to_string();
                let ok = status == 101
                    && body_s.starts_with("ORIGIN-BYTES")
                    && body_s.contains("CLIENT-BYTES")
                    && body_s.contains("LATE-ORIGIN-BYTES")
                    && origin_saw.starts_with("GET /rp/socket?x=1 HTTP/1.1\r\n")
                    && origin_saw.to_lowercase().contains("x-original-protocol: http1\r\n")
                    // (the client sent one of its own, naming another protocol: the origin must see the endpoint's, alone)
                    && origin_saw.to_lowercase().matches("x-original-protocol:").count() == 1
                    && origin_saw.to_lowercase().contains("x-custom: v\r\n")
                    && origin_saw.contains("CLIENT-BYTES");
                if !ok {
                    ctx.oracle_failure(
                        "reverse_proxy",
                        &format!("allow_private={} own_host_connection={}: client got status {} body {:?}; origin saw {:?}", allow_private, own_host, status, body_s, origin_saw),
                    );
                }
                ctx.stat("reverse_proxy_sessions");
            }
        }
    }
}

/// C18 over HTTP/3: the real QUIC listener with an authenticator configured; ping (marker and ping
/// host), speedtest (tunnel host path and speedtest host) and reverse proxy (path mask on the tunnel
/// host) requests without credentials
pub fn run_h3(ctx: &mut Ctx) {
    use crate::c02h3::LiveEndpoint;
    use crate::h3cli::H3Client;
    use std::io::{Read, Write};
    use std::time::Duration;
    quiet_panics();
    const FIX: &str = concat!(env!("CARGO_MANIFEST_DIR"), "/fixtures/");
    // the reverse-proxy origin: records what it saw, answers a fixed response and echoes what follows
    let seen = Arc::new(Mutex::new(Vec::<Vec<u8>>::new()));
    let origin_l = std::net::TcpListener::bind("127.0.0.1:0").unwrap();
    let origin = origin_l.local_addr().unwrap();
    {
        let seen = seen.clone();
        std::thread::spawn(move || {
            for s in origin_l.incoming() {
                let Ok(mut s) = s else { continue };
                let seen = seen.clone();
                std::thread::spawn(move || {
                    let _ = s.set_read_timeout(Some(Duration::from_secs(2)));
                    let mut got = vec![];
                    let mut buf = [0u8; 4096];
                    while !got.windows(4).any(|w| w == b"\r\n\r\n") {
                        match s.read(&mut buf) {
                            Ok(0) | Err(_) => break,
                            Ok(n) => got.extend_from_slice(&buf[..n]),
                        }
                    }
                    let resp: &[u8] = b"HTTP/1.1 200 OK\r\nX-Origin: yes\r\nX-Filler: abcdefghijklmnopqrstuvwxyz0123456789\r\nContent-Length: 12\r\n\r\nORIGIN-BYTES";
                    let _ = s.set_nodelay(true);
                    let mut prev = 0;
                    for cut in [10usize, 45, 80] {
                        let _ = s.write_all(&resp[prev..cut]);
                        prev = cut;
                        std::thread::sleep(Duration::from_millis(15));
                    }
                    let _ = s.write_all(&resp[prev..]);
                    let t0 = std::time::Instant::now();
                    while t0.elapsed() < Duration::from_millis(300) {
                        match s.read(&mut buf) {
                            Ok(0) => break,
                            Ok(n) => got.extend_from_slice(&buf[..n]),
                            Err(_) => {}
                        }
                    }
                    seen.lock().unwrap().push(got);
                });
            }
        });
    }
    for allow_private in [false, true] {
        let Some(ep) = LiveEndpoint::start(move |addr| {
            let settings = Settings::builder()
                .listen_address(addr)
                .unwrap()
                .listen_protocols(ListenProtocolSettings {
                    http1: Some(Http1Settings::builder().build()),
                    http2: Some(Http2Settings::builder().build()),
                    quic: Some(QuicSettings::builder().build()),
                })
                .speedtest_enable(true)
                .allow_private_network_connections(allow_private)
                .reverse_proxy(ReverseProxySettings::builder().server_address(origin).unwrap().path_mask("/rp".to_string()).build().unwrap())
                .build()
                .unwrap();
            let h = |n: &str, f: &str| TlsHostInfo { hostname: n.into(), cert_chain_path: format!("{}{}", FIX, f), private_key_path: format!("{}{}", FIX, f), allowed_sni: vec![] };
            let hosts = TlsHostsSettings::builder()
                .main_hosts(vec![h("main.verif.test", "c05_main.pem")])
                .ping_hosts(vec![h("ping.verif.test", "c05_ping.pem")])
                .speedtest_hosts(vec![h("speed.verif.test", "c05_speed.pem")])
                .reverse_proxy_hosts(vec![h("rproxy.verif.test", "c05_rproxy.pem")])
                .build()
                .unwrap();
            let authn: Arc<dyn trusttunnel::authentication::Authenticator> = Arc::new(
                trusttunnel::authentication::registry_based::RegistryBasedAuthenticator::new(&[trusttunnel::authentication::registry_based::Client { username: "u".into(), password: "p".into() }]),
            );
            Core::new(settings, Some(authn), hosts, Shutdown::new()).unwrap()
        }) else {
            ctx.notes.push("c18h3: the endpoint's listener did not come up on loopback; nothing was run".to_string());
            return;
        };
        // one exchange: (sni, method, path, headers, body) -> (status, headers, body, finished)
        let exchange = |sni: &str, method: &str, path: &str, headers: &[(String, Vec<u8>)], body: &[u8], patience: Duration| -> Option<crate::h3cli::H3Stream> {
            let mut cl = H3Client::connect(ep.addr, Some(sni), &[b"h3"], 4 << 20, Duration::from_secs(3)).ok()?;
            let id = cl.request(method, Some("https"), sni, Some(path), headers, body.is_empty() && method != "POST" && method != "PUT")?;
            if !(body.is_empty() && method != "POST" && method != "PUT") {
                let mut off = 0;
                let t0 = std::time::Instant::now();
                while off < body.len() && t0.elapsed() < patience {
                    match cl.send_body(id, &body[off..], false) {
                        Ok(n) => off += n,
                        Err(_) => break,
                    }
                }
                let t0 = std::time::Instant::now();
                while !cl.finish(id).unwrap_or(true) && t0.elapsed() < Duration::from_secs(2) {}
            }
            cl.wait(patience, |c| c.streams.get(&id).map(|s| s.finished || s.reset.is_some()).unwrap_or(false));
            let st = cl.stream(id);
            cl.close();
            Some(st)
        };
        // ---- ping ----
        for (sni, path, hs) in [
            ("main.verif.test", "/anything", vec![("x-ping".to_string(), b"1".to_vec())]),
            ("main.verif.test", "/", vec![("sec-fetch-mode".to_string(), b"navigate".to_vec())]),
            ("ping.verif.test", "/whatever", vec![]),
            ("ping.verif.test", "/speed/1mb.bin", vec![]),
        ] {
            ctx.stat("h3_ping_requests");
            match exchange(sni, "GET", path, &hs, &[], Duration::from_secs(3)) {
                Some(st) if st.status == Some(200) && st.body.is_empty() && st.finished => {}
                other => ctx.oracle_failure(
                    "ping",
                    &format!("HTTP/3 GET {} on {} with {:?} (no credentials): expected 200 with no body and a finished stream, got {:?}", path, sni, hs.iter().map(|(n, _)| n.as_str()).collect::<Vec<_>>(), other.map(|s| (s.status, s.body.len(), s.finished, s.reset))),
                ),
            }
        }
        // ---- speedtest: the model's table, on the tunnel host's /speed path and on the speedtest host ----
        let mut speed_cases: Vec<(&str, String, Option<String>, usize)> = vec![];
        for n in ["0", "1", "2", "3", "101", "4294967296", "+2", "02", "-1", "", "1.5"] {
            speed_cases.push(("GET", format!("/speed/{}mb.bin", n), None, 0));
        }
        if ctx.thorough() {
            speed_cases.push(("GET", "/speed/100mb.bin".into(), None, 0));
            speed_cases.push(("GET", "/speed/17mb.bin".into(), None, 0));
        }
        for p in ["/speed/1mb.bi", "/speed/mb.bin", "/speed/1MB.bin", "/speed/x/1mb.bin", "/speed/upload.html"] {
            speed_cases.push(("GET", p.to_string(), None, 0));
        }
        for (cl, actual) in [("1", 1usize), ("5", 5), ("0", 0), ("125829121", 0), ("x", 0), ("70000", 70000)] {
            speed_cases.push(("POST", "/speed/upload.html".into(), Some(cl.to_string()), actual));
        }
        speed_cases.push(("POST", "/speed/upload.htm".into(), Some("5".into()), 5));
        speed_cases.push(("PUT", "/speed/upload.html".into(), Some("5".into()), 5));
        speed_cases.push(("DELETE", "/speed/1mb.bin".into(), None, 0));
        for (method, path, cl, actual) in speed_cases {
            for own_host in [false, true] {
                if own_host && allow_private {
                    continue;
                }
                // on the speedtest host the path carries no /speed prefix
                let (sni, p) = if own_host { ("speed.verif.test", path.trim_start_matches("/speed").to_string()) } else { ("main.verif.test", path.clone()) };
                let mut hs = vec![];
                if let Some(c) = &cl {
                    hs.push(("content-length".to_string(), c.clone().into_bytes()));
                }
                let body = vec![0x5au8; actual];
                let st = exchange(sni, method, &p, &hs, &body, Duration::from_secs(if path.contains("100mb") { 60 } else { 10 }));
                let (status, len, fin) = st.map(|s| (s.status.unwrap_or(0), s.body.len(), s.finished)).unwrap_or((0, 0, false));
                if status == 200 && !fin {
                    ctx.oracle_failure("speedtest", &format!("HTTP/3 {} {} on {}: answered 200 but the stream never ended ({} body bytes)", method, p, sni, len));
                }
                ctx.emit(
                    &format!("c18 speed {} {} {}", method, hex(path.as_bytes()), cl.as_ref().map(|c| format!("c{}", if c.is_empty() { String::new() } else { hex(c.as_bytes()) })).unwrap_or_else(|| "-".into())),
                    &format!("{} {}", status, len),
                );
                ctx.stat(&format!("speed_h3_{}", status));
            }
        }
        // ---- reverse proxy: path mask on the tunnel host, and the reverse-proxy host itself ----
        for (sni, path) in [("main.verif.test", "/rp/socket?x=1"), ("rproxy.verif.test", "/any/path?y=2")] {
            ctx.stat("h3_reverse_proxy_requests");
            seen.lock().unwrap().clear();
            let hs = vec![
                ("x-custom".to_string(), b"v".to_vec()),
                ("proxy-authorization".to_string(), b"Basic bogus".to_vec()),
                // a header of the endpoint's own, forged by the client
                ("x-original-protocol".to_string(), b"HTTP1".to_vec()),
            ];
            let st = exchange(sni, "GET", path, &hs, &[], Duration::from_secs(3));
            std::thread::sleep(Duration::from_millis(350));
            let saw: Vec<String> = seen.lock().unwrap().iter().map(|b| String::from_utf8_lossy(b).to_string()).collect();
            let origin_ok = saw.len() == 1
                && saw[0].starts_with(&format!("GET {} HTTP/1.1\r\n", path))
                && saw[0].to_lowercase().contains("x-original-protocol: http3\r\n")
                && saw[0].to_lowercase().matches("x-original-protocol:").count() == 1
                && saw[0].to_lowercase().contains("x-custom: v\r\n");
            let client_ok = st.as_ref().map(|s| s.status == Some(200) && s.body == b"ORIGIN-BYTES" && s.headers.iter().any(|(n, v)| n == "x-origin" && v == "yes")).unwrap_or(false);
            if !origin_ok || !client_ok {
                ctx.oracle_failure(
                    "reverse_proxy",
                    &format!(
                        "HTTP/3 GET {} on {} (allow_private_network_connections={}): client got {:?}; the origin saw {:?}",
                        path,
                        sni,
                        allow_private,
                        st.map(|s| (s.status, String::from_utf8_lossy(&s.body).to_string(), s.headers)),
                        saw
                    ),
                );
            }
        }
    }
}
