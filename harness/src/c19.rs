//! C19: every interleaving of register / wait-poll / submit / finish / completion-poll
use crate::common::*;
use trusttunnel::verif::vshutdown::VShutdown;

#[derive(Clone, Copy, Debug)]
enum Op {
    Register,
    WaitPoll(usize),
    Submit,
    Finish(usize),
    CompletionPoll,
}

fn op_tok(o: &Op) -> String {
    match o {
        Op::Register => "R".into(),
        Op::WaitPoll(i) => format!("W{}", i),
        Op::Submit => "S".into(),
        Op::Finish(i) => format!("F{}", i),
        Op::CompletionPoll => "C".into(),
    }
}

fn exec(ops: &[Op]) -> String {
    let mut s = VShutdown::default();
    let mut outs: Vec<String> = vec![];
    for o in ops {
        outs.push(match o {
            Op::Register => {
                let (i, g) = s.register();
                format!("reg{}:{}", i, g as u8)
            }
            Op::WaitPoll(i) => s.wait_poll(*i).to_string(),
            Op::Submit => {
                s.submit();
                "-".into()
            }
            Op::Finish(i) => {
                s.finish(*i);
                "-".into()
            }
            Op::CompletionPoll => s.completion_poll().to_string(),
        });
    }
    outs.join(",")
}

pub fn run(ctx: &mut Ctx) {
    // exhaustive: all operation sequences up to length L over at most 3 participants
    let max_len = if ctx.thorough() { 7 } else { 6 };
    let alphabet = |registered: usize| -> Vec<Op> {
        let mut v = vec![Op::Submit, Op::CompletionPoll];
        if registered < 3 {
            v.push(Op::Register);
        }
        for i in 0..registered {
            v.push(Op::WaitPoll(i));
            v.push(Op::Finish(i));
        }
        v
    };
    let mut stack: Vec<(Vec<Op>, usize)> = vec![(vec![], 0)];
    let mut count = 0u64;
    while let Some((seq, reg)) = stack.pop() {
        if !seq.is_empty() {
            // only maximal-length sequences and those ending in an observation are emitted (prefixes are covered by them)
            if seq.len() == max_len {
                let q = format!("c19 run {}", seq.iter().map(op_tok).collect::<Vec<_>>().join(" "));
                ctx.emit(&q, &exec(&seq));
                count += 1;
            }
        }
        if seq.len() < max_len {
            for o in alphabet(reg) {
                // prune: finishing or polling the same participant twice in a row adds nothing
                if let (Some(Op::Finish(a)), Op::Finish(b)) = (seq.last(), &o) {
                    if a == b {
                        continue;
                    }
                }
                let mut s2 = seq.clone();
                s2.push(o);
                let reg2 = reg + matches!(o, Op::Register) as usize;
                // sequences must start by registering someone to be interesting
                if s2.len() == 1 && !matches!(o, Op::Register | Op::Submit | Op::CompletionPoll) {
                    continue;
                }
                stack.push((s2, reg2));
            }
        }
    }
    ctx.stat_add("exhaustive_sequences", count);
    // random longer histories
    let n = if ctx.thorough() { 20_000 } else { 2_000 };
    for _ in 0..n {
        let len = ctx.rng.range(8, 20) as usize;
        let mut reg = 0usize;
        let mut seq = vec![];
        for _ in 0..len {
            let al = alphabet(reg.min(3));
            let o = *ctx.rng.pick(&al);
            if matches!(o, Op::Register) {
                reg += 1;
            }
            seq.push(o);
        }
        let q = format!("c19 run {}", seq.iter().map(op_tok).collect::<Vec<_>>().join(" "));
        ctx.emit(&q, &exec(&seq));
        ctx.stat("random_histories");
    }

    // ---- the real sessions wind down on submit and completion() returns once they have ended ----------
    use trusttunnel::shutdown::Shutdown;
    use trusttunnel::verif::vtunnel::{h1_session, h2_session_hold, VReq};
    for proto in ["h1", "h2"] {
        for n_sessions in [1usize, 3] {
            let shutdown = Shutdown::new();
            let core = std::sync::Arc::new(crate::c10::plain_core(shutdown.clone()));
            let rt = tokio::runtime::Builder::new_current_thread().enable_all().start_paused(true).build().unwrap();
            let verdict: Result<(), String> = rt.block_on(async {
                let local = tokio::task::LocalSet::new();
                local
                    .run_until(async {
                        let mut handles = vec![];
                        for _ in 0..n_sessions {
                            let core = core.clone();
                            handles.push(tokio::task::spawn_local(async move {
                                let t0 = tokio::time::Instant::now();
                                if proto == "h1" {
                                    // an idle HTTP/1.1 connection: no request yet, the client keeps it open for 500 s
                                    let _ = h1_session(&core, "localhost", None, vec![], 500_000).await;
                                } else {
                                    // an HTTP/2 session with one open CONNECT stream; the client lingers for 500 s
                                    let reqs = vec![VReq { method: "CONNECT".into(), target: "idle.example:443".into(), headers: vec![], body: vec![] }];
                                    let _ = h2_session_hold(&core, "localhost", None, reqs, 10, 5_000, 500_000).await;
                                }
                                t0.elapsed().as_millis() as u64
                            }));
                        }
                        tokio::time::sleep(std::time::Duration::from_millis(2_000)).await;
                        // completion must not be reported while sessions are alive
                        shutdown.lock().unwrap().submit();
                        let mut ended_at = vec![];
                        for h in handles {
                            match tokio::time::timeout(std::time::Duration::from_millis(100_000), h).await {
                                Ok(Ok(ms)) => ended_at.push(ms),
                                _ => return Err(format!("{} session did not wind down within 100 s of the shutdown submission", proto)),
                            }
                        }
                        if ended_at.iter().any(|ms| *ms < 2_000) {
                            return Err(format!("{} session ended before the shutdown was submitted: {:?}", proto, ended_at));
                        }
                        let sd = shutdown.clone();
                        let done = tokio::time::timeout(std::time::Duration::from_millis(10_000), async move {
                            #[allow(clippy::await_holding_lock)]
                            sd.lock().unwrap().completion().await
                        })
                        .await;
                        if done.is_err() {
                            return Err(format!("completion() still pending 10 s after all {} sessions ended", proto));
                        }
                        Ok(())
                    })
                    .await
            });
            match verdict {
                Ok(()) => ctx.stat(&format!("graceful_{}_sessions_{}", proto, n_sessions)),
                Err(e) => ctx.oracle_failure("graceful_shutdown", &e),
            }
        }
    }

    // ---- every kind of participant holds completion() back while it is alive, and lets go when it ends ----
    {
        use trusttunnel::settings::*;
        use trusttunnel::verif::{vlive, vservice};
        let kinds: [(&str, bool); 11] = [
            // a speedtest session in the middle of a 100 MB download to a client that has stopped reading: its wind-down
            // (flush and close) cannot finish until the client goes away - completion() has to wait for that
            ("speedtest_busy", false),
            // the listeners themselves (`Core::listen`, without a metrics listener that would hold a guard of its own)
            ("listeners", false),
            ("tunnel", false),
            ("tunnel", true),
            ("ping", false),
            ("ping", true),
            ("speedtest", false),
            ("speedtest", true),
            ("reverse_proxy", false),
            ("metrics", false),
            ("none", false),
        ];
        for (kind, h2) in kinds {
            let shutdown = Shutdown::new();
            let maddr = std::net::TcpListener::bind("127.0.0.1:0").map(|l| l.local_addr().unwrap()).ok();
            let listen_port = crate::c02h3::free_port();
            let mut b = Settings::builder()
                .listen_address(("127.0.0.1", listen_port))
                .unwrap()
                .listen_protocols(ListenProtocolSettings {
                    http1: Some(Http1Settings::builder().build()),
                    http2: Some(Http2Settings::builder().build()),
                    quic: None,
                })
                .speedtest_enable(true)
                .reverse_proxy(ReverseProxySettings::builder().server_address("127.0.0.1:9").unwrap().path_mask("/rp".to_string()).build().unwrap());
            if let (Some(a), true) = (maddr, kind != "listeners") {
                b = b.metrics(MetricsSettings::builder().listen_address(a).unwrap().request_timeout(std::time::Duration::from_secs(3)).build().unwrap());
            }
            let hosts = TlsHostsSettings::builder()
                .main_hosts(vec![TlsHostInfo { hostname: "localhost".into(), cert_chain_path: FIXTURE_PEM.into(), private_key_path: FIXTURE_PEM.into(), allowed_sni: vec![] }])
                .build()
                .unwrap();
            let core = std::sync::Arc::new(trusttunnel::core::Core::new(b.build().unwrap(), None, hosts, shutdown.clone()).unwrap());
            let label = format!("{}{}", kind, if kind == "metrics" || kind == "none" || kind == "listeners" || kind == "speedtest_busy" { "" } else if h2 { "/h2" } else { "/h1" });
            let rt = tokio::runtime::Builder::new_current_thread().enable_all().start_paused(true).build().unwrap();
            let verdict: Result<(), String> = rt.block_on(async {
                use std::time::Duration;
                // the participant: a task and the client's end that keeps it alive
                let mut keep_h1 = None;
                let mut keep_h2 = None;
                let mut keep_svc = None;
                let mut ran_busy = false;
                let task: Option<tokio::task::JoinHandle<()>> = match kind {
                    "tunnel" if h2 => {
                        keep_h2 = vlive::open_h2(&core, "localhost").await;
                        None
                    }
                    "tunnel" => {
                        keep_h1 = Some(vlive::open_h1(&core, "localhost"));
                        None
                    }
                    "metrics" => Some(vservice::spawn_metrics(&core)),
                    "listeners" => {
                        let c2 = core.clone();
                        Some(tokio::spawn(async move {
                            let _ = c2.listen().await;
                        }))
                    }
                    "none" => None,
                    "speedtest_busy" => match vservice::spawn(&core, "speedtest", false) {
                        Some(mut s) => {
                            use tokio::io::AsyncWriteExt;
                            let _ = s.client.write_all(b"GET /100mb.bin HTTP/1.1\r\nHost: speed.test\r\n\r\n").await;
                            keep_svc = Some(s.client);
                            Some(s.task)
                        }
                        None => return Err("could not start the session".to_string()),
                    },
                    k => match vservice::spawn(&core, k, h2) {
                        Some(s) => {
                            keep_svc = Some(s.client);
                            Some(s.task)
                        }
                        None => return Err("could not start the session".to_string()),
                    },
                };
                tokio::time::sleep(Duration::from_millis(1_000)).await;
                let alive = |t: &Option<tokio::task::JoinHandle<()>>, a: &Option<vlive::H1Session>, b: &Option<vlive::H2Session>| -> bool {
                    t.as_ref().map(|x| !x.is_finished()).unwrap_or(false)
                        || a.as_ref().map(|x| !x.server_ended()).unwrap_or(false)
                        || b.as_ref().map(|x| !x.server_ended()).unwrap_or(false)
                };
                if kind != "none" && !alive(&task, &keep_h1, &keep_h2) {
                    return Err("the session ended by itself before any shutdown".to_string());
                }
                let sd = shutdown.clone();
                let early = tokio::time::timeout(Duration::from_millis(1_000), async move {
                    #[allow(clippy::await_holding_lock)]
                    sd.lock().unwrap().completion().await
                })
                .await;
                match (kind, early.is_ok()) {
                    ("none", false) => return Err("completion() pending although nothing is registered".to_string()),
                    ("none", true) => return Ok(()),
                    (_, true) => return Err("completion() returned while the participant was alive and had not finished".to_string()),
                    _ => {}
                }
                shutdown.lock().unwrap().submit();
                // never earlier: while the participant is still winding down, completion() stays pending
                {
                    let sd = shutdown.clone();
                    let during = tokio::time::timeout(Duration::from_millis(500), async move {
                        #[allow(clippy::await_holding_lock)]
                        sd.lock().unwrap().completion().await
                    })
                    .await;
                    if during.is_ok() {
                        // (the task that held the guard is given a moment to be seen as finished)
                        tokio::time::sleep(Duration::from_millis(50)).await;
                        if alive(&task, &keep_h1, &keep_h2) {
                            return Err("completion() returned while the participant was still winding down (its task had not finished)".to_string());
                        }
                    } else if kind == "speedtest_busy" {
                        ran_busy = true;
                    }
                }
                if kind == "speedtest_busy" {
                    // the client goes away: the wind-down can end now
                    drop(keep_svc.take());
                }
                let t0 = tokio::time::Instant::now();
                while alive(&task, &keep_h1, &keep_h2) {
                    tokio::time::sleep(Duration::from_millis(100)).await;
                    if t0.elapsed() > Duration::from_secs(100) {
                        return Err("the participant did not wind down within 100 s of the shutdown submission".to_string());
                    }
                }
                let sd = shutdown.clone();
                let done = tokio::time::timeout(Duration::from_millis(10_000), async move {
                    #[allow(clippy::await_holding_lock)]
                    sd.lock().unwrap().completion().await
                })
                .await;
                drop((keep_h1, keep_h2, keep_svc));
                if done.is_err() {
                    return Err("completion() still pending 10 s after the participant ended".to_string());
                }
                let _ = ran_busy;
                if kind == "listeners" && std::net::TcpStream::connect_timeout(&([127, 0, 0, 1], listen_port).into(), Duration::from_millis(300)).is_ok() {
                    return Err("completion() returned while the endpoint was still accepting TCP connections".to_string());
                }
                if let ("metrics", Some(a)) = (kind, maddr) {
                    if std::net::TcpStream::connect_timeout(&a, Duration::from_millis(300)).is_ok() {
                        return Err("completion() returned while the metrics listener was still accepting connections".to_string());
                    }
                }
                Ok(())
            });
            match verdict {
                Ok(()) => ctx.stat(&format!("participant_{}", label.replace('/', "_"))),
                Err(e) => ctx.oracle_failure("graceful_shutdown", &format!("participant {}: {}", label, e)),
            }
        }
    }
    h2_request_racing_with_goaway(ctx);
}

/// An HTTP/2 session with a request in flight (its outbound connection takes 5 s) when the shutdown is submitted,
/// and a second request that the client had sent before it could see the GOAWAY: the in-flight request must still
/// be served to its end (200 at 5 s), the session must stay until then, and completion() comes only afterwards.
fn h2_request_racing_with_goaway(ctx: &mut Ctx) {
    use std::time::Duration;
    use trusttunnel::shutdown::Shutdown;
    use trusttunnel::verif::vlive;
    use trusttunnel::verif::vtunnel::{ConnectScript, FwdScript};
    // `late`: None = no second request; Some(k) = the second request is handed to the client's connection, the scheduler
    // runs k times (so that it is on the wire, but - for some k - not yet read by the endpoint), then the shutdown is
    // submitted; Some(100 + k) = the shutdown is submitted first, k scheduler runs later the request follows
    for late in [None, Some(0usize), Some(1), Some(2), Some(3), Some(4), Some(100), Some(101), Some(102)] {
        let shutdown = Shutdown::new();
        let core = std::sync::Arc::new(crate::c10::plain_core(shutdown.clone()));
        trusttunnel::verif::hooks::reset();
        let mut script = FwdScript::default();
        script.connect.insert("slow.example:443".into(), ConnectScript::DelayedOk { ms: 5_000 });
        trusttunnel::verif::hooks::STATE.lock().unwrap().forwarder = Some(script);
        let rt = tokio::runtime::Builder::new_current_thread().enable_all().start_paused(true).build().unwrap();
        let verdict: Result<(), String> = rt.block_on(async {
            let Some(mut sess) = vlive::open_h2(&core, "localhost").await else { return Err("could not open the HTTP/2 session".into()) };
            let Some(mut first) = sess.request("CONNECT", "slow.example:443", &[], false).await else { return Err("request #1 refused".into()) };
            tokio::time::sleep(Duration::from_millis(1_000)).await;

            first.poll();
            if first.status.is_some() || first.failed {
                return Err("request #1 was answered before its connection attempt completed".into());
            }
            let mut second = None;
            match late {
                None => shutdown.lock().unwrap().submit(),
                Some(k) if k < 100 => {
                    second = sess.request("CONNECT", "late.example:443", &[], false).await;
                    for _ in 0..k {
                        tokio::task::yield_now().await;
                    }
                    shutdown.lock().unwrap().submit();
                }
                Some(k) => {
                    shutdown.lock().unwrap().submit();
                    for _ in 0..k - 100 {
                        tokio::task::yield_now().await;
                    }
                    second = sess.request("CONNECT", "late.example:443", &[], false).await;
                }
            }
            let t0 = tokio::time::Instant::now();
            let mut ended_at = None;
            while t0.elapsed() < Duration::from_secs(20) {
                tokio::time::sleep(Duration::from_millis(50)).await;

                first.poll();
                if let Some(s) = second.as_mut() {
                    s.poll();
                }
                if ended_at.is_none() && sess.server_ended() {
                    ended_at = Some(t0.elapsed().as_millis() as u64);
                }
                if first.status.is_some() || first.failed {
                    break;
                }
            }
            if first.status != Some(200) {
                return Err(format!(
                    "the request in flight at the shutdown was not served to its end: status {:?}, failed {}, the session ended {:?} ms after the submission (its connection attempt completes 4000 ms after it)",
                    first.status, first.failed, ended_at
                ));
            }
            if let Some(ms) = ended_at {
                if ms < 3_900 {
                    return Err(format!("the session ended {} ms after the submission, before its in-flight request was answered", ms));
                }
            }
            // the tunnel of request #1 is up; the client ends it, then the session and the shutdown complete
            first.send(b"", true);
            if let Some(s2) = second.as_mut() {
                // (a second request that was served as well: its tunnel is ended too)
                s2.send(b"", true);
            }
            let t1 = tokio::time::Instant::now();
            while !sess.server_ended() && t1.elapsed() < Duration::from_secs(100) {
                tokio::time::sleep(Duration::from_millis(100)).await;

                first.poll();
            }
            if !sess.server_ended() {
                return Err("the session did not wind down within 100 s after its last stream ended".into());
            }
            let sd = shutdown.clone();
            let done = tokio::time::timeout(Duration::from_millis(10_000), async move {
                #[allow(clippy::await_holding_lock)]
                sd.lock().unwrap().completion().await
            })
            .await;
            if done.is_err() {
                return Err("completion() still pending 10 s after the session ended".into());
            }
            Ok(())
        });
        trusttunnel::verif::hooks::reset();
        match verdict {
            Ok(()) => ctx.stat(if late.is_some() { "h2_in_flight_with_racing_request" } else { "h2_in_flight_at_shutdown" }),
            Err(e) => ctx.oracle_failure(
                "graceful_shutdown",
                &format!("HTTP/2 session with a CONNECT in flight (connection attempt of 5 s) at the shutdown{}: {}", match late { None => String::new(), Some(k) if k < 100 => format!(" and a second request sent {} scheduler turn(s) before the submission", k), Some(k) => format!(" and a second request sent {} scheduler turn(s) after the submission", k - 100) }, e),
            ),
        }
    }
}

/// C19 live: the real `Core::listen` (TCP + QUIC) with idle and busy HTTP/3 sessions, an idle
/// TLS/HTTP/1.1 connection and a pending TLS handshake; before the submission nothing is disturbed,
/// after it every client sees its connection closed by the endpoint (QUIC close / TCP close) and
/// `completion()` returns - not before the sessions have wound down, and without hanging.
pub fn run_live(ctx: &mut Ctx) {
    use crate::c02h3::{plain_hosts, LiveEndpoint};
    use crate::h3cli::H3Client;
    use std::io::Read;
    use std::time::{Duration, Instant};
    use trusttunnel::settings::*;
    quiet_panics();
    let rounds = if ctx.thorough() { 6 } else { 2 };
    for round in 0..rounds {
        let shutdown = trusttunnel::shutdown::Shutdown::new();
        let sd = shutdown.clone();
        let Some(ep) = LiveEndpoint::start(move |addr| {
            let settings = Settings::builder()
                .listen_address(addr)
                .unwrap()
                .listen_protocols(ListenProtocolSettings {
                    http1: Some(Http1Settings::builder().build()),
                    http2: Some(Http2Settings::builder().build()),
                    quic: Some(QuicSettings::builder().build()),
                })
                .allow_private_network_connections(true)
                .build()
                .unwrap();
            trusttunnel::core::Core::new(settings, None, plain_hosts(), sd.clone()).unwrap()
        }) else {
            ctx.notes.push("c19live: the endpoint's listener did not come up on loopback; nothing was run".to_string());
            return;
        };
        let origin_l = std::net::TcpListener::bind("127.0.0.1:0").unwrap();
        origin_l.set_nonblocking(true).unwrap();
        let target = origin_l.local_addr().unwrap().to_string();
        let n_h3 = 1 + (round % 3) as usize;
        let mut h3: Vec<H3Client> = vec![];
        let mut origins = vec![];
        let mut problems: Vec<String> = vec![];
        for k in 0..n_h3 {
            match H3Client::connect(ep.addr, Some("localhost"), &[b"h3"], 1 << 20, Duration::from_secs(3)) {
                Ok(mut c) => {
                    let id = c.request("CONNECT", None, "_check", None, &[], false);
                    c.wait(Duration::from_secs(2), |c| id.and_then(|i| c.streams.get(&i)).map(|s| s.status.is_some()).unwrap_or(false));
                    if k % 2 == 0 {
                        // a tunnel that stays open
                        if let Some(t) = c.request("CONNECT", None, &target, None, &[], false) {
                            let t0 = Instant::now();
                            while t0.elapsed() < Duration::from_secs(2) {
                                c.pump();
                                if let Ok((s, _)) = origin_l.accept() {
                                    origins.push(s);
                                    break;
                                }
                            }
                            c.wait(Duration::from_secs(2), |c| c.streams.get(&t).map(|s| s.status.is_some()).unwrap_or(false));
                        }
                    }
                    h3.push(c);
                }
                Err(e) => problems.push(format!("QUIC handshake failed: {:?}", e)),
            }
        }
        // an idle TCP connection that has not sent its ClientHello yet
        let mut raw_tcp = std::net::TcpStream::connect(ep.addr).ok();
        // nothing is disturbed before the submission
        let t0 = Instant::now();
        while t0.elapsed() < Duration::from_millis(300) {
            for c in h3.iter_mut() {
                c.pump();
            }
            std::thread::sleep(Duration::from_millis(5));
        }
        for (k, c) in h3.iter().enumerate() {
            if c.conn.is_closed() || c.conn.is_draining() || c.goaway {
                problems.push(format!("HTTP/3 session {} was closed before any shutdown was submitted", k));
            }
        }
        // completion() must not return while the sessions are alive, unless a shutdown was submitted: it is only awaited after submit
        let t_submit = Instant::now();
        shutdown.lock().unwrap().submit();
        let done = std::sync::Arc::new(std::sync::Mutex::new(None::<Instant>));
        let done2 = done.clone();
        let sd2 = shutdown.clone();
        let waiter = std::thread::spawn(move || {
            let rt = tokio::runtime::Builder::new_current_thread().enable_all().build().unwrap();
            let r = rt.block_on(async { tokio::time::timeout(Duration::from_secs(10), async { sd2.lock().unwrap().completion().await }).await });
            if r.is_ok() {
                *done2.lock().unwrap() = Some(Instant::now());
            }
        });
        // every client sees the endpoint close its connection
        let mut closed_at: Vec<Option<Instant>> = vec![None; h3.len()];
        let t0 = Instant::now();
        while t0.elapsed() < Duration::from_secs(5) && closed_at.iter().any(|c| c.is_none()) {
            for (k, c) in h3.iter_mut().enumerate() {
                c.pump();
                if closed_at[k].is_none() && (c.conn.is_closed() || c.conn.is_draining() || c.conn.peer_error().is_some()) {
                    closed_at[k] = Some(Instant::now());
                }
            }
            std::thread::sleep(Duration::from_millis(2));
        }
        for (k, c) in closed_at.iter().enumerate() {
            if c.is_none() {
                problems.push(format!("HTTP/3 session {} (registered before the submission) still had its QUIC connection open 5 s after the shutdown was submitted", k));
            }
        }
        if let Some(s) = raw_tcp.as_mut() {
            let _ = s.set_read_timeout(Some(Duration::from_secs(3)));
            let mut b = [0u8; 16];
            match s.read(&mut b) {
                Ok(0) | Err(_) => {}
                Ok(_) => problems.push("a TCP connection without ClientHello got data after the shutdown".to_string()),
            }
        }
        let _ = waiter.join();
        let done_at = *done.lock().unwrap();
        match done_at {
            None => problems.push("completion() was still pending 10 s after the shutdown was submitted although every client connection had been closed".to_string()),
            Some(d) => {
                ctx.notes.push(format!("round {}: completion() returned {} ms after submit; QUIC connections closed after {:?} ms", round, d.duration_since(t_submit).as_millis(), closed_at.iter().map(|c| c.map(|c| c.duration_since(t_submit).as_millis())).collect::<Vec<_>>()));
            }
        }
        // new connections are not served any more
        if H3Client::connect(ep.addr, Some("localhost"), &[b"h3"], 1 << 20, Duration::from_millis(600)).map(|mut c| {
            let id = c.request("CONNECT", None, "_check", None, &[], false);
            c.wait(Duration::from_millis(600), |c| id.and_then(|i| c.streams.get(&i)).map(|s| s.status.is_some()).unwrap_or(false));
            id.map(|i| c.stream(i).status == Some(200)).unwrap_or(false)
        }).unwrap_or(false) {
            problems.push("a new HTTP/3 session was served after completion() had returned".to_string());
        }
        ctx.stat("live_shutdown_rounds");
        ctx.stat_add("live_h3_participants", n_h3 as u64);
        if !problems.is_empty() {
            ctx.oracle_failure("graceful_shutdown", &format!("live endpoint with {} HTTP/3 sessions ({} with an open tunnel) and a silent TCP connection: {}", n_h3, origins.len(), problems.join("; ")));
        }
        drop(origins);
    }
}
