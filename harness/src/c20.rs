//! C20: canaries planted in every secret-bearing field must never show up in the log (trace level)
use crate::common::*;
use base64::Engine;
use std::sync::{Arc, Mutex};
use trusttunnel::authentication::{Authenticator, Source, Status};
use trusttunnel::core::Core;
use trusttunnel::settings::*;
use trusttunnel::shutdown::Shutdown;
use trusttunnel::verif::{self, vtunnel::*};

struct Capture;
static LINES: Mutex<Vec<String>> = Mutex::new(Vec::new());

impl log::Log for Capture {
    fn enabled(&self, _: &log::Metadata) -> bool {
        true
    }
    fn log(&self, record: &log::Record) {
        // what the endpoint's own loggers (`log_utils`) would not write is not log output
        if !trusttunnel::log_utils::make_stdout_logger().enabled(record.metadata()) {
            return;
        }
        // the TLS *client* in this process is the harness's own
        if record.target().starts_with("rustls::client") {
            return;
        }
        LINES.lock().unwrap().push(format!("[{}] {} {}", record.level(), record.target(), record.args()));
    }
    fn flush(&self) {}
}

struct Scripted {
    tokens: Vec<String>,
    snis: Vec<String>,
}

impl Authenticator for Scripted {
    fn authenticate(&self, source: &Source<'_>, _: &trusttunnel::log_utils::IdChain<u64>) -> Status {
        let ok = match source {
            Source::ProxyBasic(t) => self.tokens.iter().any(|x| x == t.as_ref()),
            Source::Sni(s) => self.snis.iter().any(|x| x == s.as_ref()),
        };
        if ok {
            Status::Pass
        } else {
            Status::Reject
        }
    }
}

fn b64(s: &str) -> String {
    base64::engine::general_purpose::STANDARD.encode(s.as_bytes())
}

fn make_core(authn: Arc<dyn Authenticator>, origin: Option<std::net::SocketAddr>) -> Core {
    let mut b = Settings::builder()
        .listen_address(("127.0.0.1", 1))
        .unwrap()
        .listen_protocols(ListenProtocolSettings {
            http1: Some(Http1Settings::builder().build()),
            http2: Some(Http2Settings::builder().build()),
            quic: None,
        })
        .speedtest_enable(true)
        .clients(vec![trusttunnel::authentication::registry_based::Client { username: "CANARYCONFUSER".into(), password: "CANARYCONFPASS".into() }]);
    if let Some(o) = origin {
        b = b.reverse_proxy(ReverseProxySettings::builder().server_address(o).unwrap().path_mask("/rp".into()).build().unwrap());
    }
    let hosts = TlsHostsSettings::builder()
        .main_hosts(vec![TlsHostInfo { hostname: "localhost".into(), cert_chain_path: FIXTURE_PEM.into(), private_key_path: FIXTURE_PEM.into(), allowed_sni: vec![] }])
        .build()
        .unwrap();
    Core::new(b.build().unwrap(), Some(authn), hosts, Shutdown::new()).unwrap()
}

pub fn run(ctx: &mut Ctx) {
    quiet_panics();
    let _ = log::set_boxed_logger(Box::new(Capture));
    // ---- the filter of the endpoint's loggers vs the model (every maximum, every level, TLS-library and other targets) ----
    {
        use log::{Level, LevelFilter, Log};
        let targets = ["rustls::server::hs", "rustls::conn", "rustls", "rustl", "xrustls", "rustls_pki_types", "trusttunnel::core", "trusttunnel::tls_demultiplexer", "quiche", "h2::codec", ""];
        for (mi, m) in [LevelFilter::Off, LevelFilter::Error, LevelFilter::Warn, LevelFilter::Info, LevelFilter::Debug, LevelFilter::Trace].iter().enumerate() {
            log::set_max_level(*m);
            for (li, l) in [Level::Error, Level::Warn, Level::Info, Level::Debug, Level::Trace].iter().enumerate() {
                for t in targets {
                    let md = log::Metadata::builder().level(*l).target(t).build();
                    let a = trusttunnel::log_utils::make_stdout_logger().enabled(&md);
                    ctx.emit(&format!("c20 loggable {} {} {}", mi, li + 1, if t.is_empty() { "-".to_string() } else { hex(t.as_bytes()) }), if a { "1" } else { "0" });
                    ctx.stat("logger_filter_points");
                }
            }
        }
    }
    // ---- what the two loggers of the endpoint actually write (`log()`, which the logging macros call directly - not
    // `enabled()`): one record per maximum x level x target through the real file logger and the real stdout logger (the
    // process's stdout pointed at a scratch file meanwhile), then the outputs are searched for each record's marker -----
    {
        use log::{Level, LevelFilter, Log};
        use std::io::Write;
        use std::os::unix::io::AsRawFd;
        let dir = std::env::temp_dir().join(format!("tt_c20_{}", std::process::id()));
        let _ = std::fs::create_dir_all(&dir);
        let fpath = dir.join("file.log");
        let opath = dir.join("stdout.log");
        let targets = ["rustls::server::hs", "rustls::server::server_conn", "rustls", "trusttunnel::core", "h2::codec"];
        let maxes = [LevelFilter::Off, LevelFilter::Error, LevelFilter::Info, LevelFilter::Debug, LevelFilter::Trace];
        let max_idx = [0usize, 1, 3, 4, 5];
        let levels = [Level::Error, Level::Warn, Level::Info, Level::Debug, Level::Trace];
        match trusttunnel::log_utils::make_file_logger(fpath.to_str().unwrap()) {
            Ok(file_logger) => {
                let stdout_logger = trusttunnel::log_utils::make_stdout_logger();
                let _ = std::io::stdout().flush();
                let saved = unsafe { libc::dup(1) };
                let of = std::fs::File::create(&opath).ok();
                let redirected = match (&of, saved >= 0) {
                    (Some(f), true) => unsafe { libc::dup2(f.as_raw_fd(), 1) >= 0 },
                    _ => false,
                };
                for (mi, m) in maxes.iter().enumerate() {
                    log::set_max_level(*m);
                    for (li, l) in levels.iter().enumerate() {
                        for (ti, t) in targets.iter().enumerate() {
                            let marker = format!("MARK-{}-{}-{}-END", mi, li, ti);
                            let emit = |args: std::fmt::Arguments| {
                                let rec = log::Record::builder().level(*l).target(t).args(args).build();
                                file_logger.log(&rec);
                                if redirected {
                                    stdout_logger.log(&rec);
                                }
                            };
                            emit(format_args!("{}", marker));
                        }
                    }
                }
                file_logger.flush();
                let _ = std::io::stdout().flush();
                if redirected {
                    unsafe {
                        libc::dup2(saved, 1);
                    }
                }
                if saved >= 0 {
                    unsafe {
                        libc::close(saved);
                    }
                }
                let ftext = std::fs::read_to_string(&fpath).unwrap_or_default();
                let otext = std::fs::read_to_string(&opath).unwrap_or_default();
                for (mi, _) in maxes.iter().enumerate() {
                    for (li, _) in levels.iter().enumerate() {
                        for (ti, t) in targets.iter().enumerate() {
                            let marker = format!("MARK-{}-{}-{}-END", mi, li, ti);
                            for (which, text, on) in [("file", &ftext, true), ("stdout", &otext, redirected)] {
                                if on {
                                    ctx.emit(&format!("c20 written {} {} {} {}", which, max_idx[mi], li + 1, hex(t.as_bytes())), if text.contains(&marker) { "1" } else { "0" });
                                    ctx.stat("logger_written_points");
                                }
                            }
                        }
                    }
                }
            }
            Err(e) => ctx.notes.push(format!("c20: the file logger could not be made ({}): what the loggers write was not observed", e)),
        }
        let _ = std::fs::remove_dir_all(&dir);
    }
    log::set_max_level(log::LevelFilter::Trace);

    // ---- scrubbers vs the model ---------------------------------------------------------------------
    let names = ["authorization", "proxy-authorization", "cookie", "accept", "x-custom", "set-cookie", "Authorization", "COOKIE"];
    let n = if ctx.thorough() { 20_000 } else { 2_000 };
    for _ in 0..n {
        let k = ctx.rng.below(6) as usize;
        let headers: Vec<(String, Vec<u8>)> = (0..k).map(|_| (ctx.rng.pick(&names).to_string(), format!("v{}", ctx.rng.below(1000)).into_bytes())).collect();
        if let Some(view) = verif::scrub_request_view(&headers) {
            let mut q = format!("c20 scrubreq {}", headers.len());
            for (hn, hv) in &headers {
                q.push_str(&format!(" {} {}", hex(hn.to_lowercase().as_bytes()), hex(hv)));
            }
            // the http crate keeps values of one name together: compare as name -> list of values
            let mut by_name: Vec<(String, Vec<String>)> = vec![];
            for (hn, hv) in view {
                match by_name.iter_mut().find(|(x, _)| *x == hn) {
                    Some(e) => e.1.push(hv),
                    None => by_name.push((hn, vec![hv])),
                }
            }
            by_name.sort();
            let ans = by_name.iter().map(|(hn, vs)| format!("{}={}", hn, vs.join(","))).collect::<Vec<_>>().join(";");
            ctx.emit(&q, &if ans.is_empty() { "-".to_string() } else { ans });
            ctx.stat("scrub_request");
        }
    }
    for s in ["one", "one.", ".one", "one.two", "one.two.three", "", "..", "CANARY.host.example", "a.b", "nodots"] {
        ctx.emit(&format!("c20 scrubsni {}", hex(s.as_bytes())), &hex(verif::scrub_sni(s).as_bytes()));
        ctx.stat("scrub_sni");
    }

    // ---- canary scenarios -----------------------------------------------------------------------------------
    let tok_valid = b64("CANARYUSER:CANARYPASS");
    let tok_wrong = b64("CANARYWRONGUSER:CANARYWRONGPASS");
    let canaries: Vec<String> = vec![
        "CANARYUSER".into(), "CANARYPASS".into(), "CANARYWRONGUSER".into(), "CANARYWRONGPASS".into(), tok_valid.clone(), tok_wrong.clone(),
        "CANARYBEARER".into(), "CANARYAUTHZ".into(), "CANARYCOOKIE".into(), "CANARYSNI".into(), "CANARYBADSNI".into(), "CANARYCONFPASS".into(),
        "CANARYRAWVALUE".into(), "CANARYNOCOLON".into(), b64("CANARYNOCOLON"), b64("CANARYUSER:"), b64(":CANARYPASS"),
    ];
    let authn: Arc<dyn Authenticator> = Arc::new(Scripted { tokens: vec![tok_valid.clone()], snis: vec!["CANARYSNI".into()] });
    let core = make_core(authn.clone(), None);
    let mut scenario_count = 0u64;
    let mut check = |ctx: &mut Ctx, scenario: &str| {
        let lines: Vec<String> = std::mem::take(&mut *LINES.lock().unwrap());
        scenario_count += 1;
        if let Ok(f) = std::env::var("C20_DUMP") {
            use std::io::Write;
            if let Ok(mut fh) = std::fs::OpenOptions::new().create(true).append(true).open(f) {
                let _ = writeln!(fh, "=== {}", scenario);
                for l in &lines {
                    let _ = writeln!(fh, "{}", l.chars().take(300).collect::<String>());
                }
            }
        }
        ctx.stat_add("log_lines_searched", lines.len() as u64);
        for l in &lines {
            // (a server name reaches the endpoint lower-cased by the TLS library: the search ignores case)
            let low = l.to_lowercase();
            for c in &canaries {
                if l.contains(c.as_str()) || low.contains(&c.to_lowercase()) {
                    ctx.oracle_failure("secret_in_log", &format!("scenario [{}]: canary {} in log line: {}", scenario, c, l.chars().take(300).collect::<String>()));
                }
            }
        }
    };
    let auth_headers: Vec<(&str, Vec<(String, Vec<u8>)>)> = vec![
        ("valid", vec![("proxy-authorization".into(), format!("Basic {}", tok_valid).into_bytes())]),
        ("wrong", vec![("proxy-authorization".into(), format!("Basic {}", tok_wrong).into_bytes())]),
        ("bearer", vec![("proxy-authorization".into(), b"Bearer CANARYBEARER".to_vec())]),
        ("raw", vec![("proxy-authorization".into(), b"CANARYRAWVALUE".to_vec())]),
        ("nonascii", vec![("proxy-authorization".into(), { let mut v = b"Basic CANARYRAWVALUE".to_vec(); v.push(0xff); v })]),
        ("authz+cookie", vec![
            ("proxy-authorization".into(), format!("Basic {}", tok_valid).into_bytes()),
            ("authorization".into(), b"Basic CANARYAUTHZ".to_vec()),
            ("cookie".into(), b"session=CANARYCOOKIE".to_vec()),
            ("cookie".into(), b"other=CANARYCOOKIE2".to_vec()),
        ]),
        ("cookie_only", vec![("cookie".into(), b"session=CANARYCOOKIE".to_vec()), ("authorization".into(), b"CANARYAUTHZ".to_vec())]),
    ];
    let targets: Vec<(&str, &str)> = vec![
        ("CONNECT", "_check"), ("CONNECT", "_udp2"), ("CONNECT", "_icmp"), ("GET", "_check"), ("CONNECT", "example.org:443"), ("CONNECT", "example.org"),
        ("CONNECT", "refused.example:1"), ("CONNECT", "policy.example:1"), ("GET", "example.org"), ("POST", "refused.example:1"),
        // plain-HTTP requests whose origin is reached: the request is forwarded (Authorization and Cookie travel on, end to end)
        ("GET", "fine.example"), ("POST", "fine.example:8080"),
    ];
    let mut script = FwdScript::default();
    script.connect.insert("refused.example:1".into(), ConnectScript::Refused);
    script.connect.insert("policy.example:1".into(), ConnectScript::PolicyLoopback);
    script.connect.insert("example.org:80".into(), ConnectScript::Unreachable);
    for sni_creds in [None, Some("CANARYSNI".to_string()), Some("CANARYBADSNI".to_string())] {
        let sni = match &sni_creds {
            Some(c) => format!("{}.localhost", c),
            None => "localhost".to_string(),
        };
        for (aname, ahdrs) in &auth_headers {
            for (method, authority) in &targets {
                for proto in ["h1", "h2"] {
                    verif::hooks::reset();
                    verif::hooks::STATE.lock().unwrap().forwarder = Some(script.clone());
                    let rt = tokio::runtime::Builder::new_current_thread().enable_all().start_paused(true).build().unwrap();
                    let target = if *method == "CONNECT" { authority.to_string() } else { format!("http://{}/p", authority) };
                    if proto == "h1" {
                        let mut raw = format!("{} {} HTTP/1.1\r\n", method, target).into_bytes();
                        for (hn, hv) in ahdrs {
                            raw.extend_from_slice(hn.as_bytes());
                            raw.extend_from_slice(b": ");
                            raw.extend_from_slice(hv);
                            raw.extend_from_slice(b"\r\n");
                        }
                        raw.extend_from_slice(b"\r\n");
                        let _ = rt.block_on(h1_session(&core, &sni, sni_creds.clone(), raw, 2_000));
                    } else {
                        let req = VReq { method: method.to_string(), target: target.clone(), headers: ahdrs.clone(), body: vec![] };
                        if http::Request::builder().method(*method).uri(target.as_str()).body(()).is_err() {
                            continue;
                        }
                        let _ = rt.block_on(h2_session(&core, &sni, sni_creds.clone(), vec![req], 1, 2_000));
                    }
                    check(ctx, &format!("tunnel {} {} {} auth={} sni_creds={:?}", proto, method, authority, aname, sni_creds));
                }
            }
        }
        // the connection meta as core.rs logs it, and refused SNIs
        let c = sni_creds.clone().unwrap_or_else(|| "CANARYBADSNI".into());
        // names nobody serves, with the credentials label in front of three, two and one further labels
        for s in [sni.clone(), format!("{}.unknown.example", c), format!("{}.unknown.verif.example.org", c), format!("{}.unknownhost", c), format!("{}.localhos", c)] {
            match verif::tls_select(&core, &[b"h2".to_vec()], &s) {
                Ok(m) => log::debug!("Connection meta: {}", m.debug),
                Err(e) => log::debug!("Dropping connection due to error: {}", e),
            }
            check(ctx, &format!("tls select sni={}", s));
        }
    }
    // ---- service channels with secrets in the request ------------------------------------------------------------
    let secret_hdrs: Vec<(String, Vec<u8>)> = vec![
        ("authorization".into(), b"Basic CANARYAUTHZ".to_vec()),
        ("cookie".into(), b"session=CANARYCOOKIE".to_vec()),
        ("proxy-authorization".into(), format!("Basic {}", tok_valid).into_bytes()),
    ];
    for (method, path, extra) in [
        ("GET", "/anything", vec![("x-ping".to_string(), b"1".to_vec())]),
        ("GET", "/speed/1mb.bin", vec![]),
        ("GET", "/speed/bogus", vec![]),
        ("POST", "/speed/upload.html", vec![("content-length".to_string(), b"3".to_vec())]),
    ] {
        for proto in ["h1", "h2"] {
            let rt = tokio::runtime::Builder::new_current_thread().enable_all().start_paused(true).build().unwrap();
            let mut hs = secret_hdrs.clone();
            hs.extend(extra.clone());
            if proto == "h1" {
                let mut raw = format!("{} {} HTTP/1.1\r\nHost: localhost\r\n", method, path).into_bytes();
                for (hn, hv) in &hs {
                    raw.extend_from_slice(hn.as_bytes());
                    raw.extend_from_slice(b": ");
                    raw.extend_from_slice(hv);
                    raw.extend_from_slice(b"\r\n");
                }
                raw.extend_from_slice(b"\r\nabc");
                let _ = rt.block_on(h1_session(&core, "localhost", None, raw, 2_000));
            } else {
                let req = VReq { method: method.to_string(), target: format!("https://localhost{}", path), headers: hs, body: if method == "POST" { b"abc".to_vec() } else { vec![] } };
                let _ = rt.block_on(h2_session(&core, "localhost", None, vec![req], 1, 2_000));
            }
            check(ctx, &format!("service {} {} {}", proto, method, path));
        }
    }
    // reverse proxy (real loopback origin, real clock)
    {
        let rt = tokio::runtime::Builder::new_multi_thread().worker_threads(2).enable_all().build().unwrap();
        let authn2 = authn.clone();
        let tok_valid_rp = tok_valid.clone();
        rt.block_on(async move {
            let tok_valid = tok_valid_rp;
            use tokio::io::{AsyncReadExt, AsyncWriteExt};
            let l = tokio::net::TcpListener::bind("127.0.0.1:0").await.unwrap();
            let origin = l.local_addr().unwrap();
            tokio::spawn(async move {
                if let Ok((mut s, _)) = l.accept().await {
                    let mut buf = vec![0u8; 4096];
                    let _ = s.read(&mut buf).await;
                    let _ = s.write_all(b"HTTP/1.1 200 OK\r\nSet-Cookie: x=1\r\nContent-Length: 2\r\n\r\nok").await;
                }
            });
            let core = make_core(authn2, Some(origin));
            let raw = format!(
                "GET /rp/x HTTP/1.1\r\nHost: localhost\r\nUpgrade: websocket\r\nAuthorization: Basic CANARYAUTHZ\r\nCookie: session=CANARYCOOKIE\r\nProxy-Authorization: Basic {}\r\n\r\n",
                tok_valid
            )
            .into_bytes();
            let _ = tokio::time::timeout(std::time::Duration::from_secs(5), h1_session(&core, "localhost", None, raw, 300)).await;
        });
        check(ctx, "reverse proxy h1 with Authorization / Cookie / Proxy-Authorization");
        // reverse-proxy requests on a connection that authenticated by SNI, with and without a Host header, with an absolute target
        for sni_creds in [Some("CANARYSNI".to_string()), Some("CANARYBADSNI".to_string()), None] {
            for shape in 0..3 {
                let authn2 = authn.clone();
                let sc = sni_creds.clone();
                let tok = tok_valid.clone();
                rt.block_on(async move {
                    use tokio::io::{AsyncReadExt, AsyncWriteExt};
                    let l = tokio::net::TcpListener::bind("127.0.0.1:0").await.unwrap();
                    let origin = l.local_addr().unwrap();
                    tokio::spawn(async move {
                        if let Ok((mut s, _)) = l.accept().await {
                            let mut buf = vec![0u8; 4096];
                            let _ = s.read(&mut buf).await;
                            let _ = s.write_all(b"HTTP/1.1 200 OK\r\nContent-Length: 2\r\n\r\nok").await;
                        }
                    });
                    let core = make_core(authn2, Some(origin));
                    let sni = match &sc {
                        Some(c) => format!("{}.localhost", c),
                        None => "localhost".to_string(),
                    };
                    let head = match shape {
                        0 => "GET /rp/chat HTTP/1.1\r\nUpgrade: websocket\r\n".to_string(),
                        1 => "GET /rp/chat HTTP/1.1\r\nHost: localhost\r\nUpgrade: websocket\r\n".to_string(),
                        _ => "GET https://localhost/rp/chat?k=v HTTP/1.1\r\nUpgrade: websocket\r\n".to_string(),
                    };
                    let raw = format!("{}Cookie: session=CANARYCOOKIE\r\nProxy-Authorization: Basic {}\r\n\r\n", head, tok).into_bytes();
                    let _ = tokio::time::timeout(std::time::Duration::from_secs(5), h1_session(&core, &sni, sc.clone(), raw, 300)).await;
                });
                check(ctx, &format!("reverse proxy h1 on a connection with SNI credentials {:?}, request shape {} (0 no Host, 1 Host, 2 absolute target)", sni_creds, shape));
            }
        }
    }
    // ---- the real forwarders (nothing scripted): SOCKS5 upstream with and without an authenticator in front (without
    // one the client's Proxy-Authorization travels to the upstream dialogue), plain and extended authentication, an
    // upstream that refuses the credentials / the request / every method / says nothing; the direct forwarder
    // against a closed port. Real sockets, real clock.
    {
        use std::io::{Read, Write};
        use std::time::Duration;
        // behaviour by the first byte of the port's index: 0 auth fails, 1 auth passes then request refused, 2 no acceptable method, 3 mute
        let mut proxies: Vec<(u8, std::net::SocketAddr)> = vec![];
        for mode in 0u8..4 {
            let l = std::net::TcpListener::bind("127.0.0.1:0").unwrap();
            proxies.push((mode, l.local_addr().unwrap()));
            std::thread::spawn(move || {
                for s in l.incoming() {
                    let Ok(mut s) = s else { continue };
                    std::thread::spawn(move || {
                        let _ = s.set_read_timeout(Some(Duration::from_millis(400)));
                        let mut buf = [0u8; 1024];
                        let Ok(n) = s.read(&mut buf) else { return };
                        if n < 3 || mode == 3 {
                            std::thread::sleep(Duration::from_millis(400));
                            return;
                        }
                        if mode == 2 {
                            let _ = s.write_all(&[5, 0xff]);
                            return;
                        }
                        // pick the first authentication method offered (0x02 / 0x80), else none
                        let methods = &buf[2..n.min(2 + buf[1] as usize)];
                        let m = methods.iter().copied().find(|m| *m == 2 || *m == 0x80).unwrap_or(0);
                        let _ = s.write_all(&[5, m]);
                        if m != 0 {
                            let _ = s.read(&mut buf);
                            let _ = s.write_all(&[1, if mode == 0 { 1 } else { 0 }]);
                            if mode == 0 {
                                return;
                            }
                        }
                        let _ = s.read(&mut buf);
                        let _ = s.write_all(&[5, 5, 0, 1, 0, 0, 0, 0, 0, 0]);
                    });
                }
            });
        }
        let closed_port = {
            let l = std::net::TcpListener::bind("127.0.0.1:0").unwrap();
            l.local_addr().unwrap().port()
        };
        let mut real_auth_headers = auth_headers.clone();
        real_auth_headers.push(("nocolon", vec![("proxy-authorization".into(), format!("Basic {}", b64("CANARYNOCOLON")).into_bytes())]));
        real_auth_headers.push(("emptypass", vec![("proxy-authorization".into(), format!("Basic {}", b64("CANARYUSER:")).into_bytes())]));
        real_auth_headers.push(("emptyuser", vec![("proxy-authorization".into(), format!("Basic {}", b64(":CANARYPASS")).into_bytes())]));
        let rt = tokio::runtime::Builder::new_multi_thread().worker_threads(2).enable_all().build().unwrap();
        for with_authn in [false, true] {
            for fwd in 0..9usize {
                // 0..8: SOCKS5 (mode, extended), 8: direct
                let b = Settings::builder()
                    .listen_address(("127.0.0.1", 1))
                    .unwrap()
                    .listen_protocols(ListenProtocolSettings { http1: Some(Http1Settings::builder().build()), http2: Some(Http2Settings::builder().build()), quic: None })
                    .allow_private_network_connections(true)
                    .clients(vec![trusttunnel::authentication::registry_based::Client { username: "CANARYCONFUSER".into(), password: "CANARYCONFPASS".into() }]);
                let (b, fname) = if fwd < 8 {
                    let (mode, addr) = proxies[fwd / 2];
                    let ext = fwd % 2 == 1;
                    (
                        b.forwarder_settings(ForwardProtocolSettings::Socks5(
                            Socks5ForwarderSettings::builder().server_address(addr).unwrap().extended_auth(ext).build().unwrap(),
                        )),
                        format!("socks5 upstream ({}, extended_auth={})", ["refuses the credentials", "accepts them and refuses the request", "accepts no method", "stays silent"][mode as usize], ext),
                    )
                } else {
                    (b, "direct forwarder, closed port".to_string())
                };
                let hosts = TlsHostsSettings::builder()
                    .main_hosts(vec![TlsHostInfo { hostname: "localhost".into(), cert_chain_path: FIXTURE_PEM.into(), private_key_path: FIXTURE_PEM.into(), allowed_sni: vec![] }])
                    .build()
                    .unwrap();
                let core = Core::new(b.build().unwrap(), if with_authn { Some(authn.clone()) } else { None }, hosts, Shutdown::new()).unwrap();
                let mute = fwd < 8 && proxies[fwd / 2].0 == 3;
                for (k, (aname, ahdrs)) in real_auth_headers.iter().enumerate() {
                    if mute && !ctx.thorough() && k % 3 != 0 {
                        continue;
                    }
                    for authority in [format!("127.0.0.1:{}", closed_port), "_udp2".to_string(), "example.org:443".to_string()] {
                        if fwd == 8 && authority == "example.org:443" {
                            continue; // would go to the real resolver
                        }
                        verif::hooks::reset();
                        let mut raw = format!("CONNECT {} HTTP/1.1\r\n", authority).into_bytes();
                        for (hn, hv) in ahdrs {
                            raw.extend_from_slice(hn.as_bytes());
                            raw.extend_from_slice(b": ");
                            raw.extend_from_slice(hv);
                            raw.extend_from_slice(b"\r\n");
                        }
                        raw.extend_from_slice(b"\r\n");
                        if authority == "_udp2" {
                            // one datagram, so that the multiplexer opens its upstream association
                            let mut rec = vec![0u8, 0, 0, 0];
                            let mut body = vec![];
                            crate::c06::put_ip16(&mut body, &"127.0.0.1".parse().unwrap());
                            body.extend_from_slice(&4000u16.to_be_bytes());
                            crate::c06::put_ip16(&mut body, &"127.0.0.1".parse().unwrap());
                            body.extend_from_slice(&closed_port.to_be_bytes());
                            body.push(0);
                            body.extend_from_slice(b"hi");
                            let n = body.len() as u32;
                            rec.copy_from_slice(&n.to_be_bytes());
                            rec.extend_from_slice(&body);
                            raw.extend_from_slice(&rec);
                        }
                        let core2 = &core;
                        let _ = rt.block_on(async move { tokio::time::timeout(Duration::from_secs(3), h1_session(core2, "localhost", None, raw, 250)).await });
                        check(ctx, &format!("real forwarder: {}, authenticator {}, CONNECT {} auth={}", fname, if with_authn { "configured" } else { "absent" }, authority, aname));
                        ctx.stat("real_forwarder_scenarios");
                    }
                }
            }
        }
    }
    // ---- the same over HTTP/3: real QUIC listener (its own log lines included), wall clock ---------------------------
    {
        use crate::c02h3::LiveEndpoint;
        use crate::h3cli::H3Client;
        use std::io::{Read, Write};
        use std::time::Duration;
        let origin_l = std::net::TcpListener::bind("127.0.0.1:0").unwrap();
        let origin = origin_l.local_addr().unwrap();
        std::thread::spawn(move || {
            for s in origin_l.incoming() {
                let Ok(mut s) = s else { continue };
                let _ = s.set_read_timeout(Some(Duration::from_secs(1)));
                let mut buf = [0u8; 4096];
                let _ = s.read(&mut buf);
                let _ = s.write_all(b"HTTP/1.1 200 OK\r\nSet-Cookie: x=1\r\nContent-Length: 2\r\n\r\nok");
            }
        });
        let authn3 = authn.clone();
        if let Some(ep) = LiveEndpoint::start(move |addr| {
            let b = Settings::builder()
                .listen_address(addr)
                .unwrap()
                .listen_protocols(ListenProtocolSettings {
                    http1: Some(Http1Settings::builder().build()),
                    http2: Some(Http2Settings::builder().build()),
                    quic: Some(QuicSettings::builder().build()),
                })
                .speedtest_enable(true)
                .allow_private_network_connections(true)
                .tls_handshake_timeout(Duration::from_millis(700))
                .clients(vec![trusttunnel::authentication::registry_based::Client { username: "CANARYCONFUSER".into(), password: "CANARYCONFPASS".into() }])
                .reverse_proxy(ReverseProxySettings::builder().server_address(origin).unwrap().path_mask("/rp".into()).build().unwrap());
            let hosts = TlsHostsSettings::builder()
                .main_hosts(vec![TlsHostInfo { hostname: "localhost".into(), cert_chain_path: FIXTURE_PEM.into(), private_key_path: FIXTURE_PEM.into(), allowed_sni: vec![] }])
                .build()
                .unwrap();
            Core::new(b.build().unwrap(), Some(authn3.clone()), hosts, Shutdown::new()).unwrap()
        }) {
            for sni_creds in [None, Some("CANARYSNI".to_string()), Some("CANARYBADSNI".to_string())] {
                let sni = match &sni_creds {
                    Some(c) => format!("{}.localhost", c),
                    None => "localhost".to_string(),
                };
                for (aname, ahdrs) in &auth_headers {
                    verif::hooks::reset();
                    verif::hooks::STATE.lock().unwrap().forwarder = Some(script.clone());
                    // one connection, all targets as concurrent streams
                    if let Ok(mut cl) = H3Client::connect(ep.addr, Some(&sni), &[b"h3"], 1 << 20, Duration::from_secs(2)) {
                        let mut ids = vec![];
                        for (method, authority) in &targets {
                            let id = if *method == "CONNECT" {
                                cl.request("CONNECT", None, authority, None, ahdrs, false)
                            } else {
                                cl.request(method, Some("http"), authority, Some("/p"), ahdrs, true)
                            };
                            ids.extend(id);
                        }
                        // service channels by marker / path on the same connection, secrets in the request
                        let mut hs = ahdrs.clone();
                        hs.push(("x-ping".into(), b"1".to_vec()));
                        ids.extend(cl.request("GET", Some("https"), "localhost", Some("/anything"), &hs, true));
                        ids.extend(cl.request("GET", Some("https"), "localhost", Some("/speed/bogus"), ahdrs, true));
                        ids.extend(cl.request("GET", Some("https"), "localhost", Some("/rp/x"), ahdrs, true));
                        // a request the endpoint rejects while it builds it: secret-bearing headers under names that are not
                        // valid lower-case field names (the rejection is logged)
                        let odd: Vec<(String, Vec<u8>)> = ahdrs
                            .iter()
                            .enumerate()
                            .map(|(k, (n, v))| {
                                // (quiche lower-cases names, so capitals would not do)
                                let name = match k % 3 {
                                    0 => format!("{} ", n),
                                    1 => format!(" {}", n),
                                    _ => format!("{}\u{7f}", n),
                                };
                                (name, v.clone())
                            })
                            .collect();
                        if !odd.is_empty() {
                            ids.extend(cl.request("CONNECT", None, "example.org:443", None, &odd, false));
                        }
                        cl.wait(Duration::from_secs(2), |c| ids.iter().all(|i| c.streams.get(i).map(|s| s.status.is_some() || s.reset.is_some() || s.finished).unwrap_or(false)));
                        cl.close();
                        cl.wait(Duration::from_millis(30), |_| false);
                    }
                    std::thread::sleep(Duration::from_millis(20));
                    check(ctx, &format!("tunnel h3 (all targets, ping / speedtest / reverse-proxy requests) auth={} sni_creds={:?}", aname, sni_creds));
                    ctx.stat("h3_canary_connections");
                }
            }
            // ---- TLS handshakes over TCP that fail after the hello was seen: the error paths of the accept code know the
            // server name (credentials label included) - stalled until the handshake timeout, aborted, followed by garbage,
            // cut in the middle of the hello
            for label in ["CANARYSNI", "CANARYBADSNI"] {
                for fault in ["stalls until the handshake timeout", "closes", "sends garbage", "sends half a hello and stalls", "sends half a hello and closes"] {
                    let sni = format!("{}.localhost", label);
                    let hello = crate::c12::rustls_hello(&sni, &[b"h2", b"http/1.1"]);
                    if let Ok(mut c) = std::net::TcpStream::connect_timeout(&ep.addr, Duration::from_secs(2)) {
                        let _ = c.set_read_timeout(Some(Duration::from_millis(1500)));
                        let half = fault.starts_with("sends half");
                        let _ = c.write_all(if half { &hello[..hello.len() * 2 / 3] } else { &hello[..] });
                        let mut buf = [0u8; 8192];
                        match fault {
                            "closes" | "sends half a hello and closes" => {
                                std::thread::sleep(Duration::from_millis(50));
                                drop(c);
                                std::thread::sleep(Duration::from_millis(100));
                            }
                            "sends garbage" => {
                                // the server's flight first, then something that is no TLS record
                                let _ = c.read(&mut buf);
                                let _ = c.write_all(b"\x16\x03\x03\x00\x05hello this is not a handshake message");
                                let _ = c.read(&mut buf);
                                std::thread::sleep(Duration::from_millis(100));
                            }
                            _ => {
                                // until the endpoint gives up (700 ms) and closes
                                let t0 = std::time::Instant::now();
                                while t0.elapsed() < Duration::from_millis(1500) {
                                    match c.read(&mut buf) {
                                        Ok(0) => break,
                                        Ok(_) => {}
                                        Err(e) if e.kind() == std::io::ErrorKind::WouldBlock || e.kind() == std::io::ErrorKind::TimedOut => break,
                                        Err(_) => break,
                                    }
                                }
                                std::thread::sleep(Duration::from_millis(100));
                            }
                        }
                    }
                    check(ctx, &format!("TLS handshake over TCP with SNI {}.localhost in which the client {}", label, fault));
                    ctx.stat("failed_tls_handshakes_with_sni_credentials");
                }
            }
            drop(ep);
            std::thread::sleep(Duration::from_millis(50));
            check(ctx, "h3 endpoint shut down");
        } else {
            ctx.notes.push("c20: the live HTTP/3 listener did not come up; HTTP/3 scenarios were not run".to_string());
        }
    }
    ctx.stat_add("scenarios", scenario_count);
}
