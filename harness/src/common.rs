use std::collections::BTreeMap;
use std::fmt::Write as _;
use std::io::Write;
use std::net::{IpAddr, Ipv4Addr, Ipv6Addr};

/// splitmix64: the single PRNG every random choice derives from
pub struct Rng(pub u64);

impl Rng {
    pub fn next(&mut self) -> u64 {
        self.0 = self.0.wrapping_add(0x9e3779b97f4a7c15);
        let mut z = self.0;
        z = (z ^ (z >> 30)).wrapping_mul(0xbf58476d1ce4e5b9);
        z = (z ^ (z >> 27)).wrapping_mul(0x94d049bb133111eb);
        z ^ (z >> 31)
    }
    pub fn below(&mut self, n: u64) -> u64 {
        if n == 0 {
            0
        } else {
            self.next() % n
        }
    }
    pub fn range(&mut self, lo: u64, hi_incl: u64) -> u64 {
        lo + self.below(hi_incl - lo + 1)
    }
    pub fn chance(&mut self, num: u64, den: u64) -> bool {
        self.below(den) < num
    }
    pub fn pick<'a, T>(&mut self, xs: &'a [T]) -> &'a T {
        &xs[self.below(xs.len() as u64) as usize]
    }
    pub fn bytes(&mut self, n: usize) -> Vec<u8> {
        (0..n).map(|_| self.next() as u8).collect()
    }
}

/// ---- progress watchdog: a suite that stops making progress (a busy loop or a wedged session in the
/// implementation) ends the process with a `stall.json` naming what was in flight, instead of hanging the check
static LAST_PROGRESS_MS: std::sync::atomic::AtomicU64 = std::sync::atomic::AtomicU64::new(0);
static STALL_LIMIT_S: std::sync::atomic::AtomicU64 = std::sync::atomic::AtomicU64::new(600);
static CURRENT: std::sync::Mutex<String> = std::sync::Mutex::new(String::new());
static LAST_DONE: std::sync::Mutex<String> = std::sync::Mutex::new(String::new());
static START: std::sync::OnceLock<std::time::Instant> = std::sync::OnceLock::new();

fn now_ms() -> u64 {
    START.get_or_init(std::time::Instant::now).elapsed().as_millis() as u64
}

pub fn progress() {
    LAST_PROGRESS_MS.store(now_ms(), std::sync::atomic::Ordering::Relaxed);
}

/// what is about to run (named in the stall report)
pub fn begin_case(desc: &str) {
    if let Ok(mut c) = CURRENT.lock() {
        c.clear();
        c.push_str(desc);
    }
    progress();
}

pub fn set_stall_limit(secs: u64) {
    progress();
    STALL_LIMIT_S.store(secs, std::sync::atomic::Ordering::Relaxed);
}

fn start_watchdog(suite: String, out: String) {
    progress();
    std::thread::spawn(move || loop {
        std::thread::sleep(std::time::Duration::from_secs(1));
        let idle = now_ms().saturating_sub(LAST_PROGRESS_MS.load(std::sync::atomic::Ordering::Relaxed)) / 1000;
        let limit = std::env::var("TT_STALL_SECS").ok().and_then(|x| x.parse().ok())
            .unwrap_or_else(|| STALL_LIMIT_S.load(std::sync::atomic::Ordering::Relaxed));
        if idle >= limit {
            let cur = CURRENT.lock().map(|c| c.clone()).unwrap_or_default();
            let last = LAST_DONE.lock().map(|c| c.clone()).unwrap_or_default();
            let _ = std::fs::write(
                format!("{}/stall.json", out),
                format!(
                    "{{\"suite\":{},\"idle_secs\":{},\"current\":{},\"last_completed\":{}}}",
                    jstr(&suite), idle, jstr(&cur), jstr(&last)
                ),
            );
            eprintln!("suite {} made no progress for {} s; in flight: {}", suite, idle, cur);
            std::process::exit(97);
        }
    });
}

pub struct Ctx {
    pub suite: String,
    pub out: String,
    pub tier: String,
    pub seed: u64,
    pub rng: Rng,
    cases: std::io::BufWriter<std::fs::File>,
    imp: std::io::BufWriter<std::fs::File>,
    pub n_cases: u64,
    pub stats: BTreeMap<String, u64>,
    /// failures of the property observed directly on the implementation
    /// (panic, spin, canary accept, ...): (kind, replayable description)
    pub oracle_failures: Vec<(String, String)>,
    pub samples: Vec<String>,
    pub notes: Vec<String>,
}

impl Ctx {
    pub fn new(suite: &str, out: &str, tier: &str, seed: u64) -> Self {
        std::fs::create_dir_all(out).unwrap();
        let cases = std::io::BufWriter::new(std::fs::File::create(format!("{}/cases.txt", out)).unwrap());
        let imp = std::io::BufWriter::new(std::fs::File::create(format!("{}/impl.txt", out)).unwrap());
        start_watchdog(suite.to_string(), out.to_string());
        Self {
            suite: suite.to_string(),
            out: out.to_string(),
            tier: tier.to_string(),
            seed,
            rng: Rng(seed ^ 0x5454_5f56_4552_4946),
            cases,
            imp,
            n_cases: 0,
            stats: BTreeMap::new(),
            oracle_failures: vec![],
            samples: vec![],
            notes: vec![],
        }
    }

    pub fn thorough(&self) -> bool {
        self.tier == "thorough"
    }

    /// one query for the Lean driver + the implementation's answer
    pub fn emit(&mut self, query: &str, answer: &str) {
        debug_assert!(!query.contains('\n') && !answer.contains('\n'));
        progress();
        if let Ok(mut l) = LAST_DONE.lock() {
            l.clear();
            l.extend(query.chars().take(600));
        }
        if let Ok(mut c) = CURRENT.lock() {
            c.clear();
        }
        writeln!(self.cases, "{}", query).unwrap();
        writeln!(self.imp, "{}", answer).unwrap();
        self.n_cases += 1;
        if self.samples.len() < 8 && (self.n_cases % 97 == 1) {
            self.samples.push(format!("{} => {}", query, answer));
        }
    }

    pub fn stat(&mut self, key: &str) {
        progress();
        *self.stats.entry(key.to_string()).or_insert(0) += 1;
    }

    pub fn stat_add(&mut self, key: &str, n: u64) {
        progress();
        *self.stats.entry(key.to_string()).or_insert(0) += n;
    }

    pub fn oracle_failure(&mut self, kind: &str, desc: &str) {
        if self.oracle_failures.len() < 200 {
            self.oracle_failures.push((kind.to_string(), desc.to_string()));
        }
        self.stat("oracle_failures");
    }

    pub fn finish(mut self) {
        self.finish_ref()
    }

    /// writes the outputs; for suites that have to end the process early (a thread is stuck in the implementation)
    pub fn finish_ref(&mut self) {
        self.cases.flush().unwrap();
        self.imp.flush().unwrap();
        let mut s = String::new();
        write!(s, "{{\"suite\":{},\"tier\":{},\"seed\":{},\"cases\":{},\"stats\":{{",
            jstr(&self.suite), jstr(&self.tier), self.seed, self.n_cases).unwrap();
        let mut first = true;
        for (k, v) in &self.stats {
            if !first {
                s.push(',');
            }
            first = false;
            write!(s, "{}:{}", jstr(k), v).unwrap();
        }
        s.push_str("},\"oracle_failures\":[");
        for (i, (k, d)) in self.oracle_failures.iter().enumerate() {
            if i > 0 {
                s.push(',');
            }
            write!(s, "{{\"kind\":{},\"desc\":{}}}", jstr(k), jstr(d)).unwrap();
        }
        s.push_str("],\"samples\":[");
        for (i, x) in self.samples.iter().enumerate() {
            if i > 0 {
                s.push(',');
            }
            s.push_str(&jstr(x));
        }
        s.push_str("],\"notes\":[");
        for (i, x) in self.notes.iter().enumerate() {
            if i > 0 {
                s.push(',');
            }
            s.push_str(&jstr(x));
        }
        s.push_str("]}");
        std::fs::write(format!("{}/meta.json", self.out), s).unwrap();
    }
}

pub fn jstr(s: &str) -> String {
    let mut o = String::from("\"");
    for c in s.chars() {
        match c {
            '"' => o.push_str("\\\""),
            '\\' => o.push_str("\\\\"),
            '\n' => o.push_str("\\n"),
            '\r' => o.push_str("\\r"),
            '\t' => o.push_str("\\t"),
            c if (c as u32) < 0x20 => {
                write!(o, "\\u{:04x}", c as u32).unwrap();
            }
            c => o.push(c),
        }
    }
    o.push('"');
    o
}

pub fn hex(b: &[u8]) -> String {
    if b.is_empty() {
        return "-".to_string();
    }
    let mut s = String::with_capacity(b.len() * 2);
    for x in b {
        write!(s, "{:02x}", x).unwrap();
    }
    s
}

/// IP address in the driver's numeric syntax: `4 a b c d` / `6 s0 .. s7`
pub fn ip_tokens(ip: &IpAddr) -> String {
    match ip {
        IpAddr::V4(x) => {
            let o = x.octets();
            format!("4 {} {} {} {}", o[0], o[1], o[2], o[3])
        }
        IpAddr::V6(x) => {
            let s = x.segments();
            format!("6 {} {} {} {} {} {} {} {}", s[0], s[1], s[2], s[3], s[4], s[5], s[6], s[7])
        }
    }
}

pub fn v4(n: u32) -> IpAddr {
    IpAddr::V4(Ipv4Addr::from(n))
}

pub fn v6(s: [u16; 8]) -> IpAddr {
    IpAddr::V6(Ipv6Addr::new(s[0], s[1], s[2], s[3], s[4], s[5], s[6], s[7]))
}

/// run a closure catching panics; Err carries the panic message
pub fn catch<F: FnOnce() -> R + std::panic::UnwindSafe, R>(f: F) -> Result<R, String> {
    std::panic::catch_unwind(f).map_err(|e| {
        if let Some(s) = e.downcast_ref::<&str>() {
            s.to_string()
        } else if let Some(s) = e.downcast_ref::<String>() {
            s.clone()
        } else {
            "panic".to_string()
        }
    })
}

pub fn quiet_panics() {
    if std::env::var("VERIF_LOUD").is_ok() {
        return;
    }
    std::panic::set_hook(Box::new(|_| {}));
}

pub const FIXTURE_PEM: &str = concat!(env!("CARGO_MANIFEST_DIR"), "/fixtures/localhost.pem");
