//! A small synchronous HTTP/3 client (quiche) over a non-blocking loopback UDP socket, for the
//! live HTTP/3 suites: several concurrent request streams, explicit pumping, nothing hidden.
use quiche::h3::{self, NameValue};
use std::collections::HashMap;
use std::net::{SocketAddr, UdpSocket};
use std::time::{Duration, Instant};

const MAX_DGRAM: usize = 1350;

#[derive(Debug, Default, Clone)]
pub struct H3Stream {
    pub status: Option<u16>,
    pub headers: Vec<(String, String)>,
    pub body: Vec<u8>,
    /// the server ended its side of the stream
    pub finished: bool,
    /// the server reset the stream (error code)
    pub reset: Option<u64>,
    /// number of header blocks received
    pub heads: usize,
}

pub struct H3Client {
    socket: UdpSocket,
    local: SocketAddr,
    pub conn: quiche::Connection,
    h3: Option<h3::Connection>,
    pub streams: HashMap<u64, H3Stream>,
    pub goaway: bool,
    /// bodies are only taken from the transport when this is set (a client that does not read)
    pub reading: bool,
    /// per pump: at most this many body bytes are taken from every stream (0: everything)
    pub read_step: usize,
}

#[derive(Debug)]
pub enum ConnectError {
    /// the handshake failed or was refused: the connection closed before it was established
    Closed(String),
    TimedOut,
}

impl H3Client {
    /// QUIC handshake with `sni` and the given ALPN list (wire order), then the HTTP/3 control streams
    pub fn connect(peer: SocketAddr, sni: Option<&str>, alpn: &[&[u8]], window: u64, patience: Duration) -> Result<H3Client, ConnectError> {
        Self::connect_idle(peer, sni, alpn, window, patience, 30_000)
    }

    /// `idle_ms`: the client's max_idle_timeout transport parameter (the connection's idle timeout is the smaller of the two sides')
    pub fn connect_idle(peer: SocketAddr, sni: Option<&str>, alpn: &[&[u8]], window: u64, patience: Duration, idle_ms: u64) -> Result<H3Client, ConnectError> {
        let socket = UdpSocket::bind("127.0.0.1:0").map_err(|e| ConnectError::Closed(e.to_string()))?;
        socket.set_nonblocking(true).unwrap();
        let local = socket.local_addr().unwrap();
        let mut scid = [0u8; quiche::MAX_CONN_ID_LEN];
        let seed = Instant::now().elapsed().as_nanos() as u64 ^ (local.port() as u64) << 32 ^ std::process::id() as u64;
        let mut x = seed | 1;
        for b in scid.iter_mut() {
            x ^= x << 13;
            x ^= x >> 7;
            x ^= x << 17;
            *b = x as u8;
        }
        let mut config = quiche::Config::new(quiche::PROTOCOL_VERSION).unwrap();
        config.verify_peer(false);
        config.set_max_idle_timeout(idle_ms);
        config.set_max_recv_udp_payload_size(MAX_DGRAM);
        config.set_max_send_udp_payload_size(MAX_DGRAM);
        config.set_initial_max_data(window.saturating_mul(8));
        config.set_initial_max_stream_data_bidi_local(window);
        config.set_initial_max_stream_data_bidi_remote(window);
        config.set_initial_max_stream_data_uni(1_000_000);
        config.set_initial_max_streams_bidi(100);
        config.set_initial_max_streams_uni(100);
        config.set_application_protos(alpn).map_err(|e| ConnectError::Closed(e.to_string()))?;
        let conn = quiche::connect(sni, &quiche::ConnectionId::from_ref(&scid), local, peer, &mut config).map_err(|e| ConnectError::Closed(e.to_string()))?;
        let mut c = H3Client { socket, local, conn, h3: None, streams: HashMap::new(), goaway: false, reading: true, read_step: 0 };
        let t0 = Instant::now();
        loop {
            c.pump();
            if c.conn.is_established() {
                break;
            }
            if c.conn.is_closed() {
                return Err(ConnectError::Closed(format!("peer_error={:?} local_error={:?}", c.conn.peer_error(), c.conn.local_error())));
            }
            if t0.elapsed() > patience {
                return Err(ConnectError::TimedOut);
            }
            std::thread::sleep(Duration::from_millis(2));
        }
        if c.conn.application_proto() == b"h3" {
            let h3c = h3::Connection::with_transport(&mut c.conn, &h3::Config::new().unwrap()).map_err(|e| ConnectError::Closed(e.to_string()))?;
            c.h3 = Some(h3c);
        }
        c.pump();
        Ok(c)
    }

    pub fn alpn(&self) -> Vec<u8> {
        self.conn.application_proto().to_vec()
    }

    /// the peer's leaf certificate (DER)
    pub fn peer_cert(&self) -> Option<Vec<u8>> {
        self.conn.peer_cert().map(|c| c.to_vec())
    }

    /// move datagrams both ways and collect HTTP/3 events
    pub fn pump(&mut self) {
        let mut buf = [0u8; 65535];
        loop {
            match self.socket.recv_from(&mut buf) {
                Ok((n, from)) => {
                    let _ = self.conn.recv(&mut buf[..n], quiche::RecvInfo { from, to: self.local });
                }
                Err(_) => break,
            }
        }
        if let Some(t) = self.conn.timeout() {
            if t.is_zero() {
                self.conn.on_timeout();
            }
        }
        self.events();
        let mut out = [0u8; MAX_DGRAM];
        loop {
            match self.conn.send(&mut out) {
                Ok((n, info)) => {
                    if self.socket.send_to(&out[..n], info.to).is_err() {
                        break;
                    }
                }
                Err(_) => break,
            }
        }
    }

    fn events(&mut self) {
        let Some(h3c) = self.h3.as_mut() else { return };
        loop {
            match h3c.poll(&mut self.conn) {
                Ok((id, h3::Event::Headers { list, .. })) => {
                    let st = self.streams.entry(id).or_default();
                    st.heads += 1;
                    for h in list {
                        let n = String::from_utf8_lossy(h.name()).to_string();
                        let v = String::from_utf8_lossy(h.value()).to_string();
                        if n == ":status" {
                            st.status = v.parse().ok();
                        } else {
                            st.headers.push((n, v));
                        }
                    }
                }
                Ok((_, h3::Event::Data)) => {
                    // taken below
                }
                Ok((id, h3::Event::Finished)) => {
                    // everything the server sent on this stream is in: drain what is left
                    let st = self.streams.entry(id).or_default();
                    let mut b = [0u8; 65536];
                    while let Ok(n) = h3c.recv_body(&mut self.conn, id, &mut b) {
                        st.body.extend_from_slice(&b[..n]);
                    }
                    st.finished = true;
                }
                Ok((id, h3::Event::Reset(code))) => {
                    self.streams.entry(id).or_default().reset = Some(code);
                }
                Ok((_, h3::Event::GoAway)) => self.goaway = true,
                Ok(_) => {}
                Err(_) => break,
            }
        }
        if self.reading {
            let ids: Vec<u64> = self.streams.keys().cloned().collect();
            let mut b = [0u8; 65536];
            for id in ids {
                let mut taken = 0usize;
                loop {
                    let want = if self.read_step == 0 { b.len() } else { (self.read_step - taken).min(b.len()) };
                    if want == 0 {
                        break;
                    }
                    match h3c.recv_body(&mut self.conn, id, &mut b[..want]) {
                        Ok(n) => {
                            self.streams.get_mut(&id).unwrap().body.extend_from_slice(&b[..n]);
                            taken += n;
                        }
                        Err(_) => break,
                    }
                }
            }
        }
    }

    /// open a request stream; `None` when the transport refuses (closed, stream limit)
    pub fn request(&mut self, method: &str, scheme: Option<&str>, authority: &str, path: Option<&str>, headers: &[(String, Vec<u8>)], fin: bool) -> Option<u64> {
        let mut hs = vec![h3::Header::new(b":method", method.as_bytes())];
        if let Some(s) = scheme {
            hs.push(h3::Header::new(b":scheme", s.as_bytes()));
        }
        hs.push(h3::Header::new(b":authority", authority.as_bytes()));
        if let Some(p) = path {
            hs.push(h3::Header::new(b":path", p.as_bytes()));
        }
        for (n, v) in headers {
            hs.push(h3::Header::new(n.as_bytes(), v));
        }
        let h3c = self.h3.as_mut()?;
        let id = h3c.send_request(&mut self.conn, &hs, fin).ok()?;
        self.streams.entry(id).or_default();
        self.pump();
        Some(id)
    }

    /// as many of `data` as flow control admits right now; `fin` is sent only with the last byte
    pub fn send_body(&mut self, id: u64, data: &[u8], fin: bool) -> Result<usize, String> {
        let h3c = self.h3.as_mut().ok_or("no h3")?;
        let r = match h3c.send_body(&mut self.conn, id, data, fin) {
            Ok(n) => Ok(n),
            Err(h3::Error::Done) | Err(h3::Error::StreamBlocked) => Ok(0),
            Err(e) => Err(format!("{:?}", e)),
        };
        self.pump();
        r
    }

    /// end our side of the stream; false while flow control does not admit it
    pub fn finish(&mut self, id: u64) -> Result<bool, String> {
        let h3c = self.h3.as_mut().ok_or("no h3")?;
        let r = match h3c.send_body(&mut self.conn, id, &[], true) {
            Ok(_) => Ok(true),
            Err(h3::Error::Done) | Err(h3::Error::StreamBlocked) => Ok(false),
            Err(e) => Err(format!("{:?}", e)),
        };
        self.pump();
        r
    }

    /// abort our sending side of a stream
    pub fn reset_stream(&mut self, id: u64, code: u64) {
        let _ = self.conn.stream_shutdown(id, quiche::Shutdown::Write, code);
        let _ = self.conn.stream_shutdown(id, quiche::Shutdown::Read, code);
        self.pump();
    }

    /// pump until `done(self)` or the patience is over; true when `done`
    pub fn wait(&mut self, patience: Duration, mut done: impl FnMut(&H3Client) -> bool) -> bool {
        let t0 = Instant::now();
        loop {
            self.pump();
            if done(self) {
                return true;
            }
            if self.conn.is_closed() || t0.elapsed() > patience {
                return done(self);
            }
            std::thread::sleep(Duration::from_millis(1));
        }
    }

    pub fn close(&mut self) {
        let _ = self.conn.close(true, 0x100, b"done");
        self.pump();
    }

    pub fn stream(&self, id: u64) -> H3Stream {
        self.streams.get(&id).cloned().unwrap_or_default()
    }
}

impl H3Client {
    /// the client random of this connection's TLS handshake
    pub fn client_random(&mut self) -> Vec<u8> {
        let ssl: &mut boring::ssl::SslRef = self.conn.as_mut();
        let mut r = [0u8; 32];
        ssl.client_random(&mut r);
        r.to_vec()
    }
}
