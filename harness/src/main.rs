#![allow(dead_code)]
//! Correspondence / oracle harness for the TrustTunnel Lean models.
//!
//! `tt_harness <suite> --out <dir> [--tier quick|thorough] [--seed N]`
//!
//! Every suite runs the *real* implementation (through the `verif` door of the `trusttunnel`
//! crate) on generated inputs and writes, line-aligned:
//!   <out>/cases.txt  one query per line for the Lean driver (`tt_driver`)
//!   <out>/impl.txt   the implementation's canonicalised answer for that query
//!   <out>/meta.json  input distribution, direct oracle failures (panics, spins, canary hits)
//! The orchestrator (`bin/check`) pipes cases.txt through the Lean driver and diffs.

mod common;
mod c02;
mod binproc;
mod c02live;
mod c02h3;
mod h3cli;
mod muxh3;
mod c03;
mod c04;
mod c05;
mod c05live;
mod c06;
mod c07;
mod c07socks;
mod c08;
mod c09;
mod c09live;
mod c10;
mod c11;
mod c12;
mod c12live;
mod c13;
mod c14live;
mod c14qt;
mod gen_settings_keys;
mod gen_wizard;
mod c15;
mod c16;
mod c16h3;
mod c17;
mod c18;
mod c19;
mod c20;

use common::Ctx;

struct StderrLog;
impl log::Log for StderrLog {
    fn enabled(&self, m: &log::Metadata) -> bool {
        m.target().starts_with("trusttunnel")
    }
    fn log(&self, r: &log::Record) {
        if self.enabled(r.metadata()) {
            eprintln!("[{}] {}", r.level(), r.args());
        }
    }
    fn flush(&self) {}
}

fn main() {
    if std::env::var("TT_LOG").is_ok() {
        let _ = log::set_boxed_logger(Box::new(StderrLog));
        log::set_max_level(log::LevelFilter::Trace);
    }
    let args: Vec<String> = std::env::args().collect();
    if args.len() < 2 {
        eprintln!("usage: tt_harness <suite> --out <dir> [--tier quick|thorough] [--seed N]");
        std::process::exit(2);
    }
    let suite = args[1].clone();
    let mut out = String::from("out");
    let mut tier = String::from("quick");
    let mut seed: u64 = 1;
    let mut i = 2;
    while i < args.len() {
        match args[i].as_str() {
            "--out" => {
                out = args[i + 1].clone();
                i += 1;
            }
            "--tier" => {
                tier = args[i + 1].clone();
                i += 1;
            }
            "--seed" => {
                seed = args[i + 1].parse().unwrap_or(1);
                i += 1;
            }
            _ => {}
        }
        i += 1;
    }
    let mut ctx = Ctx::new(&suite, &out, &tier, seed);
    if suite == "c08" {
        // owns the context: it may have to end the process early (watchdog)
        c08::run(ctx);
        return;
    }
    match suite.as_str() {
        "c02" | "c14" => c02::run(&mut ctx),
        "c02live" => c02live::run(&mut ctx),
        "c03" => c03::run(&mut ctx),
        "c04" => c04::run(&mut ctx),
        "c05" => c05::run(&mut ctx),
        "c06" => c06::run(&mut ctx),
        "c07" => c07::run(&mut ctx),
        "c07socks" => c07socks::run(&mut ctx),
        "c09" => c09::run(&mut ctx),
        "c10" | "c01" => c10::run(&mut ctx),
        "c02h3" => c02h3::run(&mut ctx),
        "c10h3" | "c01h3" => c10::run_h3(&mut ctx),
        "c05live" => c05live::run(&mut ctx),
        "c12live" => c12live::run(&mut ctx),
        "c16h3" => c16h3::run(&mut ctx),
        "c17h3" => c17::live_h3(&mut ctx),
        "c09origin" => c17::run_malicious(&mut ctx),
        "c17restart" => c17::run_restarts(&mut ctx),
        "c18h3" => c18::run_h3(&mut ctx),
        "c19live" => c19::run_live(&mut ctx),
        "c04live" => c04::run_live(&mut ctx),
        "c09live" => c09live::run(&mut ctx),
        "c07h3" => muxh3::run_udp(&mut ctx),
        "c11h3" => muxh3::run_icmp(&mut ctx),
        "c14qt" => c14qt::run(&mut ctx),
        "c05bin" => binproc::run_c05(&mut ctx),
        "c13bin" => binproc::run_c13(&mut ctx),
        "c19bin" => binproc::run_c19(&mut ctx),
        "c14est" => c10::run_establish(&mut ctx),
        "c10socks" => c10::run_socks(&mut ctx),
        "c10real" => c10::run_real(&mut ctx),
        "c13wizard" => binproc::run_c13_wizard(&mut ctx),
        "c14live" => c14live::run(&mut ctx),
        "c11" => c11::run(&mut ctx),
        "c12" => c12::run(&mut ctx),
        "c13" => c13::run(&mut ctx),
        "c15" => c15::run(&mut ctx),
        "c16" => c16::run(&mut ctx),
        "c17" => c17::run(&mut ctx),
        "c18" => c18::run(&mut ctx),
        "c19" => c19::run(&mut ctx),
        "c20" => c20::run(&mut ctx),
        _ => {
            eprintln!("unknown suite {}", suite);
            std::process::exit(2);
        }
    }
    ctx.finish();
}
