//! C07 / C11 live over HTTP/3: the UDP multiplexer (`CONNECT _udp2`) and the ICMP multiplexer
//! (`CONNECT _icmp`) through the real QUIC listener, HTTP/3 codec (its dropping datagram sink), the
//! real udp_pipe / ICMP forwarder and loopback UDP servers / the kernel's ICMP echo. Nothing is
//! compared with a model here (the models are tied by the in-process suites); the property is
//! checked directly on what the servers and the client observe.
use crate::c02h3::{free_port, plain_hosts, LiveEndpoint};
use crate::c06::{put_ip16, record};
use crate::c16::http_get;
use crate::common::*;
use crate::h3cli::H3Client;
use std::collections::HashMap;
use std::net::{IpAddr, SocketAddr, UdpSocket};
use std::time::{Duration, Instant};
use trusttunnel::core::Core;
use trusttunnel::settings::*;
use trusttunnel::shutdown::Shutdown;

/// 6.4 records out of a byte stream: (source, destination, payload); `Err` when the stream is not a sequence of records
fn parse_64(mut b: &[u8]) -> Result<(Vec<(SocketAddr, SocketAddr, Vec<u8>)>, usize), String> {
    let total = b.len();
    let mut out = vec![];
    loop {
        if b.len() < 4 {
            return Ok((out, total - b.len()));
        }
        let len = u32::from_be_bytes([b[0], b[1], b[2], b[3]]) as usize;
        if len < 36 || len > 70_000 {
            return Err(format!("record length {} at offset {}", len, total - b.len()));
        }
        if b.len() < 4 + len {
            return Ok((out, total - b.len()));
        }
        let ip = |x: &[u8]| -> IpAddr {
            if x[..12].iter().all(|v| *v == 0) {
                IpAddr::from([x[12], x[13], x[14], x[15]])
            } else {
                let mut a = [0u8; 16];
                a.copy_from_slice(x);
                IpAddr::from(a)
            }
        };
        let r = &b[4..4 + len];
        let src = SocketAddr::new(ip(&r[0..16]), u16::from_be_bytes([r[16], r[17]]));
        let dst = SocketAddr::new(ip(&r[18..34]), u16::from_be_bytes([r[34], r[35]]));
        out.push((src, dst, r[36..].to_vec()));
        b = &b[4 + len..];
    }
}

fn payload(flow: usize, k: usize, len: usize) -> Vec<u8> {
    (0..len).map(|i| (i as u32).wrapping_mul(2246822519).rotate_left(9) as u8 ^ (flow as u8).wrapping_mul(37) ^ k as u8).collect()
}

pub fn run_udp(ctx: &mut Ctx) {
    quiet_panics();
    let maddr: SocketAddr = ([127, 0, 0, 1], free_port()).into();
    let Some(ep) = LiveEndpoint::start(move |addr| {
        let settings = Settings::builder()
            .listen_address(addr)
            .unwrap()
            .listen_protocols(ListenProtocolSettings {
                http1: Some(Http1Settings::builder().build()),
                http2: Some(Http2Settings::builder().build()),
                quic: Some(QuicSettings::builder().build()),
            })
            .allow_private_network_connections(true)
            .metrics(MetricsSettings::builder().listen_address(maddr).unwrap().request_timeout(Duration::from_secs(3)).build().unwrap())
            .build()
            .unwrap();
        Core::new(settings, None, plain_hosts(), Shutdown::new()).unwrap()
    }) else {
        ctx.notes.push("c07h3: the endpoint's listener did not come up on loopback; nothing was run".to_string());
        return;
    };
    // three UDP servers and a dead port
    let servers: Vec<UdpSocket> = (0..3)
        .map(|_| {
            let s = UdpSocket::bind("127.0.0.1:0").unwrap();
            s.set_nonblocking(true).unwrap();
            s
        })
        .collect();
    let dead: SocketAddr = UdpSocket::bind("127.0.0.1:0").unwrap().local_addr().unwrap();
    let gauge = |maddr: SocketAddr| -> Option<i64> {
        let (st, body) = http_get(maddr, "/metrics")?;
        if st != 200 {
            return None;
        }
        String::from_utf8_lossy(&body).lines().find_map(|l| l.strip_prefix("outbound_udp_sockets ").and_then(|v| v.trim().parse().ok()))
    };
    let rounds = if ctx.thorough() { 8 } else { 2 };
    for round in 0..rounds {
        let window = if round % 2 == 0 { 1u64 << 20 } else { 6000 };
        let mut cl = match H3Client::connect(ep.addr, Some("localhost"), &[b"h3"], window, Duration::from_secs(3)) {
            Ok(c) => c,
            Err(e) => {
                ctx.oracle_failure("quic_handshake_failed", &format!("{:?}", e));
                return;
            }
        };
        let Some(id) = cl.request("CONNECT", None, "_udp2", None, &[("user-agent".to_string(), b"verif".to_vec())], false) else { return };
        cl.wait(Duration::from_secs(2), |c| c.streams.get(&id).map(|s| s.status.is_some()).unwrap_or(false));
        if cl.stream(id).status != Some(200) {
            ctx.oracle_failure("mux_refused", &format!("CONNECT _udp2 over HTTP/3 was answered {:?}", cl.stream(id).status));
            return;
        }
        // flows: two client sources x three servers, plus one flow to the dead port
        let sources: [SocketAddr; 2] = ["10.7.0.1:40001".parse().unwrap(), "10.7.0.2:40002".parse().unwrap()];
        let mut flows: Vec<(SocketAddr, SocketAddr)> = vec![];
        for s in &sources {
            for sv in &servers {
                flows.push((*s, sv.local_addr().unwrap()));
            }
        }
        flows.push((sources[0], dead));
        let desc = format!("UDP multiplexer over HTTP/3 (client window {} bytes), {} flows", window, flows.len());
        // ---- client -> servers ----
        let sizes = [1usize, 100, 1200, 3000];
        let mut sent: Vec<Vec<Vec<u8>>> = vec![vec![]; flows.len()];
        let mut stream = vec![];
        for k in 0..sizes.len() {
            for (f, (src, dst)) in flows.iter().enumerate() {
                let p = payload(f, k, sizes[(k + f) % sizes.len()]);
                stream.extend(record((36 + 1 + p.len()) as u32, *src, *dst, 0, &[], &p));
                sent[f].push(p);
            }
        }
        let mut off = 0;
        let t0 = Instant::now();
        while off < stream.len() && t0.elapsed() < Duration::from_secs(5) {
            // odd chunking: the record boundaries never coincide with the writes
            let end = (off + 777).min(stream.len());
            off += cl.send_body(id, &stream[off..end], false).unwrap_or(0);
        }
        // what each server got, by the socket (source port) it came from
        let mut got: Vec<HashMap<SocketAddr, Vec<Vec<u8>>>> = vec![HashMap::new(); servers.len()];
        let want: usize = flows.iter().filter(|(_, d)| *d != dead).count() * sizes.len();
        let t0 = Instant::now();
        let mut buf = vec![0u8; 70_000];
        while got.iter().map(|m| m.values().map(|v| v.len()).sum::<usize>()).sum::<usize>() < want && t0.elapsed() < Duration::from_secs(4) {
            cl.pump();
            for (i, sv) in servers.iter().enumerate() {
                while let Ok((n, from)) = sv.recv_from(&mut buf) {
                    got[i].entry(from).or_default().push(buf[..n].to_vec());
                }
            }
            std::thread::sleep(Duration::from_millis(1));
        }
        let mut problems: Vec<String> = vec![];
        let mut flow_socket: HashMap<usize, SocketAddr> = HashMap::new();
        for (i, sv) in servers.iter().enumerate() {
            let addr = sv.local_addr().unwrap();
            let my_flows: Vec<usize> = (0..flows.len()).filter(|f| flows[*f].1 == addr).collect();
            if got[i].len() != my_flows.len() {
                problems.push(format!("server {} saw datagrams from {} sockets, {} flows address it (every (source, destination) pair has its own socket)", i, got[i].len(), my_flows.len()));
            }
            for (from, dgs) in &got[i] {
                // which flow is this socket? the one whose payload sequence it carries
                match my_flows.iter().find(|f| sent[**f] == *dgs) {
                    Some(f) => {
                        flow_socket.insert(*f, *from);
                    }
                    None => problems.push(format!("server {} received from socket {} a datagram sequence (sizes {:?}) that is no flow's (in order, unaltered) payload sequence", i, from, dgs.iter().map(|d| d.len()).collect::<Vec<_>>())),
                }
            }
        }
        // ---- gauge = live flows (the dead-port flow holds a socket too until its error is seen) ----
        let g = gauge(maddr);
        if !matches!(g, Some(x) if x == flows.len() as i64 || x == flows.len() as i64 - 1) {
            problems.push(format!("outbound_udp_sockets reads {:?} with {} flows open", g, flows.len()));
        }
        // ---- servers -> client: each server answers every flow it saw, to the socket the flow came from ----
        let mut expect_back: Vec<(SocketAddr, SocketAddr, Vec<u8>)> = vec![];
        for (f, from) in &flow_socket {
            let (src, dst) = flows[*f];
            let sv = servers.iter().find(|s| s.local_addr().unwrap() == dst).unwrap();
            for k in 0..2 {
                let p = payload(100 + *f, k, [900usize, 50][k]);
                let _ = sv.send_to(&p, from);
                // labelled with the flow's destination as source and its source as destination
                expect_back.push((dst, src, p));
            }
        }
        let before = cl.stream(id).body.len();
        let _ = before;
        let want_bytes: usize = expect_back.iter().map(|(_, _, p)| 4 + 36 + p.len()).sum();
        cl.wait(Duration::from_secs(3), |c| c.streams.get(&id).map(|s| s.body.len() >= want_bytes).unwrap_or(false));
        match parse_64(&cl.stream(id).body) {
            Err(e) => problems.push(format!("the stream towards the client is not a sequence of 6.4 records: {}", e)),
            Ok((recs, _)) => {
                // with a large window nothing may be dropped; with a small one the sink may drop whole datagrams but never alter one
                for r in &recs {
                    if !expect_back.contains(r) {
                        problems.push(format!("the client was handed a datagram {} -> {} of {} bytes that no server sent on that flow", r.0, r.1, r.2.len()));
                    }
                }
                let mut seen = recs.clone();
                seen.sort();
                seen.dedup();
                if seen.len() != recs.len() {
                    problems.push("a datagram was handed to the client twice".to_string());
                }
                if window >= (1 << 20) && recs.len() != expect_back.len() {
                    problems.push(format!("{} of {} reply datagrams reached the client although its flow-control window was never exhausted", recs.len(), expect_back.len()));
                }
                ctx.stat_add("udp_replies_delivered", recs.len() as u64);
                ctx.stat_add("udp_replies_sent", expect_back.len() as u64);
            }
        }
        // ---- the multiplexer is still alive after the dead-port flow's error: one more round trip ----
        let (src, dst) = flows[0];
        let p = payload(7, 7, 333);
        let rec = record((36 + 1 + p.len()) as u32, src, dst, 0, &[], &p);
        let mut off = 0;
        let t0 = Instant::now();
        while off < rec.len() && t0.elapsed() < Duration::from_secs(2) {
            off += cl.send_body(id, &rec[off..], false).unwrap_or(0);
        }
        let t0 = Instant::now();
        let mut again = false;
        while !again && t0.elapsed() < Duration::from_secs(2) {
            cl.pump();
            if let Ok((n, _)) = servers[0].recv_from(&mut buf) {
                again = buf[..n] == p[..];
            }
            std::thread::sleep(Duration::from_millis(1));
        }
        if !again {
            problems.push("after a flow to a dead port the multiplexer no longer forwarded a datagram of another flow".to_string());
        }
        if cl.stream(id).finished || cl.stream(id).reset.is_some() {
            problems.push("the multiplexer stream was ended by the endpoint".to_string());
        }
        cl.close();
        // all sockets are released with the client
        let t0 = Instant::now();
        let mut g = gauge(maddr);
        while g != Some(0) && t0.elapsed() < Duration::from_secs(3) {
            std::thread::sleep(Duration::from_millis(30));
            g = gauge(maddr);
        }
        if g != Some(0) {
            problems.push(format!("3 s after the client had closed outbound_udp_sockets read {:?}", g));
        }
        ctx.stat("h3_udp_multiplexers");
        ctx.stat_add("udp_flows", flows.len() as u64);
        if !problems.is_empty() {
            ctx.oracle_failure("live_udp_mux", &format!("{}: {}", desc, problems.join("; ")));
        }
        let _ = put_ip16;
    }
}

pub fn run_icmp(ctx: &mut Ctx) {
    quiet_panics();
    if !crate::c16::icmp_available() {
        ctx.stat("raw_socket_unavailable");
        ctx.notes.push("raw ICMP sockets are not permitted here: the live ICMP multiplexer suite did not run".into());
        return;
    }
    let Some(ep) = LiveEndpoint::start(|addr| {
        let settings = Settings::builder()
            .listen_address(addr)
            .unwrap()
            .listen_protocols(ListenProtocolSettings {
                http1: Some(Http1Settings::builder().build()),
                http2: Some(Http2Settings::builder().build()),
                quic: Some(QuicSettings::builder().build()),
            })
            .allow_private_network_connections(true)
            .ipv6_available(false)
            .icmp(IcmpSettings::builder().interface_name("lo").request_timeout(Duration::from_millis(1500)).recv_message_queue_capacity(64).build().unwrap())
            .build()
            .unwrap();
        Core::new(settings, None, plain_hosts(), Shutdown::new()).unwrap()
    }) else {
        ctx.notes.push("c11h3: the endpoint's listener did not come up on loopback; nothing was run".to_string());
        return;
    };
    let n_clients = 2;
    let mut clients = vec![];
    for _ in 0..n_clients {
        let Ok(mut cl) = H3Client::connect(ep.addr, Some("localhost"), &[b"h3"], 1 << 20, Duration::from_secs(3)) else {
            ctx.oracle_failure("quic_handshake_failed", "c11h3");
            return;
        };
        let Some(id) = cl.request("CONNECT", None, "_icmp", None, &[], false) else { return };
        cl.wait(Duration::from_secs(2), |c| c.streams.get(&id).map(|s| s.status.is_some()).unwrap_or(false));
        if cl.stream(id).status != Some(200) {
            ctx.oracle_failure("mux_refused", &format!("CONNECT _icmp over HTTP/3 was answered {:?}", cl.stream(id).status));
            return;
        }
        clients.push((cl, id));
    }
    // each client pings 127.0.0.1 with its own identifiers; the kernel answers
    let id_base = (std::process::id() as u16).wrapping_mul(113) | 0x2000;
    let per_client = if ctx.thorough() { 20 } else { 6 };
    let mut expect: Vec<Vec<(u16, u16)>> = vec![vec![]; n_clients];
    for k in 0..per_client {
        for (c, (cl, sid)) in clients.iter_mut().enumerate() {
            let icmp_id = id_base.wrapping_add(c as u16);
            let seq = k as u16;
            let mut rec = icmp_id.to_be_bytes().to_vec();
            put_ip16(&mut rec, &"127.0.0.1".parse().unwrap());
            rec.extend_from_slice(&seq.to_be_bytes());
            rec.push(64);
            rec.extend_from_slice(&([0u16, 8, 56, 400][k % 4]).to_be_bytes());
            // records split across writes
            let cut = 1 + (k % (rec.len() - 1));
            let _ = cl.send_body(*sid, &rec[..cut], false);
            let _ = cl.send_body(*sid, &rec[cut..], false);
            expect[c].push((icmp_id, seq));
        }
    }
    for (c, (cl, sid)) in clients.iter_mut().enumerate() {
        let want = expect[c].len() * 22;
        let sid = *sid;
        cl.wait(Duration::from_secs(3), |x| x.streams.get(&sid).map(|s| s.body.len() >= want).unwrap_or(false));
        // a little longer: nothing else may arrive
        cl.wait(Duration::from_millis(150), |_| false);
        let body = cl.stream(sid).body;
        let mut problems = vec![];
        if body.len() % 22 != 0 {
            problems.push(format!("{} bytes towards the client are not a sequence of 22-byte 7.4 records", body.len()));
        }
        let mut got = vec![];
        for r in body.chunks_exact(22) {
            let id = u16::from_be_bytes([r[0], r[1]]);
            let src_is_lo = r[2..14].iter().all(|v| *v == 0) && r[14..18] == [127, 0, 0, 1];
            let (ty, code) = (r[18], r[19]);
            let seq = u16::from_be_bytes([r[20], r[21]]);
            if !src_is_lo || ty != 0 || code != 0 {
                problems.push(format!("reply id {} seq {}: source 127.0.0.1: {}, type {}, code {} (an echo reply from 127.0.0.1 has type 0 code 0)", id, seq, src_is_lo, ty, code));
            }
            got.push((id, seq));
        }
        for g in &got {
            if !expect[c].contains(g) {
                problems.push(format!("client {} was handed a reply (id {}, seq {}) to a request it did not send", c, g.0, g.1));
            }
        }
        for e in &expect[c] {
            let n = got.iter().filter(|g| *g == e).count();
            if n != 1 {
                problems.push(format!("client {}: the request (id {}, seq {}) was answered {} times", c, e.0, e.1, n));
            }
        }
        ctx.stat("h3_icmp_multiplexers");
        ctx.stat_add("icmp_requests", expect[c].len() as u64);
        if !problems.is_empty() {
            problems.truncate(6);
            ctx.oracle_failure("live_icmp_mux", &format!("ICMP multiplexer over HTTP/3, client {}: {}", c, problems.join("; ")));
        }
    }
    for (cl, _) in clients.iter_mut() {
        cl.close();
    }
}
