import TT.Driver.C02
import TT.Driver.C02h3
import TT.Driver.C03
import TT.Driver.C04
import TT.Driver.C05
import TT.Driver.C06
import TT.Driver.C07
import TT.Driver.C08
import TT.Driver.C10
import TT.Driver.C11
import TT.Driver.C12
import TT.Driver.C13
import TT.Driver.C14
import TT.Driver.C15
import TT.Driver.C16
import TT.Driver.C17
import TT.Driver.C18
import TT.Driver.C19
import TT.Driver.C20
/-
Line-protocol driver: one query per input line, one answer per output line.
`<suite> <op> <args...>`; unknown queries answer `bad-op` (never a default value).
-/
open TT.Driver

def answer (line : String) : String :=
  match line.trimAscii.toString.splitOn " " with
  | ["c02", "h3streams", init, ops] => c02h3streams init ops
  | "c02" :: rest => c02 rest
  | "c03" :: rest => c03 rest
  | "c04" :: rest => c04 rest
  | "c05" :: rest => c05 rest
  | "c06" :: rest => c06 rest
  | "c07" :: rest => c07 rest
  | "c08" :: rest => c08 rest
  | "c10" :: rest => c10 rest
  | "c11" :: rest => c11 rest
  | "c12" :: rest => c12 rest
  | "c13" :: rest => c13 rest
  | "c14" :: rest => c14 rest
  | "c15" :: rest => c15 rest
  | "c16" :: rest => c16 rest
  | "c17" :: rest => c17 rest
  | "c18" :: rest => c18 rest
  | "c19" :: rest => c19 rest
  | "c20" :: rest => c20 rest
  | _ => "bad-op"

partial def loop (h : IO.FS.Stream) (out : IO.FS.Stream) : IO Unit := do
  let line ← h.getLine
  if line.isEmpty then return ()
  out.putStrLn (answer line)
  loop h out

def main : IO Unit := do
  let stdin ← IO.getStdin
  let stdout ← IO.getStdout
  loop stdin stdout
  stdout.flush
