-- root of the `TT` library: models, lemmas, property theorems, audit
import TT.Model.Util
import TT.Model.Ip
import TT.Lemmas.Range
import TT.Lemmas.Ip
import TT.Props.C03
