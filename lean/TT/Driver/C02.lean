import TT.Model.Util
import TT.Model.Pipe
namespace TT.Driver
open TT TT.Pipe

def parseCall (s : String) : Option Call :=
  match s.splitOn ":" with
  | ["read"] => some .read
  | ["waitwritable"] => some .waitWritable
  | ["write", h] => (parseHex h).map .write
  | ["metrics", n] => n.toNat?.map .metrics
  | ["consume", n] => n.toNat?.map .consume
  | ["sinkeof"] => some .sinkEof
  | ["flush"] => some .flush
  | _ => none

def parseResp (s : String) : Option Resp :=
  match s.splitOn ":" with
  | ["chunk", h] => (parseHex h).map .chunk
  | ["eof"] => some .eof
  | ["accepted", k] => k.toNat?.map .accepted
  | ["unit"] => some .unit
  | ["err"] => some .err
  | ["timeout"] => some .timeout
  | _ => none

def fmtCall : Call → String
  | .read => "read"
  | .waitWritable => "waitwritable"
  | .write d => s!"write:{toHex d}"
  | .metrics n => s!"metrics:{n}"
  | .consume n => s!"consume:{n}"
  | .sinkEof => "sinkeof"
  | .flush => "flush"

structure Replay where
  d : Duplex := {}
  tm : Timer
  idx : Nat := 0
  problem : Option String := none
  /-- time at which the surviving direction's own timer ended the exchange (`another.await` -> TimedOut) -/
  survivor : Option Nat := none
  /-- the surviving direction's pending call was cancelled at this time although its own idle timer (restarted by
  every transfer) had not run out: no rule of the pipe ends the exchange there -/
  early : Option Nat := none

/-- replay one log entry against the data-plane machine and the timer model -/
def replayStep (rp : Replay) (t : Nat) (dir : Dir) (call : Call) (resp : Resp) : Replay :=
  if rp.problem.isSome then rp else
  let me := match dir with | .left => rp.d.left | .right => rp.d.right
  let rp := { rp with idx := rp.idx + 1 }
  if rp.d.outcome != .running || rp.tm.expired.isSome then
    -- after the exchange has ended only the cancellation of pending calls may be logged
    if resp == .timeout then rp else { rp with problem := some s!"call {fmtCall call} after the exchange ended (entry {rp.idx})" }
  else
  match next me with
  | none =>
    if resp == .timeout then rp else { rp with problem := some s!"direction issued {fmtCall call} after it had returned (entry {rp.idx})" }
  | some c =>
    if c != call then { rp with problem := some s!"entry {rp.idx}: model expects {fmtCall c}, implementation issued {fmtCall call}" }
    else
      -- timer plane
      let sd := match dir with | .left => rp.tm.sL | .right => rp.tm.sR
      let tm :=
        match call, resp with
        | .read, .chunk _ => tstep rp.tm (.progress dir t)
        | .read, .eof => tstep rp.tm (.progress dir t)
        | .waitWritable, .unit => tstep rp.tm (.progress dir t)
        | _, .timeout => if t == sd + rp.tm.T then tstep rp.tm (.fire dir) else rp.tm
        | _, _ => rp.tm
      -- a cancellation that is not the direction's own timer (the peer's timer fired, or the exchange
      -- ended) leaves the data-plane state untouched apart from the restart counter
      let peer := match dir with | .left => rp.d.right | .right => rp.d.left
      if resp == .timeout && peer.phase == .finished && t != survivorDeadline rp.tm dir then
        -- (the rest of the log is what the implementation did after an end the model does not have)
        { rp with early := some t, problem := some s!"entry {rp.idx}: cancelled at {t}, own timer at {sd + rp.tm.T}" }
      else
      let survivor := if resp == .timeout && peer.phase == .finished then some t else rp.survivor
      { rp with d := dstep rp.d dir resp, tm := tm, survivor := survivor }

partial def replayAll (rp : Replay) : List String → Replay
  | t :: dir :: call :: resp :: rest =>
    match parseCall call, parseResp resp with
    | some c, some r => replayAll (replayStep rp t.toNat! (if dir == "0" then .left else .right) c r) rest
    | _, _ => { rp with problem := some "bad-op" }
  | _ => rp

def c02 (toks : List String) : String :=
  match toks with
  | "duplex" :: t :: _n :: rest =>
    let rp := replayAll { tm := ⟨t.toNat!, 0, 0, 0, 0, none⟩ } rest
    match rp.early, rp.problem with
    | some _, _ => "running"
    | none, some p => s!"diverge {p}"
    | none, none =>
      match rp.tm.expired, rp.d.outcome with
      | some c, _ => s!"timedout {c}"
      | none, .error => match rp.survivor with
        | some t => s!"timedout {t}"
        | none => "err"
      | none, .ok => "ok"
      | none, .running => "running"
  | ["hung", _] => "never-hangs"
  | _ => "bad-op"

end TT.Driver
