import TT.Model.H3Streams
namespace TT.Driver
open TT.H3Streams

def parseStreamOp (s : String) : Option Op :=
  match s.splitOn "." with
  | ["req", id] => id.toNat?.map .request
  | ["fin", id] => id.toNat?.map .readFinished
  | ["close", id] => id.toNat?.map .close
  | ["err", id] => id.toNat?.map .failed
  | ["sd", id, "r"] => id.toNat?.map (.shutdown · .read)
  | ["sd", id, "w"] => id.toNat?.map (.shutdown · .write)
  | ["sd", id, "b"] => id.toNat?.map (.shutdown · .both)
  | _ => none

def parseStreamEntry (s : String) : Option Entry :=
  match s.splitOn ":" with
  | [id, f] =>
    match id.toNat?, f.toList with
    | some id, [r, w] => some ⟨id, r == '1', w == '1'⟩
    | _, _ => none
  | _ => none

def fmtTable (t : Table) : String :=
  let es := (t.toArray.qsort (fun a b => a.id < b.id)).toList
  ",".intercalate (es.map fun e => s!"{e.id}:{if e.readShut then 1 else 0}{if e.writeShut then 1 else 0}")

/-- `c02 h3streams <table|-> <op;op;...>`: the table after every operation -/
def c02h3streams (init ops : String) : String :=
  let t0 : Option Table := if init == "-" then some [] else (init.splitOn ",").mapM parseStreamEntry
  match t0, (ops.splitOn ";").mapM parseStreamOp with
  | some t, some ops =>
    let (_, outs) := ops.foldl (fun (acc : Table × Array String) op =>
      let t' := step acc.1 op
      (t', acc.2.push (let s := fmtTable t'; if s.isEmpty then "-" else s))) (t, #[])
    " | ".intercalate outs.toList
  | _, _ => "bad-op"

end TT.Driver
