import TT.Model.Util
import TT.Model.Ip
namespace TT.Driver
open TT TT.Ip

def parseIp : List Nat → Option (Ip × List Nat)
  | 4 :: a :: b :: c :: d :: rest => some (.v4 a b c d, rest)
  | 6 :: s0 :: s1 :: s2 :: s3 :: s4 :: s5 :: s6 :: s7 :: rest => some (.v6 ⟨s0, s1, s2, s3, s4, s5, s6, s7⟩, rest)
  | _ => none

def fmtIp : Ip → String
  | .v4 a b c d => s!"4 {a} {b} {c} {d}"
  | .v6 x => s!"6 {x.s0} {x.s1} {x.s2} {x.s3} {x.s4} {x.s5} {x.s6} {x.s7}"

def parseSocks : Nat → List Nat → Option (List Sock)
  | 0, _ => some []
  | n+1, toks =>
    match parseIp toks with
    | some (ip, port :: rest) =>
      match parseSocks n rest with
      | some l => some (⟨ip, port⟩ :: l)
      | none => none
    | _ => none

def fmtDecision : Decision → String
  | .connect a => s!"connect {fmtIp a.ip} {a.port}"
  | .loopback => "loopback"
  | .nonroutable => "nonroutable"
  | .resolveFailed => "resolvefail"

def c03 (toks : List String) : String :=
  match toks with
  | ["v4table"] => fmtIntervals v4BlockedTable
  | ["v6mappedtable"] => fmtIntervals v4BlockedTable
  | "v6sweep0" :: rest =>
    match rest.map String.toNat! with
    | [s1, s2, s3, s4, s5, s6, s7] =>
      fmtIntervals (trueIntervals (fun s0 => !isGlobalV6 ⟨s0, s1, s2, s3, s4, s5, s6, s7⟩) 65536)
    | _ => "bad-op"
  | "v6sweep1" :: rest =>
    match rest.map String.toNat! with
    | [s0, s2, s3, s4, s5, s6, s7] =>
      fmtIntervals (trueIntervals (fun s1 => !isGlobalV6 ⟨s0, s1, s2, s3, s4, s5, s6, s7⟩) 65536)
    | _ => "bad-op"
  | "connect" :: allow :: v6ok :: kind :: rest =>
    let allow := allow == "1"
    let v6ok := v6ok == "1"
    let nums := rest.map String.toNat!
    match kind with
    | "addr" =>
      match parseIp nums with
      | some (ip, [port]) => fmtDecision (connectDecision allow v6ok (.addr ⟨ip, port⟩))
      | _ => "bad-op"
    | "host" =>
      match nums with
      | n :: rest =>
        match parseSocks n rest with
        | some l => fmtDecision (connectDecision allow v6ok (.host (some l)))
        | none => "bad-op"
      | _ => "bad-op"
    | "hostfail" => fmtDecision (connectDecision allow v6ok (.host none))
    | _ => "bad-op"
  | _ => "bad-op"

end TT.Driver
