import TT.Model.Util
import TT.Model.Rules
namespace TT.Driver
open TT TT.Rules

/-- rule tokens: `<cidr: a | i | n4 addr len | n6 addr len> <pattern: - | p<hex of the text>> <action a|d>` -/
def parseRules : Nat → List String → Option (List Rule × List String)
  | 0, toks => some ([], toks)
  | n+1, toks =>
    let cidr : Option (Cidr × List String) :=
      match toks with
      | "a" :: r => some (.absent, r)
      | "i" :: r => some (.invalid, r)
      | "n4" :: a :: l :: r => some (.net (.v4 a.toNat!) l.toNat!, r)
      | "n6" :: a :: l :: r => some (.net (.v6 a.toNat!) l.toNat!, r)
      | _ => none
    match cidr with
    | none => none
    | some (c, toks) =>
      match toks with
      | p :: a :: rest =>
        let pat : Option (Option (List Char)) :=
          if p == "-" then some none
          else if p.startsWith "p" then
            match hexDecodeChars (p.toList.drop 1) with
            | some bs => some (some (bs.map Char.ofNat))
            | none => none
          else none
        let act : Option Action := if a == "a" then some .allow else if a == "d" then some .deny else none
        match pat, act, parseRules n rest with
        | some pat, some act, some (rs, rest) => some (⟨c, pat, act⟩ :: rs, rest)
        | _, _, _ => none
      | _ => none

def c04 (toks : List String) : String :=
  match toks with
  | "eval" :: conn :: rest =>
    let ipParsed : Option (Option Addr × List String) :=
      match rest with
      | "none" :: r => some (none, r)
      | "4" :: n :: r => some (some (.v4 n.toNat!), r)
      | "6" :: n :: r => some (some (.v6 n.toNat!), r)
      | _ => none
    match ipParsed with
    | none => "bad-op"
    | some (ip, rest) =>
      match rest with
      | rnd :: n :: ruleToks =>
        let random : Option (Option Bytes) := if rnd == "none" then some none else (parseHex rnd).map some
        match random, parseRules n.toNat! ruleToks with
        | some random, some (rules, []) =>
          let v :=
            if conn == "1" then evaluateConnection (some rules) ip random
            else match ip with
              | some ip => evaluate rules ip random
              | none => .allow
          match v with
          | .allow => "allow"
          | .deny => "deny"
        | _, _ => "bad-op"
      | _ => "bad-op"
  | _ => "bad-op"

end TT.Driver
