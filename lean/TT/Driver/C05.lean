import TT.Model.Util
import TT.Model.Demux
namespace TT.Driver
open TT TT.Demux

def takeN (n : Nat) (toks : List String) : Option (List String × List String) :=
  if toks.length < n then none else some (toks.take n, toks.drop n)

def parseList (toks : List String) : Option (List String × List String) :=
  match toks with
  | n :: rest => match n.toNat? with
    | some n => takeN n rest
    | none => none
  | [] => none

def parsePairs : Nat → List String → Option (List (String × String) × List String)
  | 0, toks => some ([], toks)
  | n+1, a :: m :: rest =>
    match parsePairs n rest with
    | some (l, r) => some ((a, m) :: l, r)
    | none => none
  | _, _ => none

def parseHosts (toks : List String) : Option (HostsSettings × List String) :=
  match parseList toks with
  | some (main, t) =>
    match parseList t with
    | some (ping, t) =>
      match parseList t with
      | some (speed, t) =>
        match parseList t with
        | some (rproxy, t) =>
          match t with
          | n :: t =>
            match n.toNat? with
            | some n =>
              match parsePairs n t with
              | some (alt, t) => some (⟨main, ping, speed, rproxy, alt, true⟩, t)
              | none => none
            | none => none
          | [] => none
        | none => none
      | none => none
    | none => none
  | none => none

def parseEnabled (s : String) : List Proto :=
  match s.toList with
  | [a, b, c] => (if a == '1' then [Proto.h1] else []) ++ (if b == '1' then [Proto.h2] else []) ++ (if c == '1' then [Proto.h3] else [])
  | _ => []

def parseAlpnTok (s : String) : Alpn :=
  if s == "1" then some .h1 else if s == "2" then some .h2 else if s == "3" then some .h3 else none

def fmtChannel : Channel → String
  | .tunnel => "tunnel"
  | .ping => "ping"
  | .speedtest => "speedtest"
  | .reverseProxy => "reverseproxy"

def fmtMeta : Option Meta → String
  | none => "refused"
  | some m =>
    let sni := if m.sni.isEmpty then "-" else m.sni
    s!"{m.protocol.rank} {fmtChannel m.channel} {fmtChannel m.host.1}:{m.host.2} {m.creds.getD "-"} {sni}"

/-- what a live client can observe: protocol, channel, the entry whose certificate was presented -/
def fmtMetaLive : Option Meta → String
  | none => "refused"
  | some m => s!"{m.protocol.rank} {fmtChannel m.channel} {fmtChannel m.host.1}:{m.host.2}"

/-- the host entry whose certificate a client is shown -/
def fmtMetaCert : Option Meta → String
  | none => "refused"
  | some m => s!"{fmtChannel m.host.1}:{m.host.2}"

def sniTok (s : String) : String := if s == "-" then "" else s

partial def runEvents (enabled : List Proto) (rp : Bool) (cur : Cfg) (n : Nat) (toks : List String)
    (acc : Array String) : Option (Array String) :=
  if n == 0 then some acc else
  match toks with
  | "R" :: rest =>
    match parseHosts rest with
    | some (h, loadable :: rest) =>
      let h := { h with loadable := loadable == "1" }
      runEvents enabled rp (reload enabled rp cur h).1 (n - 1) rest acc
    | _ => none
  | "S" :: rest =>
    match parseList rest with
    | some (alpn, sni :: rest) =>
      runEvents enabled rp cur (n - 1) rest (acc.push (fmtMeta (select cur (alpn.map parseAlpnTok) (sniTok sni))))
    | _ => none
  | _ => none

/-- reload / connection histories as a TLS client over TCP observes them -/
partial def runEventsCert (enabled : List Proto) (rp : Bool) (cur : Cfg) (n : Nat) (toks : List String)
    (acc : Array String) : Option (Array String) :=
  if n == 0 then some acc else
  match toks with
  | "R" :: rest =>
    match parseHosts rest with
    | some (h, loadable :: rest) =>
      let h := { h with loadable := loadable == "1" }
      runEventsCert enabled rp (reload enabled rp cur h).1 (n - 1) rest acc
    | _ => none
  | "S" :: rest =>
    match parseList rest with
    | some (alpn, sni :: rest) =>
      runEventsCert enabled rp cur (n - 1) rest (acc.push (fmtMetaCert (tcpAccept cur (alpn.map parseAlpnTok) (some (sniTok sni)))))
    | _ => none
  | _ => none

def c05 (toks : List String) : String :=
  match toks with
  | "select" :: e :: rp :: rest =>
    match parseHosts rest with
    | some (h, rest) =>
      match parseList rest with
      | some (alpn, [sni]) =>
        fmtMeta (select (mkCfg (parseEnabled e) (rp == "1") h) (alpn.map parseAlpnTok) (sniTok sni))
      | _ => "bad-op"
    | none => "bad-op"
  | "tcp" :: e :: rp :: rest =>
    match parseHosts rest with
    | some (h, rest) =>
      match parseList rest with
      | some (alpn, [sni]) =>
        fmtMeta (tcpAccept (mkCfg (parseEnabled e) (rp == "1") h) (alpn.map parseAlpnTok) (if sni == "-" then none else some sni))
      | _ => "bad-op"
    | none => "bad-op"
  | "tcplive" :: e :: rp :: rest =>
    match parseHosts rest with
    | some (h, rest) =>
      match parseList rest with
      | some (alpn, [sni]) =>
        fmtMetaLive (tcpAccept (mkCfg (parseEnabled e) (rp == "1") h) (alpn.map parseAlpnTok) (if sni == "-" then none else some sni))
      | _ => "bad-op"
    | none => "bad-op"
  | "quiclive" :: e :: rp :: rest =>
    match parseHosts rest with
    | some (h, [sni]) => fmtMetaLive (quicAccept (mkCfg (parseEnabled e) (rp == "1") h) (if sni == "-" then none else some sni))
    | _ => "bad-op"
  | "quic" :: e :: rp :: rest =>
    match parseHosts rest with
    | some (h, [sni]) => fmtMeta (quicAccept (mkCfg (parseEnabled e) (rp == "1") h) (if sni == "-" then none else some sni))
    | _ => "bad-op"
  | "runcert" :: e :: rp :: rest =>
    match parseHosts rest with
    | some (h, n :: rest) =>
      let enabled := parseEnabled e
      match runEventsCert enabled (rp == "1") (mkCfg enabled (rp == "1") h) n.toNat! rest #[] with
      | some out => if out.isEmpty then "-" else ";".intercalate out.toList
      | none => "bad-op"
    | _ => "bad-op"
  | "run" :: e :: rp :: rest =>
    match parseHosts rest with
    | some (h, n :: rest) =>
      let enabled := parseEnabled e
      match runEvents enabled (rp == "1") (mkCfg enabled (rp == "1") h) n.toNat! rest #[] with
      | some out => if out.isEmpty then "-" else ";".intercalate out.toList
      | none => "bad-op"
    | _ => "bad-op"
  | _ => "bad-op"

end TT.Driver
