import TT.Model.Util
import TT.Model.UdpCodec
import TT.Driver.C03
namespace TT.Driver
open TT TT.Udp

def fmtSock (s : Ip.Sock) : String := s!"{fmtIp s.ip} {s.port}"

def fmtDg (d : Datagram) : String :=
  s!"{fmtSock d.src}>{fmtSock d.dst} {toHex d.app} {toHex d.payload}"

def fmtDgs (l : List Datagram) : String :=
  if l.isEmpty then "-" else ";".intercalate (l.map fmtDg)

def parseSockToks (toks : List Nat) : Option (Ip.Sock × List Nat) :=
  match parseIp toks with
  | some (ip, port :: rest) => some (⟨ip, port⟩, rest)
  | _ => none

def c06 (toks : List String) : String :=
  match toks with
  | "decode" :: chunks =>
    match chunks.mapM parseHex with
    | none => "bad-op"
    | some cs =>
      let total := (cs.map List.length).sum
      match decodeStream (2 * (cs.length + total) + 2) {} cs [] with
      | none => "panic"
      | some (dgs, _) => fmtDgs dgs
  | ["spec", h] =>
    match parseHex h with
    | none => "bad-op"
    | some s => fmtDgs (specDecode (s.length + 1) s)
  | "encode" :: rest =>
    match rest.reverse with
    | h :: numsRev =>
      match parseSockToks (numsRev.reverse.map String.toNat!) with
      | some (src, rest) =>
        match parseSockToks rest with
        | some (dst, []) =>
          match parseHex h with
          | some p => toHex (encodeOut src dst p)
          | none => "bad-op"
        | _ => "bad-op"
      | none => "bad-op"
    | _ => "bad-op"
  | _ => "bad-op"

end TT.Driver
